#!/bin/sh
# round-4 seeds: tools/confirm_r4.sh Cxx  -> confirms /tmp/seed${R:-4}/Cxx/_out/m{1,2,3}.* into /verif/seeded/Cxx-r4m<k>/
# then runs each confirmed seed through the check of its property (tools/mutate.sh) and records the verdict.
PID="$1"; mkdir -p /tmp/mut
for k in 1 2 3; do
  [ -f /tmp/seed${R:-4}/$PID/_out/m$k.diff ] || continue
  SEED_SRC=/tmp/seed${R:-4} SEED_TAG=r${R:-4}m /venv/bin/python /verif/tools/confirm_seed.py $PID $k >> /tmp/mut/confirm4.log 2>&1
done
for k in 1 2 3; do
  D=/verif/seeded/$PID-r${R:-4}m$k
  [ -f $D/patch.diff ] || continue
  KEEP_LOG=/tmp/mut/check-$PID-r${R:-4}m$k.log sh /verif/tools/mutate.sh $PID $D/patch.diff $D/demo.py > /tmp/mut/verdict-$PID-r${R:-4}m$k.txt 2>&1
done
echo "DONE $PID" >> /tmp/mut/confirm4.log
