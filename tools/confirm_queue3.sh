#!/bin/sh
# round-3 seeds: /tmp/seed3/<Cxx>/_out/m<k>.* -> /verif/seeded/<Cxx>-r3m<k>/
Q=/tmp/mut/queue3.txt; DONE=/tmp/mut/queue3.done; touch $Q $DONE
while true; do
  LINE="$(grep -vxFf $DONE $Q | head -1)"
  if [ -z "$LINE" ]; then sleep 20; continue; fi
  echo "$LINE" >> $DONE
  [ "$LINE" = "STOP" ] && exit 0
  SEED_SRC=/tmp/seed3 SEED_TAG=r3m /venv/bin/python /verif/tools/confirm_seed.py $LINE >> /tmp/mut/confirm3.log 2>&1
done
