#!/bin/sh
# sequentially confirm seeds listed (one "Cxx k" per line) in /tmp/mut/queue.txt; polls for new lines
Q=/tmp/mut/queue.txt; DONE=/tmp/mut/queue.done; touch $Q $DONE
while true; do
  LINE="$(grep -vxFf $DONE $Q | head -1)"
  if [ -z "$LINE" ]; then sleep 20; continue; fi
  echo "$LINE" >> $DONE
  [ "$LINE" = "STOP" ] && exit 0
  /venv/bin/python /verif/tools/confirm_seed.py $LINE >> /tmp/mut/confirm.log 2>&1
done
