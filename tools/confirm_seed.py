#!/usr/bin/env python3
"""tools/confirm_seed.py Cxx k  — confirm seeded mutant /tmp/seed/Cxx/_out/m<k>.* myself and, when it
holds up, store it as /verif/seeded/Cxx-m<k>/{patch.diff, demo.py, meta.json}.
Checks: patch applies to a scratch worktree of /repo HEAD; demo exits non-zero on the mutated tree and 0 on
/repo; the repository test suite on the mutated tree fails nothing beyond the baseline's always-failing and
flaky tests (failures are re-run alone once, to rule out port collisions with concurrent runs)."""
import json, os, re, shutil, subprocess, sys, time

pid, k = sys.argv[1], sys.argv[2]
src = '%s/%s/_out' % (os.environ.get('SEED_SRC', '/tmp/seed'), pid)
tag = os.environ.get('SEED_TAG', 'm')
patch = '%s/m%s.diff' % (src, k)
demo = '%s/m%s_demo.py' % (src, k)
meta = json.load(open('%s/m%s_meta.json' % (src, k)))
base = json.load(open('/root/.vp/BASELINE.json'))
allowed = set(base['always_fail']) | set(base['flaky'])
root = '/tmp/mut/confirm-%s-m%s-%d' % (pid, k, os.getpid())
wt = root + '/repo'
os.makedirs(root)
def sh(cmd, **kw):
    return subprocess.run(cmd, shell=True, stdout=subprocess.PIPE, stderr=subprocess.STDOUT, text=True, **kw)
r = sh('git -C /repo worktree add --detach %s' % wt)
try:
    r = sh('git -C %s apply %s' % (wt, patch))
    if r.returncode != 0:
        r = sh('git -C %s apply --3way %s' % (wt, patch))
    if r.returncode != 0:
        alt = '/verif/seeded_rebased/%s-m%s.diff' % (pid, k)   # hand-rebased onto the fixed tree
        if os.path.exists(alt):
            sh('git -C %s reset --hard -q' % wt)
            patch = alt
            r = sh('git -C %s apply %s' % (wt, patch))
    if r.returncode != 0:
        print('SEED %s m%s: patch does not apply to /repo HEAD: %s' % (pid, k, r.stdout[:300])); sys.exit(1)
    sh('git -C %s reset -q' % wt)
    patch_text = sh('git -C %s diff' % wt).stdout
    patch = root + '/applied.diff'
    open(patch, 'w').write(patch_text)
    env = dict(os.environ, ACSDATA=root, PYTHONDONTWRITEBYTECODE='1')
    a = sh('cd %s && PYTHONPATH=%s timeout 300 /venv/bin/python %s' % (root, wt, demo), env=env)
    b = sh('cd %s && PYTHONPATH=/repo timeout 300 /venv/bin/python %s' % (root, demo), env=env)
    t0 = time.time()
    junit = root + '/junit.xml'
    t = sh('cd %s && timeout 1800 /venv/bin/python -m pytest -q -p no:cacheprovider --timeout=900 '
           '--continue-on-collection-errors --junitxml=%s' % (wt, junit), env=dict(os.environ, PYTHONDONTWRITEBYTECODE='1'))
    failed = set()
    for m in re.finditer(r'^(?:FAILED|ERROR) (\S+?)(?: - .*)?$', t.stdout, re.M):
        f = m.group(1)
        mod, rest = f.split('::', 1)
        failed.add(mod[:-3].replace('/', '.') + '.' + rest)
    extra = sorted(failed - allowed)
    still = []
    for f in extra:   # re-run alone once
        parts = f.split('.')
        # tests.test_x.Class::test  -> tests/test_x.py::Class::test
        modpath = '/'.join(parts[:2]) + '.py::' + '.'.join(parts[2:])
        for attempt in range(3):
            rr = sh('cd %s && timeout 900 /venv/bin/python -m pytest -q -p no:cacheprovider --timeout=900 "%s"' % (wt, modpath))
            if rr.returncode == 0:
                break
        if rr.returncode != 0:
            still.append(f)
    ok = (a.returncode != 0 and b.returncode == 0 and not still)
    summary = dict(demo_mutated_exit=a.returncode, demo_base_exit=b.returncode,
                   suite_tail=t.stdout.strip().splitlines()[-1] if t.stdout.strip() else '',
                   suite_failures_beyond_baseline=still, suite_wall_s=round(time.time() - t0),
                   confirmed=ok,
                   ran=['git apply m%s.diff on a scratch worktree of /repo HEAD' % k,
                        'PYTHONPATH=<mutated> python demo.py (expect non-zero); PYTHONPATH=/repo python demo.py (expect 0)',
                        'pytest -q -p no:cacheprovider --timeout=900 on the mutated tree; failures compared with BASELINE always_fail+flaky'])
    print('SEED %s m%s: demo mutated=%d base=%d; suite: %s; beyond-baseline failures=%s => %s'
          % (pid, k, a.returncode, b.returncode, summary['suite_tail'], still, 'CONFIRMED' if ok else 'REJECTED'))
    if ok:
        dst = '/verif/seeded/%s-%s%s' % (pid, tag, k)
        os.makedirs(dst, exist_ok=True)
        shutil.copy(patch, dst + '/patch.diff')
        shutil.copy(demo, dst + '/demo.py')
        meta_out = dict(property=pid, breaks=meta.get('summary'), needs=meta.get('needs'), files=meta.get('files'),
                        author='independent sub-agent (saw only the property text)', agent_tests=meta.get('tests_run'),
                        confirmation=summary)
        json.dump(meta_out, open(dst + '/meta.json', 'w'), indent=1)
finally:
    sh('git -C /repo worktree remove --force %s' % wt)
    shutil.rmtree(root, ignore_errors=True)
