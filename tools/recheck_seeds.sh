#!/bin/sh
# quick re-validation of every /verif/seeded/<id>: patch applies to /repo HEAD, demo fails with it, passes without
for D in /verif/seeded/*/; do
  ID=$(basename $D); ROOT=/tmp/mut/recheck-$ID-$$; WT=$ROOT/repo; mkdir -p $ROOT
  git -C /repo worktree add --detach $WT >/dev/null 2>&1
  if git -C $WT apply $D/patch.diff 2>/dev/null; then
    (cd $ROOT && PYTHONPATH=$WT ACSDATA=$ROOT timeout 300 /venv/bin/python $D/demo.py >/dev/null 2>&1); A=$?
    (cd $ROOT && PYTHONPATH=/repo ACSDATA=$ROOT timeout 300 /venv/bin/python $D/demo.py >/dev/null 2>&1); B=$?
    echo "$ID applies demo_mutated=$A demo_base=$B"
  else
    echo "$ID DOES-NOT-APPLY"
  fi
  git -C /repo worktree remove --force $WT >/dev/null 2>&1; rm -rf $ROOT
done
