#!/bin/sh
# round-2 seeds: /tmp/seed2/<Cxx>/_out/m<k>.* -> /verif/seeded/<Cxx>-r2m<k>/
Q=/tmp/mut/queue2.txt; DONE=/tmp/mut/queue2.done; touch $Q $DONE
while true; do
  LINE="$(grep -vxFf $DONE $Q | head -1)"
  if [ -z "$LINE" ]; then sleep 20; continue; fi
  echo "$LINE" >> $DONE
  [ "$LINE" = "STOP" ] && exit 0
  SEED_SRC=/tmp/seed2 SEED_TAG=r2m /venv/bin/python /verif/tools/confirm_seed.py $LINE >> /tmp/mut/confirm2.log 2>&1
done
