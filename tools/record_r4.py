#!/usr/bin/env python3
"""Record the verdicts of the round-4 mutation runs (/tmp/mut/verdict-<sid>.txt, written by tools/confirm_r4.sh
through tools/mutate.sh) in seeded/<sid>/meta.json['detection'] — same fields as tools/run_all_seeds.py."""
import glob, json, os, re, sys
for f in sorted(glob.glob('/tmp/mut/verdict-*-r[45]m*.txt')):
    sid = os.path.basename(f)[len('verdict-'):-4]
    d = '/verif/seeded/' + sid
    if not os.path.exists(d + '/meta.json'):
        continue
    out = open(f).read()
    pid = sid.split('-')[0]
    m = re.search(r'demo\[(.*?)\] check_exit=(\d+) (.*)', out)
    det = dict(raw=out.strip()[:1200])
    if m:
        det.update(demo=m.group(1), check_exit=int(m.group(2)))
        line = m.group(3)
        if 'VIOLATION' in line:
            det['verdict'] = 'caught: no-failing-input-found (broken proof/correspondence)' \
                if 'no-failing-input-found' in line else 'caught: concrete failing input'
            k = re.search(r'"klass": "([^"]+)"', out)
            if k:
                det['klass'] = k.group(1)
            det['broken'] = sorted(set(re.findall(r'"(proof|tie|correspondence|oracle)"', out)))
        else:
            det['verdict'] = 'NOT caught'
    else:
        det['verdict'] = 'not run: ' + out.strip()[:200]
    meta = json.load(open(d + '/meta.json'))
    if meta.get('detection', {}).get('final'):
        continue
    meta['detection'] = dict(check='./check %s (quick tier, default seed) via tools/mutate.sh' % pid, **det)
    json.dump(meta, open(d + '/meta.json', 'w'), indent=1)
    print(sid, det['verdict'], det.get('klass', ''), ','.join(det.get('broken', [])))
