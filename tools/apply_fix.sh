#!/bin/sh
# tools/apply_fix.sh <fixes/NN-name.diff> "<subject after 'fix: '>"   — apply to /repo and commit
D="$(readlink -f "$1")"; MSG="$2"
cd /repo || exit 1
if [ -n "$(git status --porcelain --untracked-files=no)" ]; then echo "/repo not clean"; exit 1; fi
git apply "$D" 2>/tmp/apply.err || git apply --3way "$D" 2>>/tmp/apply.err || { echo "DOES NOT APPLY: $D"; cat /tmp/apply.err; git checkout -- .; exit 1; }
git add -A simulators && git commit -q -m "fix: $MSG" && git log --oneline | head -1
