#!/bin/sh
# tools/mutate.sh <Cxx> <patch.diff> [demo.py] [extra check args]
# Applies the patch to a scratch worktree of /repo, runs the demo on both trees, runs the check of
# property Cxx from a private copy of /verif against the mutated tree, prints a one-line verdict,
# and removes the scratch directories.  Never touches /repo or /verif.
PID="$1"; PATCH="$(readlink -f "$2")"; DEMO="$3"; [ -n "$DEMO" ] && DEMO="$(readlink -f "$DEMO")"
if [ $# -ge 3 ]; then shift 3; else shift $#; fi
NAME="$PID-$(basename "$PATCH" .diff)-$$"
ROOT="/tmp/mut/$NAME"; WT="$ROOT/repo"; COPY="$ROOT/verif"
mkdir -p "$ROOT"
git -C /repo worktree add --detach "$WT" >/dev/null 2>&1 || { echo "worktree failed"; exit 2; }
cleanup() { git -C /repo worktree remove --force "$WT" >/dev/null 2>&1; rm -rf "$ROOT"; }
if ! git -C "$WT" apply "$PATCH" 2>"$ROOT/apply.err"; then
  if ! git -C "$WT" apply --3way "$PATCH" 2>>"$ROOT/apply.err"; then
    echo "MUTANT $PID $(basename "$PATCH"): patch does not apply: $(head -3 "$ROOT/apply.err" | tr '\n' ' ')"; cleanup; exit 2
  fi
fi
DEMO_RES="n/a"
if [ -n "$DEMO" ]; then
  (cd "$ROOT" && PYTHONPATH="$WT" ACSDATA="$ROOT" timeout 300 /venv/bin/python "$DEMO" >"$ROOT/demo_mut.log" 2>&1); A=$?
  (cd "$ROOT" && PYTHONPATH=/repo ACSDATA="$ROOT" timeout 300 /venv/bin/python "$DEMO" >"$ROOT/demo_base.log" 2>&1); B=$?
  DEMO_RES="mutated=$A base=$B"
fi
rsync -a --exclude .git --exclude '.work' --exclude 'replays/*' /verif/ "$COPY/"
(cd "$COPY" && VERIF_REPO="$WT" timeout 3000 ./check "$PID" "$@" >"$ROOT/check.log" 2>&1); RC=$?
VLINE="$(grep -m1 '^VIOLATION' "$ROOT/check.log")"
echo "MUTANT $PID $(basename "$PATCH"): demo[$DEMO_RES] check_exit=$RC ${VLINE:-no-violation-line}"
if [ -n "$VLINE" ]; then
  RP="$(echo "$VLINE" | sed -n 's/.*replay=\([^ ]*\).*/\1/p')"
  [ -f "$RP" ] && head -c 1500 "$RP" | tr '\n' ' ' | cut -c1-900
  echo
fi
[ -n "$KEEP_LOG" ] && cp "$ROOT/check.log" "$KEEP_LOG"
cleanup
exit 0
