#!/usr/bin/env python3
"""Regenerate /verif/MANIFEST.json from the META of every props/cXX.py and tools/not_applicable.json."""
import importlib
import json
import os
import sys

VERIF = os.path.dirname(os.path.dirname(os.path.abspath(__file__)))
sys.path.insert(0, VERIF)
os.environ.setdefault('VERIF_REPO', '/repo')

props = [json.loads(l)['id'] for l in open(os.path.join(VERIF, 'properties.jsonl'))]
checks = []
claimed = set()
listed = set(open(os.path.join(VERIF, 'tools', 'claimed.txt')).read().split())
for pid in props:
    path = os.path.join(VERIF, 'props', pid.lower() + '.py')
    if not os.path.exists(path) or pid not in listed:
        continue
    m = importlib.import_module('props.' + pid.lower())
    if m.META.get('disabled'):
        continue
    M = dict(m.META)
    import glob as _glob
    parts = sorted(os.path.basename(f)[:-3] for f in _glob.glob(os.path.join(VERIF, 'props', 'parts', pid.lower() + '_*.py')))
    ready = []
    for pn in parts:
        pm = importlib.import_module('props.parts.' + pn)
        if pm.PART.get('ready'):
            ready.append(pn.split('_', 1)[1] + ((' [partial: %s]' % pm.PART['partial']) if pm.PART.get('partial') else ''))
    if ready:
        M['level_text'] = M['level_text'] + ' Parts on this tree: ' + '; '.join(ready) + '.'
    claimed.add(pid)
    checks.append(dict(
        property_id=pid,
        quick_cmd='./check %s --tier quick' % pid,
        thorough_cmd='./check %s --tier thorough' % pid,
        evidence_file='/verif/evidence/%s.json' % pid,
        replay_cmd_template='./check %s --replay {path}' % pid,
        engine='coq-proof+correspondence',
        level_claimed=dict(category='proof', text=M['level_text'], design_ref=M['design_ref']),
        level_note=M['level_note'],
        technique=M['technique'],
    ))
na_path = os.path.join(VERIF, 'tools', 'not_applicable.json')
na = json.load(open(na_path)) if os.path.exists(na_path) else {}
not_applicable = [dict(property_id=p, reason=na.get(p, 'not yet covered by a Coq model and check in this '
                                                   'development (see DESIGN.md); not claimed'))
                  for p in props if p not in claimed]
manifest = dict(
    version=1,
    setup_cmd='./setup.sh',
    hooks=dict(
        guard='DISCOS_SIMULATORS_VERIF',
        enable='no source hooks: the harness drives the real classes from outside (fake sockets, '
               'virtual clock); checks export DISCOS_SIMULATORS_VERIF=1 for uniformity',
        baseline_off_cmd='cd /repo && /venv/bin/python -m pytest -ra -q -p no:cacheprovider --timeout=900 '
                         '--continue-on-collection-errors',
        source_commits=[],
        add_only=True,
    ),
    engines=[dict(name='coq-proof+correspondence', path='/verif/check',
                  serves_properties=sorted(claimed),
                  kind_free_text='Coq 8.16 theorems over Gallina models (coq/), tied to /repo by generated '
                                 'tables (gen/) and an in-Coq differential correspondence (props/, vlib/); '
                                 'implementation-level oracle search for replays')],
    checks=checks,
    notes='See DESIGN.md. known_findings.txt lists recorded findings and fixed: entries.',
    not_applicable=not_applicable,
)
with open(os.path.join(VERIF, 'MANIFEST.json'), 'w') as f:
    json.dump(manifest, f, indent=1)
    f.write('\n')
print('claimed:', sorted(claimed))
