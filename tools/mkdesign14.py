#!/usr/bin/env python3
"""Regenerate DESIGN.md section 14 (seeded changes) from seeded/*/meta.json."""
import json, os, glob
def rows(pattern):
    out = []
    for d in sorted(glob.glob(pattern)):
        m = json.load(open(d + '/meta.json'))
        det = m.get('detection', {})
        b = (m.get('breaks') or '').replace('\n', ' ').replace('|', '/')
        if len(b) > 140:
            b = b[:137] + '...'
        v = det.get('verdict', '?')
        v = {'caught: concrete failing input': 'concrete input',
             'caught: no-failing-input-found (broken proof/correspondence)': 'no-failing-input-found',
             'NOT caught': 'not caught (see text)'}.get(v, v)
        out.append('| %s | %s | %s | %s |' % (os.path.basename(d), b, v,
                                               det.get('klass', '') or ','.join(det.get('broken', []))))
    return out
r1 = rows('/verif/seeded/C*-m[0-9]'); r2 = rows('/verif/seeded/C*-r2m*'); r3 = rows('/verif/seeded/C*-r3m*')
allr = r1 + r2 + r3
n_conc = sum('| concrete input |' in r for r in allr)
n_nf = sum('| no-failing-input-found |' in r for r in allr)
n_not = sum('not caught' in r for r in allr)
hdr = '| seed | change (from the sub-agent\'s meta) | verdict of `./check <its property>` | failure class / broken layer |\n|---|---|---|---|\n'
txt = '''
---------------------------------------------------------------------------

## 14. Seeded changes: which checks catch which

**Procedure.** Sub-agents that were given only a property's text (title, statement, quantifier) and
a scratch worktree of /repo — nothing from /verif — each wrote three changes that break the
property while the repository's tests still pass, with a demonstration program. Round 1 (20
agents, 60 changes) worked on the pinned tree while the checks were being built; round 2 (20
agents, 60 changes, one agent per property again) worked on /repo HEAD after the fixes, with the
instruction to avoid single-site edits (multi-step histories, boundary values, exception paths,
state that outlives a reset, two cooperating sites); round 3 (10 agents, 30 changes, for C02–C05,
C07, C10, C14, C15, C16, C20) was told which kinds of change had been tried and asked for subtler
ones (one value of a table, one field's encoding, a flag updated on a rarely taken branch, a
three-step history, a shared helper wrong for one of its callers). I confirmed each change myself
(`tools/confirm_seed.py`: patch applies to /repo HEAD, demo exits non-zero with it and 0 without,
full test suite on the patched tree fails nothing beyond the baseline's always-failing/flaky
tests) and stored it as `seeded/<id>/{patch.diff, demo.py, meta.json}`; changes whose lines were
touched by a later `fix:` commit were re-applied by hand (`patch_pinned.diff` keeps the
original; two demos that relied on a since-fixed w_LO defect were made self-contained). Each
stored change is run through the check of its property with `tools/mutate.sh` (private copy of
/verif, patched worktree; /repo itself is never patched) and the verdict is recorded in
`meta.json["detection"]`. `tools/run_all_seeds.py` repeats the whole table;
`tools/mkdesign14.py` regenerates this section.

**Result (final run).** %d changes stored (round 1: 58 — C19-m2 became behaviourally equivalent
after fix 17, and C03-m2's demonstration relied on defects that fixes 25/25b removed, the change
itself being caught by C03 and C18 on the raising-frame scenario; round 2: 60; round 3: 30). %d are caught with
a concrete failing input, %d as `no-failing-input-found` (the change alters modelled behaviour —
correspondence or a proof obligation breaks — without the oracle exhibiting a violation of the
statement on the fixed tree; e.g. C12-m3: `running` clears one step later, which the statement
allows), and %d is not caught: C18-m2, which is proved equivalent on the fixed tree
(`C03_receiver_last_branch_never_raises`: no reachable frame raises in the branch it edits).

**What the misses taught, and what was changed** (no check was loosened; every row was missed on
first contact and is caught now):

| missed at first | why | what was strengthened |
|---|---|---|
| C16-m2 undocumented mode id left in the received-mode field | oracle exercised setters, not command histories | oracle drives a real `System` through `parse`; `mode_codes` table + `C16_received_mode_documented` |
| C16-m3 aliased motor blocks | leak check excluded "other" blocks by object identity | leak check by block index; translator pins the motor-list construction; `C16_assignment_touches_one_block` |
| C10-m3 50-point track refused | c10_acu intercepted the track handler | suite `c10_acu_track` runs the real `PointingStatus`; `C10_acu_track_command_decodes`, `C10_acu_encoded_frames_are_consumed` |
| C10-r2m3 one I/O level bit gated on the wrong direction bit | C10 treated the USD as opaque | part `c10_usd`: `C10_usd_args_reach_state` (encoder arguments ⇒ unit state = spec), full 256-value grids on real USDs |
| C02-m2, C02-m3, C05-m2 (active surface) | C02/C05 had no active-surface part | parts `c02_as` (+ byte-level garbage histories, `C02_as_bytes_then_query`), `c05_as` |
| C05-m1 refused OFFSET partially applied | generator never produced a valid prefix + bad later element | `refused_prefix_traces` in c05_ms and C20 |
| C05-m3 truncated time correction read-back | C05 had no ACU part | part `c05_acu` (`Model/AcmdParam.v`) |
| C04-m2 (gaia stale id), C02-m1 (calmux) | caught only as broken correspondence | oracles now give concrete inputs |
| C03-m2 / C18-m2 reset moved after `_parse` | no raising frame in the histories | raising-frame scenarios (virtual clock) + exception-class theorems; C18-m2 proved equivalent |
| C02-r2m3 refused PROGRAMTRACK while tracking | c02_ms had no tracking histories | tracking histories + one `_update` iteration after every command (`minor_servos_update_thread_raised`) |
| C04-r2m2 interrupted slew overwrites the executed triple | no ACU part in C04 | part `c04_acu` (`C04_acu_executed_written_by_named_thread`, `…_superseded_thread_never_writes`); C15 oracle watches the triple too |
| C01-r2m3 `ex.args[0]` on a bare `ValueError` | scripted parser raised only `ValueError('text')`, logging disabled | 41-kind exception alphabet, `str` subclasses, nine `OSError` kinds, records really formatted |
| C11-m2 / C11-r2m3 broadcast reset rebinding the driver list | harness crashed (`no-failing-input-found`) | harness follows `system.drivers`; motion probe on the positioning thread's own list |
| C06-r2m3 class-level `Value` flags written through `.value` | custom `system_*` commands drawn with 4 %% probability | every custom operation exercised deterministically per driver |
| C07-r3m3 a USD flag cleared on the wrong branch makes a second trigger block for ever inside `parse` (handler thread never ends) | C07's ledger covered only what the System starts | part `c07_as`: `C07_as_never_blocks` (from `C13_never_blocks`), oracle with a non-blocking queue stand-in (C13 and C02 caught it meanwhile) |
| C16-r3m1 a new subscriber is handed the previous publication's buffer | publications were single loop iterations with the subscriber present from the start | `run_loop` scenarios: subscribers joining/leaving mid-period, every frame checked at the moment it is put (C08 caught it as `stale_frame` meanwhile) |

**False alarms found and removed.** Wide seed sweeps of the full checks on the unchanged tree
(`vp run` snapshots: 80 + 400 + 300 + 200 + 200 + 160 check runs over seeds 2–77, plus six `vp check` runs)
raised two alarms, both oracle bugs, both fixed at the root and pinned in `corpus/`: the
weather-station C05 oracle decided "acknowledged" from the typed text instead of the framer's
segmentation (`Tw dn01 --1 …`, seed 4); the MSCU C05 oracle tested the theorem's precondition
(no history entry later than now) at read time instead of at write time (seed 38). After the
second one every owner ran oracle-only sweeps of ≥ 200 quick and 20 thorough seeds on all their
parts (several million oracle evaluations in total); these found and fixed three more latent
false-alarm sources — receiver C05 (an interleaved random request could itself be the alias write of
the known DIO 11/12 finding, ≈ 1 seed in 40), C07's real-timer smoke run (a cancelled-but-not-yet-
exited Timer thread under load), totalpower/dbesm C03 "state-neutral" histories that glued a
truncated piece to garbage into a valid write (≈ 1 seed in 120) — and hardened C08's baton
scheduler so that a hand-off timeout under load is a note, never a violation. The last three sweeps
(seeds 46–55, 60–69 and 70–77, all 20 properties, after the hardening) and `vp check` had no alarm.

### Round 1

''' % (len(allr), n_conc, n_nf, n_not) + hdr + '\n'.join(r1) + '\n\n### Round 2\n\n' + hdr + '\n'.join(r2) + '\n\n### Round 3\n\n' + hdr + '\n'.join(r3) + '\n'
d = open('/verif/DESIGN.md').read()
i = d.find('\n---------------------------------------------------------------------------\n\n## 14. Seeded changes')
if i >= 0:
    d = d[:i]
open('/verif/DESIGN.md', 'w').write(d.rstrip('\n') + '\n' + txt)
print(len(allr), n_conc, n_nf, n_not)
