#!/usr/bin/env python3
"""Run every /verif/seeded/<id>/ mutant through the check of the property it targets (tools/mutate.sh:
private copy of /verif, patched scratch worktree of /repo HEAD) and record the verdict in
meta.json['detection'] and /verif/seeded/RESULTS.md.  Usage: tools/run_all_seeds.py [ids...]"""
import json, os, re, subprocess, sys
base = '/verif/seeded'
ids = sys.argv[1:] or sorted(d for d in os.listdir(base) if os.path.isdir(os.path.join(base, d)))
rows = []
for sid in ids:
    d = os.path.join(base, sid)
    pid = sid.split('-')[0]
    env = dict(os.environ, VERIF_JOBS=os.environ.get('VERIF_JOBS', '4'))
    out = subprocess.run(['/verif/tools/mutate.sh', pid, d + '/patch.diff', d + '/demo.py'],
                         stdout=subprocess.PIPE, stderr=subprocess.STDOUT, text=True, env=env).stdout
    m = re.search(r'demo\[(.*?)\] check_exit=(\d+) (.*)', out)
    det = dict(raw=out.strip()[:1200])
    if m:
        det.update(demo=m.group(1), check_exit=int(m.group(2)))
        line = m.group(3)
        if 'VIOLATION' in line:
            det['verdict'] = 'caught: no-failing-input-found (broken proof/correspondence)' \
                if 'no-failing-input-found' in line else 'caught: concrete failing input'
            k = re.search(r'"klass": "([^"]+)"', out)
            if k:
                det['klass'] = k.group(1)
            b = re.search(r'"(?:all_)?broken": \[(.*?)\]\s*[,}]\s*"', out, re.S)
            det['broken'] = sorted(set(re.findall(r'"(proof|tie|correspondence|oracle)"', out)))
        else:
            det['verdict'] = 'NOT caught'
    else:
        det['verdict'] = 'not run: ' + out.strip()[:200]
    meta = json.load(open(d + '/meta.json'))
    meta['detection'] = dict(check='./check %s (quick tier, default seed) via tools/mutate.sh' % pid, **det)
    json.dump(meta, open(d + '/meta.json', 'w'), indent=1)
    rows.append((sid, det['verdict'], det.get('klass', ''), ','.join(det.get('broken', []))))
    print(sid, det['verdict'], det.get('klass', ''), flush=True)
