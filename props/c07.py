"""C07 — stop always stops.

gen:            gen/ldg_ledger.py  ->  coq/Gen/LdgLedger.v  (creation sites, clears, system_stop actions)
correspondence: random command / timer-firing histories on the real System classes under virtual
                timers (props/ldg_harness.py), stopped at a random point; the ledger instances of
                Model/LdgInst.v replay them inside Coq (Corr/LdgCorr.v) and every observation is compared
oracle:         the property on the implementation only: after system_stop the reply is the
                acknowledgement, nothing non-daemon the instance created is alive, no thread was
                started behind the recording factories, timer chains end, referenced sockets are closed
The parts c07_server / c07_backend (other owners) are loaded by the framework when ready.
"""
import importlib
import json
import os
import threading

from vlib.core import zlit, GenError, REPO

META = dict(
    id='C07',
    title='Stop always stops: clean shutdown from any reachable state',
    design_ref='DESIGN.md section 7, C07',
    coq_target='Properties/C07.vo',
    coq_extra=['Corr/LdgCorr.vo'],
    technique='Coq proof (ledger of background activities: invariant "every live activity that blocks '
              'process exit is referenced by an attribute system_stop cancels/joins", for all histories; '
              'side conditions are booleans over a table generated from the source by a fail-closed AST '
              'translator and discharged by vm_compute) + in-Coq differential correspondence of the '
              'ledger instances with the real System classes under virtual timers',
    level_text='For every System class of the tree: system_stop returns "$server_shutdown%%%%%" and, after '
               'any history of commands and timer firings stopped at any point, no non-daemon thread / '
               'Timer / HTTP server thread the instance started is alive (C07_clean, C07_units, per-simulator '
               'instances), proved in Coq over a ledger model whose per-class table of creation sites, '
               'daemon flags, overwrite guards and system_stop actions is regenerated from the source on '
               'every run; simulators other than totalpower, mscu, minor_servos, acu, active_surface, '
               'backend start nothing at all (C07_others_start_nothing). The instances are compared with the '
               'real classes after every event of seeded random histories. Custom-command path and backend '
               'timers: parts c07_server / c07_backend.',
    level_note='Trusted: Coq kernel + vm_compute; the translator gen/ldg_ledger.py (shapes it does not know '
               'fail closed); the harness fakes (virtual Timer, recording Thread, fake socket / HTTP server); '
               'CPython threading semantics as mirrored by the fakes.',
    partial='bookkeeping only: that join() returns, that shutdown() unblocks serve_forever, that a '
            'cancelled Timer thread exits, real preemption inside a callback and the process exit itself '
            'are runtime behaviour outside the model; breadth of the server/backends parts depends on '
            'c07_server / c07_backend being ready',
    rule='one case = one history (commands, timer firings, system_stop at a random point, possibly '
         'firings/commands after it) on one System instance, observed after every event; non-trivial = '
         'distinct history in which at least one activity was created',
    trusted=['gen/ldg_ledger.py (AST translator, fail closed)', 'props/ldg_harness.py (virtual timers, fakes)'],
    assumptions=['a Timer/Thread callback is one atomic step (no preemption by system_stop inside it)',
                 'Timer.cancel() on a pending timer ends it; cancel() on a running callback has no effect',
                 'Thread.join() on a thread polling the stop flag returns; HTTPServer.shutdown() unblocks '
                 'serve_forever',
                 'a callback that joins a pending timer has no effect before the join (totalpower '
                 '_wait_for_timer): the harness re-runs it when the target has finished'],
)

ACK = '$server_shutdown%%%%%'


# ---------------------------------------------------------------------------------------------
# (A) translator

def gen(ctx):
    from gen import ldg_ledger
    ctx._ldg_units = ldg_ledger.generate(REPO)


def units(ctx):
    if not hasattr(ctx, '_ldg_units'):
        from gen import ldg_ledger
        ctx._ldg_units = ldg_ledger.analyse(REPO)
    return ctx._ldg_units


# ---------------------------------------------------------------------------------------------
# Coq literals

def cstr(s):
    return '"%s"' % s


def zl(xs):
    return '[' + '; '.join(zlit(x) for x in xs) + ']'


def obs_term(o, reply=None):
    alive, blocking, slots = o
    return '(mkObs %s %s [%s] %s)' % (
        'None' if alive is None else '(Some %s)' % zl(alive),
        'None' if blocking is None else '(Some %s)' % zl(blocking),
        '; '.join('((%s, %s), %s)' % (zlit(k[0]), cstr(k[1]), zl(v)) for k, v in slots),
        'None' if reply is None else '(Some %s)' % zl([ord(c) for c in reply]))


def cbool(b):
    return 'true' if b else 'false'


# ---------------------------------------------------------------------------------------------
# drivers: one per simulator.  An action is a JSON-able list; apply() executes it on the real
# instance and returns the Coq event term (or None when nothing happened, e.g. no timer to fire).

class Driver:
    sim = None
    ctor = None
    observe_alive_before_stop = True

    def __init__(self, config=None):
        self.config = config or {}
        self.stopped = False

    def patches(self, H):
        return []

    def slots(self):
        return []

    def cleanup(self):
        pass

    def stop_event(self):
        raise NotImplementedError

    def case_head(self):
        return self.ctor

    default_attr = None       # attribute of objects not referenced by a single-object slot

    def racy(self, obj, H):
        """after system_stop: a real daemon thread that was not joined may or may not have ended yet"""
        if not isinstance(obj, H.RecThread) or not obj.daemon or not obj.is_started():
            return False
        attr = self.default_attr
        for _, a, o in self.slots():
            if o is obj:
                attr = a
        return 'AJoin' not in self.stop_table.get(attr, ())


class TotalPower(Driver):
    sim, ctor = 'totalpower', 'LTp'
    OK_PORT, BAD_PORT = 5002, 9

    def patches(self, H):
        import simulators.totalpower as m
        self.m = m
        self.world.refuse_ports = {self.BAD_PORT}
        return H.auto_patches(self.world, [m], virtual_time=True)

    def build(self):
        self.s = self.m.System(**self.config)
        return self.s

    def slots(self):
        return [(0, 'data_timer', self.s.data_timer), (0, 'data_socket', self.s.data_socket)]

    @staticmethod
    def gen_actions(rng, n):
        acts = []
        for _ in range(n):
            r = rng.random()
            if r < 0.16:
                sp = rng.choice([1000, 1000, 1000, 500, 2000, 0, -1000, 40])
                port = TotalPower.OK_PORT if rng.random() < 0.85 else TotalPower.BAD_PORT
                acts.append(['cmd', 'X %d %d %d 127.0.0.1 %d' % (sp, rng.choice([0, 3]), 0, port)])
            elif r < 0.36:
                acts.append(['cmd', 'resume'])
            elif r < 0.44:
                acts.append(['cmd', 'pause'])
            elif r < 0.54:
                acts.append(['cmd', 'stop'])
            elif r < 0.60:
                acts.append(['cmd', 'S %d' % rng.choice([0, 1000, 1000, 250])])
            elif r < 0.68:
                acts.append(['cmd', rng.choice(['?', 'V', 'I B 1 1', 'X 1000 0 0', 'S', 'S x', 'R', 'T 1 2',
                                                'foo', 'X a 0 0 h 1', 'A 1 B 1 1', 'Z 1', 'N 1'])])
            else:
                acts.append(['tick', rng.random() < 0.08])
        return acts

    def apply(self, a, H):
        if a[0] == 'cmd':
            text = a[1]
            H.feed(self.s, text + '\n')
            w = text.split(' ')
            if w[0] == 'X' and len(w) == 6:
                try:
                    sp, port = int(w[1]), int(w[5])
                    int(w[2]), int(w[3])
                except ValueError:
                    return 'TpNop'
                return 'TpX %s %s' % (cbool(port not in self.world.refuse_ports), cbool(sp == 0))
            if w[0] == 'S' and len(w) == 2:
                try:
                    return 'TpS %s' % cbool(int(w[1]) == 0)
                except ValueError:
                    return 'TpNop'
            if text in ('resume', 'pause', 'stop'):
                return {'resume': 'TpResume', 'pause': 'TpPause', 'stop': 'TpStop'}[text]
            return 'TpNop'
        if a[0] == 'tick':
            self.world.inject_send_failure = bool(a[1])
            r = self.world.fire_next()
            consumed = bool(a[1]) and not self.world.inject_send_failure
            self.world.inject_send_failure = False
            if r is None or r[1] == 'blocked':
                return None
            return 'TpFire %d %s' % (r[0].vid, cbool(consumed))
        raise ValueError(a)

    def stop_event(self):
        return 'TpSysStop'

    def cleanup(self):
        self.s.stop.value = True


class Mscu(Driver):
    sim, ctor = 'mscu', 'LMs'

    def patches(self, H):
        import simulators.mscu as m
        import simulators.mscu.servo as sv
        self.m = m
        return H.auto_patches(self.world, [m, sv])

    def build(self):
        self.s = self.m.System()
        return self.s

    def slots(self):
        return [(addr + 1, 'dc_thread', sv.dc_thread) for addr, sv in sorted(self.s.servos.items())]

    @staticmethod
    def gen_actions(rng, n):
        acts = []
        for _ in range(n):
            r = rng.random()
            if r < 0.45:
                addr = rng.choice([0, 1, 2, 3, 3, 7])
                tail = rng.choice(['', ',0,1.1,0x0002'])
                acts.append(['cmd', '#setup:%d=%d%s\r\n' % (rng.randrange(3), addr, tail)])
            elif r < 0.65:
                acts.append(['cmd', rng.choice(['#stow:0=1\r\n', '#getpos:0=2\r\n', '#getstatus:1=0\r\n',
                                                '#disable:0=3\r\n', '#foo:0=1\r\n', 'garbage\r\n',
                                                '#setup:0=\r\n', '#setup=1\r\n'])])
            else:
                acts.append(['tick', False])
        return acts

    def apply(self, a, H):
        if a[0] == 'cmd':
            text = a[1]
            H.feed(self.s, text)
            if text.startswith('#setup:'):
                try:
                    addr = int(text.split('=')[1].split(',')[0])
                    int(text.split('=')[0].split(':')[1])
                except (ValueError, IndexError):
                    return 'MsNop'
                if addr in self.s.servos:
                    return 'MsSetup %d' % (addr + 1)
            return 'MsNop'
        if a[0] == 'tick':
            r = self.world.fire_next()
            if r is None or r[1] == 'blocked':
                return None
            return 'MsFire %d' % r[0].vid
        raise ValueError(a)

    def stop_event(self):
        return 'MsSysStop'


class MinorServos(Driver):
    sim, ctor = 'minor_servos', 'LMv'

    def patches(self, H):
        import simulators.minor_servos as m
        self.m = m
        return H.auto_patches(self.world, [m])

    def build(self):
        self.rest = bool(self.config.get('rest_api', False))
        self.s = self.m.System(timer_value=self.config.get('timer_value', 5), rest_api=self.rest)
        self.names = list(self.s.servos)
        return self.s

    def case_head(self):
        return 'LMv %s' % cbool(self.rest)

    def slots(self):
        s = self.s
        out = [(0, 'cover_timer', s.cover_timer), (0, 'update_thread', s.update_thread)]
        if self.rest:
            out += [(0, 'httpserver', s.httpserver), (0, 'server_thread', s.server_thread)]
        for k, nm in enumerate(self.names):
            out.append((k + 1, 'operative_mode_timer', s.servos[nm].operative_mode_timer))
        return out

    SERVOS = ['PFP', 'SRP', 'M3R', 'GFR', 'DR_GFR1', 'DR_GFR2', 'DR_GFR3', 'DR_PFP']
    DOF = {'PFP': 3, 'SRP': 6}
    CONFS = ['Primario', 'Gregoriano1', 'Gregoriano2', 'Gregoriano5', 'BWG1', 'BWG3', 'BWG4']

    @staticmethod
    def gen_actions(rng, n):
        acts = []
        S = MinorServos
        for _ in range(n):
            r = rng.random()
            if r < 0.18:
                acts.append(['cmd', 'SETUP=%s' % rng.choice(S.CONFS + ['UNKNOWN'])])
            elif r < 0.36:
                acts.append(['cmd', 'STOW=GREGORIAN_CAP,%d' % rng.choice([0, 1, 1, 2, 3, 4, 5])])
            elif r < 0.50:
                acts.append(['cmd', 'STOW=%s,1' % rng.choice(S.SERVOS + ['NOPE'])])
            elif r < 0.58:
                acts.append(['cmd', 'STOP=%s' % rng.choice(S.SERVOS + ['NOPE'])])
            elif r < 0.66:
                sv = rng.choice(S.SERVOS)
                acts.append(['cmd', 'PRESET=%s,%s' % (sv, ','.join(['0.0'] * S.DOF.get(sv, 1)))])
            elif r < 0.72:
                acts.append(['cmd', rng.choice(['STATUS', 'STATUS=PFP', 'OFFSET=M3R,0.0', 'FOO', 'STOW',
                                                'STOW=PFP,x', 'PRESET=M3R', 'SETUP', 'STOP'])])
            else:
                acts.append(['tick', False])
        return acts

    def apply(self, a, H):
        if a[0] == 'cmd':
            text = a[1]
            H.feed(self.s, text + '\r\n')
            head, _, rest = text.partition('=')
            args = rest.split(',') if rest else []
            if head == 'SETUP' and len(args) == 1 and args[0] in self.s.configurations:
                cp = self.s.configurations[args[0]]['GREGORIAN_CAP'][0] or 0
                return 'MvSetup %s' % zlit(cp)
            if head == 'STOW' and len(args) == 2:
                try:
                    pos = int(args[1])
                except ValueError:
                    return 'MvNop'
                if args[0] == 'GREGORIAN_CAP':
                    return 'MvStowCap %s' % zlit(pos) if pos in range(5) else 'MvNop'
                if args[0] in self.names:
                    return 'MvStowServo %d' % (self.names.index(args[0]) + 1)
                return 'MvNop'
            if head == 'STOP' and len(args) == 1 and args[0] in self.names:
                return 'MvCancelOp %d' % (self.names.index(args[0]) + 1)
            if head == 'PRESET' and len(args) >= 2 and args[0] in self.names \
                    and len(args) - 1 == self.s.servos[args[0]].DOF:
                return 'MvCancelOp %d' % (self.names.index(args[0]) + 1)
            return 'MvNop'
        if a[0] == 'tick':
            r = self.world.fire_next()
            if r is None or r[1] == 'blocked':
                return None
            return 'MvFire %d' % r[0].vid
        raise ValueError(a)

    def stop_event(self):
        return 'MvSysStop'

    def cleanup(self):
        self.s.stop.value = True
        for o in self.world.objs:
            if hasattr(o, '_ev'):
                o._ev.set()


class Acu(Driver):
    sim, ctor = 'acu', 'LAcu'
    default_attr = 'command_threads'
    observe_alive_before_stop = False     # command threads end on their own, in real time

    def patches(self, H):
        import simulators.acu as m
        self.m = m
        return H.auto_patches(self.world, [m])

    def build(self):
        self.s = self.m.System()
        return self.s

    def slots(self):
        return [(0, 'update_thread', self.s.update_thread)]

    @staticmethod
    def gen_actions(rng, n):
        acts = []
        for _ in range(n):
            r = rng.random()
            if r < 0.75:
                cmds = []
                for sub in rng.sample([1, 2, 3, 5], rng.choice([1, 1, 2, 3])):
                    mode = rng.choice([2, 2, 3, 3, 5, 7, 8, 1, 15, 50, 99])
                    cmds.append([sub, mode, rng.choice([10.0, 45.0, 181.0, -5.0]), rng.choice([0.2, 0.5, 1.0])])
                acts.append(['frame', cmds])
            else:
                acts.append(['bytes', bytes(rng.randrange(256) for _ in range(rng.randrange(1, 30))).hex()])
        return acts

    def apply(self, a, H):
        before = len(self.world.objs)
        if a[0] == 'frame':
            from simulators.acu import acu_utils as au
            self.counter = getattr(self, 'counter', 1000) + 10
            c = au.Command(*[au.ModeCommand(sub, mode, p1, p2) for sub, mode, p1, p2 in a[1]])
            c.command_counter = self.counter
            H.feed(self.s, c.get())
        elif a[0] == 'bytes':
            H.feed(self.s, bytes.fromhex(a[1]).decode('latin-1'))
        else:
            raise ValueError(a)
        n = len(self.world.objs) - before
        return 'AcuSpawn %d%%nat' % n if n else 'AcuNop'

    def stop_event(self):
        return 'AcuSysStop'

    def cleanup(self):
        self.s.stop.value = True


class ActiveSurface(Driver):
    sim, ctor = 'active_surface', 'LAs'

    def patches(self, H):
        import simulators.active_surface as m
        self.m = m
        return H.auto_patches(self.world, [m])

    def build(self):
        self.s = self.m.System(**self.config)
        return self.s

    def slots(self):
        return [(0, 'positioning_thread', self.s.positioning_thread)]

    @staticmethod
    def gen_actions(rng, n):
        acts = []
        for _ in range(n):
            if rng.random() < 0.5:
                acts.append(['bytes', bytes(rng.randrange(256) for _ in range(rng.randrange(1, 12))).hex()])
            else:
                acts.append(['bytes', bytes([0xFA, 0x20 | rng.randrange(32), rng.randrange(256)]).hex()])
        return acts

    def apply(self, a, H):
        H.feed(self.s, bytes.fromhex(a[1]).decode('latin-1'))
        return 'PlNop'

    def stop_event(self):
        return 'PlSysStop'

    def cleanup(self):
        self.s.stop.value = True
        self.s.positioning_thread.join(5)


class Plain(Driver):
    """a System class that starts nothing: unit name + module path from the translator"""
    ctor = 'LPlain'

    def __init__(self, unit, module, config=None):
        Driver.__init__(self, config)
        self.sim, self.module = unit, module

    def case_head(self):
        return 'LPlain %s' % cstr(self.sim)

    def patches(self, H):
        self.m = importlib.import_module(self.module)
        return H.auto_patches(self.world, [self.m])

    def build(self):
        self.s = self.m.System(**self.config)
        return self.s

    @staticmethod
    def gen_actions(rng, n):
        acts = []
        for _ in range(n):
            k = rng.randrange(1, 24)
            if rng.random() < 0.5:
                acts.append(['bytes', bytes(rng.randrange(256) for _ in range(k)).hex()])
            else:
                acts.append(['bytes', (''.join(rng.choice('#?!@$%=:,. \r\nabcSETGx019') for _ in range(k))
                                       + '\r\n').encode('latin-1').hex()])
        return acts

    def apply(self, a, H):
        H.feed(self.s, bytes.fromhex(a[1]).decode('latin-1'))
        return 'PlNop'

    def stop_event(self):
        return 'PlSysStop'


DRIVERS = {'totalpower': TotalPower, 'mscu': Mscu, 'minor_servos': MinorServos, 'acu': Acu,
           'active_surface': ActiveSurface}


def make_driver(spec):
    """spec: dict(sim=..., config=..., module=...)"""
    if spec['sim'] in DRIVERS:
        return DRIVERS[spec['sim']](spec.get('config'))
    return Plain(spec['sim'], spec['module'], spec.get('config'))


# ---------------------------------------------------------------------------------------------
# running one history

def stop_table(sim):
    from gen import ldg_ledger
    if not hasattr(stop_table, 'cache') or stop_table.cache[0] != REPO:
        stop_table.cache = (REPO, {u.name: u.stop for u in ldg_ledger.analyse(REPO)})
    return stop_table.cache[1].get(sim, {})


def run_history(spec, actions, drain=True):
    """execute `actions` (the list contains ['stop'] entries) on a fresh instance.
    returns dict(term=Coq case, failures=[(klass, what)], created=int, events=int)"""
    from props import ldg_harness as H
    d = make_driver(spec)
    d.world = world = H.World()
    try:
        d.stop_table = stop_table(d.sim)
    except Exception:      # the translator failed (reported by gen): no table to consult
        d.stop_table = {}
    failures = []

    def force(o):
        return d.racy(o, H)

    def force_before_stop(o):
        # a real daemon thread's body is not C07's business: until it is joined it counts as alive
        # (what the ledger says), whether or not its loop is still running
        return isinstance(o, H.RecThread) and o.daemon and o.is_started()

    steps = []
    threads_before = set(threading.enumerate())
    for cls in (H.VTimer, H.RecThread, H.FakeSocket, H.FakeHTTPServer):
        cls.world = world
    patches = d.patches(H)
    if True:
        with H.patched(world, patches):
            try:
                d.build()
                flag = getattr(getattr(d, 's', None), 'stop', None)
                if hasattr(flag, 'value'):
                    world.stop_flag = lambda: bool(flag.value)
                o0 = H.observe(world, d.slots(), d.observe_alive_before_stop, force_before_stop)
                stopped = False
                for a in actions:
                    if a[0] == 'stop':
                        reply = None
                        try:
                            reply = d.s.system_stop()
                        except H.WouldBlock:
                            failures.append(('stop_waits_for_timer', 'system_stop blocks inside a callback'))
                        except Exception as ex:
                            failures.append(('stop_raises', 'system_stop raised %s' % type(ex).__name__))
                        stopped = True
                        ev = d.stop_event()
                        o = H.observe(world, d.slots(), True, force)
                        steps.append('(%s, %s)' % (ev, obs_term(o, reply if isinstance(reply, str) else '')))
                        if reply != ACK:
                            failures.append(('stop_reply', 'system_stop returned %r' % (reply,)))
                        if o[1]:
                            kinds = sorted({world.objs[i].kind for i in o[1]})
                            failures.append(('nondaemon_alive_after_stop',
                                             'non-daemon %s alive after system_stop: ids %s'
                                             % ('/'.join(kinds), o[1])))
                        for owner, attr, obj in d.slots():
                            if isinstance(obj, H.FakeSocket) and not obj.closed:
                                failures.append(('socket_open_after_stop',
                                                 'socket in %s still open after system_stop' % attr))
                        continue
                    ev = d.apply(a, H)
                    if ev is None:
                        continue
                    o = H.observe(world, d.slots(), d.observe_alive_before_stop or stopped,
                                  force if stopped else force_before_stop)
                    steps.append('(%s, %s)' % (ev, obs_term(o)))
                if stopped and drain:
                    # oracle only: every timer chain ends once stopped
                    for _ in range(64):
                        if world.fire_next() is None:
                            break
                    left = [o.vid for o in world.objs if isinstance(o, H.VTimer) and o.alive()]
                    if left:
                        failures.append(('chain_survives_stop',
                                         'timers still alive after system_stop and 64 firings: %s' % left))
                if world.main_waits:
                    failures.append(('stop_waits_for_timer',
                                     'a pending timer was joined without cancel: ids %s' % world.main_waits))
                if world.hung_joins:
                    failures.append(('join_hangs', 'join() can never return: %s' % world.hung_joins))
            finally:
                try:
                    d.cleanup()
                except Exception:
                    pass
    foreign = [t for t in world.foreign]
    if foreign:
        failures.append(('untracked_thread', 'threads started outside the recorded creation sites: %s'
                         % [type(t).__name__ for t in foreign]))
        for t in foreign:
            if hasattr(t, 'cancel'):
                t.cancel()
    extra = [t for t in threading.enumerate() if t not in threads_before and not t.daemon
             and not isinstance(t, H.RecThread)]
    if extra:
        failures.append(('untracked_thread', 'non-daemon threads left in the process: %d' % len(extra)))
    term = '%s %s [%s]' % (d.case_head(), obs_term(o0), ';\n '.join(steps))
    if world.slow_joins:
        # a thread that was told to stop did not end within LONG_JOIN seconds: machine load, not a
        # verdict.  The observations of this history are unreliable: drop it.
        return dict(term=None, failures=[], created=len(world.objs), events=len(steps),
                    note='%s: join of thread(s) %s timed out; history dropped' % (d.sim, world.slow_joins))
    return dict(term=term, failures=[('%s_%s' % (d.sim, k), w) for k, w in failures],
                created=len(world.objs), events=len(steps))


def with_stop(rng, acts, tail_gen):
    """stop at a random prefix; sometimes more firings / commands / a second stop afterwards"""
    cut = rng.randrange(len(acts) + 1)
    out = acts[:cut] + [['stop']]
    r = rng.random()
    if r < 0.35:
        out += [['tick', False]] * rng.randrange(1, 4) if tail_gen else []
    elif r < 0.5:
        out += tail_gen(rng, rng.randrange(1, 5)) if tail_gen else []
        out += [['stop']]
    elif r < 0.6:
        out += [['stop']]
    return out


def plain_specs(ctx):
    out = []
    try:
        us = units(ctx)
    except Exception:     # the translator failed closed (already reported by gen): no sweep list
        return out
    for u in us:
        if u.name in DRIVERS or u.name.startswith('backend'):
            continue      # a unit that acquired creation sites stays in the sweep: the oracle must see it
        module = 'simulators.' + u.mod.rel[:-3].replace('/__init__', '').replace('/', '.')
        out.append(dict(sim=u.name, module=module, config={}))
    return out


def histories(ctx, rng, scale):
    """[(spec, actions)]"""
    out = []
    for _ in range(60 * scale):
        n = rng.choice([3, 6, 10, 16, 24, 40])
        out.append((dict(sim='totalpower', config={'channels': rng.choice([14, 4])}),
                    with_stop(rng, TotalPower.gen_actions(rng, n), TotalPower.gen_actions)))
    # directed: streaming, stopped while the chain is armed
    for k in range(6 * scale):
        pre = [['cmd', 'X 1000 0 0 127.0.0.1 5002'], ['cmd', 'resume']] + [['tick', False]] * rng.randrange(0, 4)
        mid = rng.choice([[], [['cmd', 'resume']], [['cmd', 'stop']], [['cmd', 'pause']],
                          [['cmd', 'stop'], ['cmd', 'resume']], [['cmd', 'stop'], ['cmd', 'X 1000 0 0 127.0.0.1 5002'],
                                                                 ['tick', False]]])
        out.append((dict(sim='totalpower', config={}), pre + mid + [['stop']] + [['tick', False]] * rng.randrange(0, 3)))
    for _ in range(24 * scale):
        out.append((dict(sim='mscu'), with_stop(rng, Mscu.gen_actions(rng, rng.choice([2, 5, 9, 15])),
                                                Mscu.gen_actions)))
    for i in range(30 * scale):
        cfg = {'rest_api': i % 5 == 0, 'timer_value': rng.choice([5, 1, 0.5])}
        out.append((dict(sim='minor_servos', config=cfg),
                    with_stop(rng, MinorServos.gen_actions(rng, rng.choice([2, 5, 9, 15])),
                              MinorServos.gen_actions)))
    # directed: the same attribute armed twice in a row (overwrite of a pending timer), then stop
    for _ in range(3 * scale):
        a, b = rng.sample(MinorServos.CONFS, 2)
        sv = rng.choice(MinorServos.SERVOS)
        p, q = rng.sample([1, 2, 3, 4], 2)
        pre = rng.choice([[['cmd', 'SETUP=%s' % a], ['cmd', 'SETUP=%s' % b]],
                          [['cmd', 'STOW=%s,1' % sv], ['cmd', 'STOW=%s,1' % sv]],
                          [['cmd', 'STOW=GREGORIAN_CAP,%d' % p], ['cmd', 'STOW=GREGORIAN_CAP,%d' % q]],
                          [['cmd', 'SETUP=%s' % a], ['cmd', 'STOW=GREGORIAN_CAP,%d' % q]],
                          [['cmd', 'STOW=GREGORIAN_CAP,%d' % q], ['cmd', 'SETUP=%s' % a], ['cmd', 'SETUP=%s' % b]]])
        out.append((dict(sim='minor_servos', config={'rest_api': False}),
                    pre + [['tick', False]] * rng.randrange(0, 2) + [['stop']] + [['tick', False]] * rng.randrange(0, 3)))
        k = rng.randrange(4)
        out.append((dict(sim='mscu'), [['cmd', '#setup:0=%d\r\n' % k]] * rng.randrange(1, 4)
                    + [['cmd', '#setup:0=%d\r\n' % ((k + 1) % 4)]] + [['stop']]))
    for _ in range(max(3, scale)):
        acts = Acu.gen_actions(rng, rng.choice([1, 3, 5]))
        out.append((dict(sim='acu'), acts + [['stop']] + ([['stop']] if rng.random() < 0.3 else [])))
    for _ in range(max(2, scale // 2)):
        lo = rng.randrange(0, 30)
        out.append((dict(sim='active_surface', config={'min_usd_index': lo, 'max_usd_index': rng.randrange(lo, 32)}),
                    ActiveSurface.gen_actions(rng, 4) + [['stop']]))
    for spec in plain_specs(ctx):
        for _ in range(max(1, scale // 2)):
            out.append((spec, Plain.gen_actions(rng, rng.randrange(1, 6)) + [['stop']]))
    return out


def corpus():
    d = os.path.join(os.path.dirname(os.path.dirname(os.path.abspath(__file__))), 'corpus', 'C07')
    out = []
    if os.path.isdir(d):
        for f in sorted(os.listdir(d)):
            if f.endswith('.json'):
                obj = json.load(open(os.path.join(d, f)))
                out.append((obj['spec'], obj['actions']))
    return out


# ---------------------------------------------------------------------------------------------
# (C) correspondence

def correspondence(ctx):
    scale = ctx.n(1, 12)
    hs = corpus() + histories(ctx, ctx.rng, scale)
    cases = []
    ctx._c07_failures = []
    for spec, acts in hs:
        r = run_history(spec, acts)
        if r['term'] is None:
            ctx.note(r['note'])
            continue
        cases.append(r['term'])
        ctx.count(spec['sim'] if spec['sim'] in DRIVERS else 'sweep')
        ctx.count('events', r['events'])
        if r['created']:
            ctx.nontriv((spec['sim'], json.dumps(acts)))
        for klass, what in r['failures']:
            ctx._c07_failures.append((klass, what, spec, acts))
    for c in cases[:2] + cases[len(cases) // 2:len(cases) // 2 + 1]:
        ctx.sample(c[:600])
    ctx.run_cases('ledger', 'From Coq Require Import String.\nFrom DS Require Import Model.LdgLedger '
                            'Model.LdgInst Corr.LdgCorr.',
                  'lcase', 'ok', cases, show='show', shard=ctx.n(40, 120),
                  prelude='Open Scope string_scope.\nOpen Scope Z_scope.\nOpen Scope list_scope.')


# ---------------------------------------------------------------------------------------------
# (D) oracle on the implementation

def shrink(spec, acts, klass):
    def fails(a):
        try:
            return any(k == klass for k, _ in run_history(spec, a)['failures'])
        except Exception:
            return False
    cur = list(acts)
    changed = True
    while changed and len(cur) > 1:
        changed = False
        for i in range(len(cur)):
            cand = cur[:i] + cur[i + 1:]
            if any(a[0] == 'stop' for a in cand) and fails(cand):
                cur, changed = cand, True
                break
    return cur


def oracle(ctx):
    found = list(getattr(ctx, '_c07_failures', []))
    rng = ctx.rng
    scale = ctx.n(1, 12)
    checked = 0
    hs = histories(ctx, rng, scale)
    # boundary-biased: stop right after an activity has been armed
    hs += [(dict(sim='totalpower', config={}), [['cmd', 'X 1000 0 0 127.0.0.1 5002'], ['cmd', 'resume'], ['stop']]),
           (dict(sim='totalpower', config={}), [['cmd', 'X 1000 0 0 127.0.0.1 5002'], ['cmd', 'resume'],
                                                ['tick', False], ['cmd', 'stop'], ['stop']]),
           (dict(sim='mscu'), [['cmd', '#setup:0=1\r\n'], ['stop']]),
           (dict(sim='mscu'), [['cmd', '#setup:0=1\r\n'], ['cmd', '#setup:0=1\r\n'], ['cmd', '#setup:0=2\r\n'], ['stop']]),
           (dict(sim='minor_servos', config={'rest_api': True}),
            [['cmd', 'SETUP=Gregoriano1'], ['cmd', 'STOW=PFP,1'], ['stop']]),
           (dict(sim='minor_servos', config={'rest_api': False}),
            [['cmd', 'STOW=GREGORIAN_CAP,2'], ['cmd', 'STOW=GREGORIAN_CAP,3'], ['stop']])]
    for spec, acts in hs:
        r = run_history(spec, acts)
        checked += 1
        if r.get('note'):
            ctx.note(r['note'])
        for klass, what in r['failures']:
            found.append((klass, what, spec, acts))
    reals = []
    for sim in ('totalpower', 'mscu', 'minor_servos'):
        for wait in ([False, True] if (sim == 'totalpower' and not ctx.quick()) else [False]):
            checked += 1
            try:
                res = run_real(sim, wait)
            except Exception as ex:    # no loopback networking etc.: the virtual runs still decide
                ctx.note('real smoke run of %s skipped: %s: %s' % (sim, type(ex).__name__, ex))
                continue
            for klass, what in res:
                reals.append((klass, what, sim, wait))
    seen = set()
    for klass, what, sim, wait in reals:
        if klass not in {k for k, _, _, _ in found} and klass not in seen:
            seen.add(klass)
            ctx.fail(klass, what, dict(real=True, sim=sim, wait=wait))
    for klass, what, spec, acts in found:
        if klass in seen:
            continue
        seen.add(klass)
        small = shrink(spec, acts, klass)
        ctx.fail(klass, what, dict(spec=spec, actions=small))
    stats = dict(histories=checked, failing_classes=sorted(seen))
    if isinstance(ctx.oracle_stats, dict):
        ctx.oracle_stats.update(stats)
    else:
        ctx.oracle_stats = stats
    ctx.evaluations += checked


# ---------------------------------------------------------------------------------------------
# runtime smoke runs: no fakes, real Timers / sockets / HTTP server on loopback ephemeral ports.
# They check what the ledger cannot: that the joins of system_stop return and the threads are gone.

def run_real(sim, wait_first_packet=False):
    import socket
    import time
    failures = []
    before = set(threading.enumerate())
    t0 = time.time()
    s = None
    sink = conn = None
    try:
        if sim == 'totalpower':
            import simulators.totalpower as m
            sink = socket.socket()
            sink.bind(('127.0.0.1', 0))
            sink.listen(1)
            sink.settimeout(30)
            s = m.System()
            feed_real(s, 'X 1000 0 0 127.0.0.1 %d\n' % sink.getsockname()[1])
            conn, _ = sink.accept()
            feed_real(s, 'resume\n')
            if wait_first_packet:
                conn.settimeout(30)
                conn.recv(65536)
        elif sim == 'mscu':
            import simulators.mscu as m
            s = m.System()
            feed_real(s, '#setup:0=1\r\n')
            feed_real(s, '#setup:0=1\r\n')
            feed_real(s, '#setup:0=3\r\n')
        elif sim == 'minor_servos':
            import simulators.minor_servos as m
            saved = m.httpserver_address
            m.httpserver_address = ('127.0.0.1', 0)
            try:
                s = m.System(rest_api=True)
            finally:
                m.httpserver_address = saved
            feed_real(s, 'SETUP=Gregoriano1\r\n')
            feed_real(s, 'STOW=PFP,1\r\n')
            feed_real(s, 'STOW=GREGORIAN_CAP,2\r\n')
        else:
            raise ValueError(sim)
        result = {}

        def do_stop():
            try:
                result['reply'] = s.system_stop()
            except Exception as ex:
                result['error'] = type(ex).__name__
        th = threading.Thread(target=do_stop, daemon=True)
        th.start()
        th.join(60)
        if th.is_alive():
            # real time: cannot tell a hang from a loaded machine.  Hangs are decided by the virtual
            # runs (deterministically); here it is a note.
            raise TimeoutError('system_stop did not return within 60 s of real time')
        elif 'error' in result:
            failures.append(('stop_raises', 'system_stop raised %s (real threads)' % result['error']))
        elif result.get('reply') != ACK:
            failures.append(('stop_reply', 'system_stop returned %r' % (result.get('reply'),)))
        if not th.is_alive():
            alive = [t for t in threading.enumerate() if t not in before and t is not th and not t.daemon]
            # Only a timer that is still *armed* (neither cancelled nor fired) is evidence that does
            # not depend on scheduling.  A cancelled Timer's thread (setup cancels the previous one
            # without joining it) or a thread that is on its way out needs CPU time to exit: wait for
            # it; if that takes too long it is a note, not a verdict.
            armed = [t for t in alive if isinstance(t, threading.Timer) and not t.finished.is_set()]
            if armed:
                failures.append(('nondaemon_alive_after_stop',
                                 'non-daemon threads alive after system_stop (real threads): %d armed Timer(s)'
                                 % len(armed)))
            else:
                for t in alive:
                    t.join(60)
                    if t.is_alive():
                        raise TimeoutError('a %s thread that was cancelled / told to stop did not exit '
                                           'within 60 s of real time' % type(t).__name__)
            if sim == 'totalpower' and s.data_socket is not None and s.data_socket.fileno() != -1:
                failures.append(('socket_open_after_stop', 'data_socket still open after system_stop (real socket)'))
    finally:
        # leave nothing behind in the checking process
        try:
            if s is not None and hasattr(s, 'stop'):
                s.stop.value = True
            for t in threading.enumerate():
                if t not in before and hasattr(t, 'cancel'):
                    t.cancel()
            if sim == 'minor_servos' and s is not None and getattr(s, 'rest_api', False):
                threading.Thread(target=s.httpserver.shutdown, daemon=True).start()
                s.httpserver.server_close()
        except Exception:
            pass
        for x in (conn, sink):
            if x is not None:
                x.close()
    return [('%s_%s' % (sim, k), w) for k, w in failures]


def feed_real(system, text):
    for ch in text:
        try:
            system.parse(ch)
        except Exception:
            pass


def replay(ctx, obj):
    w = obj.get('witness') or {}
    if w.get('real'):
        return any(k == obj.get('klass') for k, _ in run_real(w['sim'], w.get('wait', False)))
    w = obj.get('witness') or {}
    if 'spec' not in w:
        return False
    r = run_history(w['spec'], w['actions'])
    return any(k == obj.get('klass') for k, _ in r['failures'])
