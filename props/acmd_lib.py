"""Harness library of agent `Acmd` (C14, c03_acu, c10_acu): drives the real ACU command path
(`simulators.acu.System.parse` -> `_parse_commands` -> subsystem handlers) deterministically.

Control points (no repo hooks):
  * `simulators.acu.Thread` is replaced by `SyncThread`: the status-update thread is never
    started; a command thread runs *synchronously* inside `parse` when it is started.
  * `simulators.acu.axis_status.time` is replaced by a frozen clock whose `sleep` raises
    `Parked`: a handler runs up to its first sleep with zero elapsed time and is then abandoned
    ("the thread is parked in its loop and has not been scheduled again").  What the handler did
    before that point is what the models call the *immediate acceptance effect*.
  * every outcome of a command thread is recorded: done / parked / died(<exception class>).
Nothing here sleeps, reads the wall clock or depends on thread timing.
"""
import contextlib
import struct
import types

START = b'\x1a\xcf\xfc\x1d'
END = b'\xd1\xcf\xfc\xa1'

# thread outcome codes (shared with Corr/AcmdCorr.v)
T_DONE, T_PARKED, T_DIED, T_SKIPPED = 0, 1, 2, 3
# per-byte outcome codes of System.parse
O_FALSE, O_TRUE, O_VALUEERROR, O_EXCEPTION, O_OTHER = 0, 1, 2, 3, 4


class Parked(BaseException):
    """raised by the patched time.sleep: the command thread would now sleep"""


def _park(_seconds=0):
    raise Parked()


class SyncThread:
    """stand-in for threading.Thread inside simulators.acu"""
    events = []        # (subsystem id, command id, command bytes, outcome code, exception class)
    skip_ps = True     # do not execute the pointing handlers that read the wall clock / scipy
    skip_all = False   # only intercept the handler arguments (C10 oracle)

    def __init__(self, group=None, target=None, name=None, args=(), kwargs=None, daemon=None):
        self.target = target
        self.args = args
        self.kwargs = kwargs or {}
        self.daemon = daemon

    def start(self):
        name = getattr(self.target, '__name__', repr(self.target))
        if name == '_update_loop':
            return
        owner = getattr(self.target, '__self__', None)
        oname = getattr(owner, 'name', None)
        sub = {'azimuth': 1, 'elevation': 2}.get(oname, 5 if type(owner).__name__ == 'PointingStatus' else -1)
        cid = {'_mode_command': 1, '_parameter_command': 2,
               '_program_track_parameter_command': 4}.get(name, -1)
        cmd = self.args[0].encode('latin-1') if self.args and isinstance(self.args[0], str) else b''
        if SyncThread.skip_all or sub == 5 and SyncThread.skip_ps and (
                cid == 4 or (cid == 2 and len(cmd) >= 10 and cmd[8] in (50, 51) and cmd[9] == 0)):
            SyncThread.events.append((sub, cid, cmd, T_SKIPPED, ''))
            return
        try:
            self.target(*self.args, **self.kwargs)
            SyncThread.events.append((sub, cid, cmd, T_DONE, ''))
        except Parked:
            SyncThread.events.append((sub, cid, cmd, T_PARKED, ''))
        except Exception as ex:   # the real thread would die here (traceback on stderr)
            SyncThread.events.append((sub, cid, cmd, T_DIED, type(ex).__name__))

    def join(self, timeout=None):
        return None

    def is_alive(self):
        return False


@contextlib.contextmanager
def patched():
    """patch the ACU modules for deterministic synchronous command execution"""
    import simulators.acu as A
    import simulators.acu.axis_status as AX
    saved = (A.Thread, AX.time)
    A.Thread = SyncThread
    AX.time = types.SimpleNamespace(time=lambda: 0.0, sleep=_park)
    SyncThread.events = []
    try:
        yield A
    finally:
        A.Thread, AX.time = saved


def new_system(A):
    s = A.System()
    SyncThread.events = []
    return s


def feed(system, data):
    """feed bytes one at a time; returns the list of per-byte outcome codes"""
    out = []
    for b in data:
        try:
            r = system.parse(chr(b))
            out.append(O_TRUE if r is True else O_FALSE if r is False else O_OTHER)
        except ValueError:
            out.append(O_VALUEERROR)
        except Exception:
            out.append(O_EXCEPTION)
    return out


def take_events():
    ev = SyncThread.events
    SyncThread.events = []
    return ev


# ---------------------------------------------------------------------------
# wire helpers (independent of acu_utils: these build arbitrary, also malformed, frames)

def u16(v):
    return struct.pack('<H', v & 0xFFFF)


def u32(v):
    return struct.pack('<I', v & 0xFFFFFFFF)


def f64(bits):
    return struct.pack('<Q', bits & (2 ** 64 - 1))


def bits_of(x):
    return struct.unpack('<Q', struct.pack('<d', x))[0]


def float_of(bits):
    return struct.unpack('<d', struct.pack('<Q', bits))[0]


def cmd26(cid, sub, counter, pid, b1, b2):
    """26-byte mode (cid 1) / parameter (cid 2) command, doubles given by their bit patterns"""
    return u16(cid) + u16(sub) + u32(counter) + u16(pid) + f64(b1) + f64(b2)


def cmd_pt(sub, counter, pid, interp, track, load, nseq, t0, raz, rel, entries, cid=4):
    """program track command; entries = [(rel_time int32, az bits, el bits)]"""
    body = b''.join(struct.pack('<i', t) + f64(a) + f64(e) for t, a, e in entries)
    return (u16(cid) + u16(sub) + u32(counter) + u16(pid) + u16(interp) + u16(track) + u16(load)
            + u16(nseq) + f64(t0) + f64(raz) + f64(rel) + body)


def frame(counter, cmds, count=None, length=None, start=START, end=END):
    body = b''.join(cmds)
    n = len(cmds) if count is None else count
    ln = 20 + len(body) if length is None else length
    return start + u32(ln) + u32(counter) + u32(n) + body + end


# ---------------------------------------------------------------------------
# observables

AXES = ('AZ', 'EL')


def b16(lst):
    """16 bools -> bit mask (bit i = element i)"""
    return sum(1 << i for i, v in enumerate(lst) if v)


def axis_snapshot(ax):
    """the fields C14 names, as a flat list of ints (order shared with Corr/AcmdCorr.v `mk_obs`)"""
    cmc = ax.curr_mode_counter
    return [
        ax.axis_state, ax.axis_trajectory_state, ax.p_Soll, ax.p_Ist, ax.v_Soll, ax.v_Ist,
        ax.p_Offset, b16(ax.brakes_open), int(ax.stowed), int(ax.stowPosOk),
        b16(ax.stow_pin_in), b16(ax.stow_pin_out), int(ax.Stowpins_Extracted),
        -1 if cmc is None else cmc, int(ax.program_track_active),
        ax.received_mode_command_counter, ax.received_mode_command,
        ax.received_mode_command_answer,
        ax.executed_mode_command_counter, ax.executed_mode_command,
        ax.executed_mode_command_answer,
        ax.parameter_command_counter, ax.parameter_command, ax.parameter_command_answer,
    ]


SNAP_FIELDS = ['axis_state', 'traj', 'p_Soll', 'p_Ist', 'v_Soll', 'v_Ist', 'p_Offset', 'brakes',
               'stowed', 'stowPosOk', 'pin_in', 'pin_out', 'pins_extracted', 'curr_mode_counter',
               'pt_active', 'rx_counter', 'rx_mode', 'rx_answer', 'ex_counter', 'ex_mode',
               'ex_answer', 'par_counter', 'par_id', 'par_answer']
# indices of the motion / brake / stow / offset fields (everything a refused command must not touch)
MOTION_IDX = list(range(0, 15))


def ps_snapshot(ps):
    return [ps.parameter_command_counter, ps.parameter_command, ps.parameter_command_answer,
            ps.actPtTimeOffset]


def poke(system, which, field, value):
    """the harness writes one attribute through the class's own setter
    (which: 0 AZ | 1 EL; field: 0 axis_state | 1 p_Ist | 2 p_Offset)"""
    ax = system.AZ if which == 0 else system.EL
    if field == 0:
        ax.axis_state = value
    elif field == 1:
        ax.p_Ist = value
    else:
        ax.p_Offset = value


def tick(system):
    system.AZ.update_status()
    system.EL.update_status()


# ---------------------------------------------------------------------------
# histories: ('feed', bytes) | ('poke', which, field, value) | ('tick',)

def run_history(A, ops):
    """execute a history on a fresh System; returns the list of observation records"""
    s = new_system(A)
    rec = []
    for op in ops:
        if op[0] == 'feed':
            outs = feed(s, op[1])
            ev = take_events()
            rec.append(dict(op='feed', bs=bytes(op[1]), outs=outs, threads=ev,
                            az=axis_snapshot(s.AZ), el=axis_snapshot(s.EL), ps=ps_snapshot(s.PS),
                            buflen=len(s.msg), cnt=-1 if s.cmd_counter is None else s.cmd_counter))
        elif op[0] == 'poke':
            poke(s, op[1], op[2], op[3])
            rec.append(dict(op='poke', which=op[1], field=op[2], value=op[3],
                            az=axis_snapshot(s.AZ), el=axis_snapshot(s.EL)))
        else:
            tick(s)
            rec.append(dict(op='tick', az=axis_snapshot(s.AZ), el=axis_snapshot(s.EL)))
    return rec


def coq_case(rec):
    """observation records -> Coq term of type AcmdCorr.acase"""
    from vlib.core import zlit, zlist
    terms = []
    for r in rec:
        if r['op'] == 'feed':
            th = '[' + '; '.join('(%s, %s, %s, %d)' % (zlit(a), zlit(b), zlist(c), d)
                                 for a, b, c, d, _ in r['threads']) + ']'
            terms.append('OpFeed %s %s %s %s %s %s %d %s'
                         % (zlist(r['bs']), zlist(r['outs']), th, zlist(r['az']), zlist(r['el']),
                            zlist(r['ps']), r['buflen'], zlit(r['cnt'])))
        elif r['op'] == 'poke':
            terms.append('OpPoke %d %d %s %s %s' % (r['which'], r['field'], zlit(r['value']),
                                                    zlist(r['az']), zlist(r['el'])))
        else:
            terms.append('OpTick %s %s' % (zlist(r['az']), zlist(r['el'])))
    return '[' + ';\n  '.join(terms) + ']'
