"""C13 — each actuator command has the effect and reply of the USD protocol: correspondence of the
code-faithful model (Model/UsdModel.v) AND of the protocol specification (Spec/UsdSpec.v) with the
real USD objects / unicast handlers, and a property-level oracle (the protocol rules transcribed
to Python, with one failure class per rule)."""
import copy

from props import usd_common as UC
from props.c12 import make_histories, line_correspondence

META = dict(
    id='C13',
    title='Each actuator command has exactly the effect and reply the USD protocol defines',
    design_ref='DESIGN.md section 7, C13',
    coq_target='Properties/C13.vo',
    coq_extra=['Corr/UsdCorr.vo'],
    technique='Coq proof (refinement: code-faithful string-level model = independent arithmetic '
              'protocol specification, per command by finite sweeps and case analysis, lifted to all '
              'histories by an invariant) + in-Coq differential correspondence of both with the real '
              'USD objects and handlers',
    level_text='For every history of commands (every code, every parameter byte string, every start '
               'byte) and time steps the replies and the complete state of the code-faithful model '
               'equal those of the protocol specification (C13_refines); status-byte faithfulness, '
               'delayed-execution enable bit, one release per trigger, reset, parameter-count and '
               'unknown-code handling, absence of blocking/internal errors are corollaries. Model and '
               'specification are both compared with the real classes (reply and full attribute '
               'snapshot after every event) on seeded histories on every run.',
    level_note='Trusted: Coq kernel + vm_compute; the harness (virtual clock, thread-less System, '
               'handlers called with [0, byte_start, params]); the specification Spec/UsdSpec.v as the '
               'reading of the protocol (its choices where the text is silent are listed in its header). '
               'Frame reassembly, checksum check, address resolution, broadcast and the response delay '
               'of System.parse/_parse belong to C11 and are not modelled here.',
    partial=None,
    rule='one case = one history (5..60 events) on a fresh USD; non-trivial = distinct history with '
         'at least one acknowledged state-changing command',
    trusted=['props/usd_common.py (virtual clock, NBQueue, snapshot)', 'coq/Spec/UsdSpec.v'],
    assumptions=['fixes/07-usd-delayed-execution-bit.diff, fixes/31-usd-trigger-blocks-on-emptied-queue.diff '
                 'and fixes/32-usd-queued-relative-position-counted-twice.diff applied (each reverse '
                 'patch is caught with its own class)',
                 'elapsed times on the 1/1024 s grid; the standby-delay comparison is exact there'],
)


def correspondence(ctx):
    with UC.implementation() as impl:
        cases = make_histories(ctx, impl, ctx.n(200, 3000), ['config', 'delayed', 'garbage', 'motion'],
                               tag='c13')
    terms = [UC.coq_case(*c) for c in cases]
    for t in terms[:2]:
        ctx.sample(t[:600])
    bad = ctx.run_cases('usd_protocol', 'From DS Require Import Model.UsdModel Spec.UsdSpec Corr.UsdCorr.',
                        'usd_case', '(fun c => ok c && ok_spec c)', terms, show='show_spec',
                        shard=ctx.n(10, 40))
    line_correspondence(ctx, 'usd_line_protocol', ctx.n(40, 600))
    # the specification evaluated on the case is the oracle of a refinement property: a mismatching
    # history is a concrete input on which implementation and protocol differ.  It is reported after
    # the rule-by-rule oracle (whose failures are localised) has had its turn.
    ctx.c13_mismatch = [cases[i] for i in bad[:1]]


# ---------------------------------------------------------------------------
# the protocol rules in Python (on snapshot dictionaries)

def bit(b, i):
    return (b >> i) & 1


def frame(start, idx, payload):
    r = [6, start] + ([len(payload) * 32 + idx] if start == 0xFC else []) + list(payload)
    return r + [255 - sum(r) % 256]


def signed(bs):
    return int.from_bytes(bytes(bs), 'big', signed=True)


def status_bytes(s):
    d, v = s['io_dir'], s['io_val']
    res = {1: 0, 2: 1, 4: 2, 8: 3, 16: 4, 32: 5, 64: 6, 128: 7}[s['resolution']]
    return [0, d[2] * 64 + d[1] * 32 + d[0] * 16 + v[2] * 4 + v[1] * 2 + v[0],
            s['running'] * 128 + s['delayed_execution'] * 64 + s['ready'] * 32 + s['full_current'] * 16
            + s['auto_resolution'] * 8 + res]


def defaults(idx, last_movement):
    z = (0, 0, 0)
    return dict(usd_index=idx, reference_position=0, current_position=0, position_queue=[],
                delay_multiplier=5, standby_delay_multiplier=0, standby_mode=0, current_percentage=4,
                version=[1, 3], driver_type=0x20, slope_delayer=1, min_frequency=20, max_frequency=10000,
                io_dir=(0, 1, 0), io_val=z, trigger_io_level=z, trigger_io_enable=z, stop_io_level=z,
                stop_io_enable=z, pos_io_level=z, pos_io_enable=z, home_io_level=z, home_io_enable=z,
                running=False, delayed_execution=False, ready=False, full_current=True,
                auto_resolution=False, resolution=2, velocity=0, baud_rate=9600, cmd_position=None,
                standby=False, last_movement=last_movement)


def levels(b):
    return (bit(b, 0) * bit(b, 3), bit(b, 1) * bit(b, 4), bit(b, 2) * bit(b, 5))


def enables(b):
    return (bit(b, 0), bit(b, 1), bit(b, 2))


def protocol(s, code, start, params):
    """(rule name, expected outcome, expected state) of one unicast command in state s, including the
    rule that a unit whose response-delay multiplier is 255 (after the command) does not answer"""
    rule, o, s2 = protocol_handler(s, code, start, params)
    if o[0] == 'R' and s2['delay_multiplier'] == 255:
        o = ('S',)
    return rule, o, s2


def protocol_handler(s, code, start, params):
    s = copy.deepcopy(s)
    ack, nak = ('R', UC.ACK), ('R', UC.NAK)
    if code not in UC.NPARAMS:
        return 'unknown_code', ('V',), s
    if len(params) != UC.NPARAMS[code]:
        return 'param_count', nak, s
    idx = s['usd_index']
    if code == 0x01:
        return 'reset_defaults', ack, defaults(idx, s['last_movement'])
    if code == 0x02:
        if s['position_queue']:
            p, absolute = s['position_queue'].pop(0)
            s['ready'] = bool(s['position_queue'])
            if not s['velocity']:
                s['cmd_position'] = p if absolute else s['current_position'] + p
        return 'trigger_release', ack, s
    if code == 0x10:
        return 'query_version', ('R', frame(start, idx, [19])), s
    if code == 0x11:
        s['velocity'] = None
        s['cmd_position'] = None
        return 'stop', ack, s
    if code == 0x12:
        return 'query_position', ('R', frame(start, idx, UC.be_signed(s['current_position'], 4))), s
    if code == 0x13:
        return 'status_bits', ('R', frame(start, idx, status_bytes(s))), s
    if code == 0x14:
        return 'query_driver_type', ('R', frame(start, idx, [0x20])), s
    if code == 0x20:
        f = signed(params)
        if 20 <= f <= 10000 and f <= s['max_frequency']:
            s['min_frequency'] = f
            return 'frequency_range', ack, s
        return 'frequency_range', nak, s
    if code == 0x21:
        f = signed(params)
        if 20 <= f <= 10000 and s['min_frequency'] <= f:
            s['max_frequency'] = f
            return 'frequency_range', ack, s
        return 'frequency_range', nak, s
    if code == 0x22:
        s['slope_delayer'] = params[0] + 1
        return 'slope_delayer', ack, s
    if code == 0x23:
        s['reference_position'] = signed(params)
        return 'reference_position', ack, s
    b = params[0]
    if code == 0x25:
        s['io_dir'] = (bit(b, 4), bit(b, 5), bit(b, 6))
        s['io_val'] = (bit(b, 4) * bit(b, 0), bit(b, 5) * bit(b, 1), bit(b, 6) * bit(b, 2))
        return 'io_bits', ack, s
    if code == 0x26:
        s['auto_resolution'] = b >= 8
        s['resolution'] = 1 if b >= 8 else 2 ** b
        return 'resolution_bits', ack, s
    if code == 0x27:
        s['standby_mode'] = (0, 0, 1, 2)[b >> 6]
        s['standby_delay_multiplier'] = b & 63
        return 'current_reduction_bits', ack, s
    if code == 0x28:
        s['delay_multiplier'] = b
        return 'response_delay', ack, s
    if code == 0x29:
        s['delayed_execution'] = bool(bit(b, 7))
        s['trigger_io_enable'], s['trigger_io_level'] = enables(b), levels(b)
        s['position_queue'] = []
        s['ready'] = False
        return 'delayed_bit', ack, s
    if code in (0x2A, 0x2B, 0x2C):
        name = {0x2A: 'stop_io', 0x2B: 'pos_io', 0x2C: 'home_io'}[code]
        s[name + '_enable'], s[name + '_level'] = enables(b), levels(b)
        return 'io_bits', ack, s
    if code == 0x2D:
        s['baud_rate'] = 19200 if bit(b, 0) else 9600
        return 'working_mode', ack, s
    if code in (0x30, 0x31):
        p = signed(params)
        if s['delayed_execution']:
            s['position_queue'].append((s['reference_position'] + p, True) if code == 0x30 else (p, False))
            s['ready'] = True
            return 'enqueue', ack, s
        if s['running']:
            return 'busy', nak, s
        s['cmd_position'] = (s['reference_position'] if code == 0x30 else s['current_position']) + p
        return 'positioning', ack, s
    if code == 0x32:
        if s['running']:
            return 'busy', nak, s
        direction = 0 if b == 0 else (1 if b < 128 else -1)
        s['cmd_position'] = direction * (UC.MAXP + 1)
        return 'rotate', ack, s
    if code == 0x35:
        v = signed(params)
        if v < -100000 or v > 100000 or (not s['auto_resolution'] and abs(v) < 10 and v != 0):
            return 'velocity_range', nak, s
        s['velocity'] = v if v else None
        s['cmd_position'] = None
        return 'velocity_range', ack, s
    raise AssertionError(code)


def protocol_tick(s, k, now):
    """(rule name, expected state) of one iteration of the positioning loop after k/1024 s; now is
    the clock (1/1024 s) at that iteration"""
    s = copy.deepcopy(s)
    rule = 'time_step'

    def lim(p):
        return max(UC.MINP, min(UC.MAXP, p))

    def energise():
        s['current_percentage'], s['full_current'], s['standby'], s['last_movement'] = 4, True, False, now

    pos = s['current_position']
    if s['velocity']:
        d = UC.rounded_displacement(abs(s['velocity']), s['resolution'], k)
        energise()
        s['running'] = True
        s['current_position'] = lim(pos + (1 if s['velocity'] > 0 else -1) * d)
    elif s['cmd_position'] is not None:
        tgt = s['cmd_position']
        d = UC.rounded_displacement(s['max_frequency'], s['resolution'], k)
        energise()
        if UC.MINP <= tgt <= UC.MAXP and abs(tgt - pos) <= d:
            s['current_position'], s['cmd_position'], s['running'] = tgt, None, False
        else:
            s['current_position'] = lim(pos + ((tgt > pos) - (tgt < pos)) * d)
            s['running'] = True
    else:
        s['running'] = False
    if not s['running'] and not s['standby'] and s['last_movement']:
        # still for standby_delay_multiplier x 4096 us -> current reduced to (1 - reduction)
        if (now - s['last_movement']) * 1000000 >= s['standby_delay_multiplier'] * 4096 * 1024:
            rule = 'current_reduction'
            s['current_percentage'] = 4 - s['standby_mode']
            s['full_current'] = s['standby_mode'] == 0
            s['last_movement'] = None
            s['standby'] = True
    return rule, s


class ProtocolOracle:
    def __init__(self):
        self.failures = []
        self.checked = 0
        self.relative_pending = False

    def on_step(self, unit, e, o, before, after):
        self.checked += 1
        if o is not None and o[0] == 'H':
            self.failures.append(('state_outside_protocol', 'after %r the unit holds a value outside the protocol\'s '
                                  'state space: %s' % (list(e), o[1]), dict(step_event=list(e))))
            return
        if e[0] != 'cmd':
            if o is not None and o[0] == 'E':
                self.failures.append(('internal_error', 'time step %d: %s' % (e[1], o[1]), dict(step_event=list(e))))
                return
            rule, exp_s = protocol_tick(before, e[1], unit.clk.ticks)
            if after != exp_s:
                diff = sorted(k for k in after if after[k] != exp_s.get(k))
                if set(diff) <= {'current_percentage', 'full_current', 'standby', 'last_movement'}:
                    rule = 'current_reduction'
                self.failures.append((rule, 'time step %d: differing attributes %r' % (e[1], diff),
                                      dict(step_event=list(e))))
            return
        rule, exp_o, exp_s = protocol(before, e[1], e[2], e[3])
        if o == exp_o and after == exp_s:
            return
        if o is not None and o[0] == 'B':
            klass = 'trigger_blocks'
        elif o is not None and o[0] == 'E':
            klass = 'internal_error'
        elif after == exp_s and ('S',) in (o, exp_o):
            klass = 'response_delay_silent'
        elif rule == 'trigger_release' and before['position_queue'] and not before['position_queue'][0][1]:
            klass = 'relative_queued'
        elif rule == 'enqueue' and e[1] == 0x31:
            klass = 'relative_queued'
        else:
            klass = rule
        diff = sorted(k for k in after if after[k] != exp_s.get(k))
        self.failures.append((klass, 'command %#x %r: reply %r (protocol %r), differing attributes %r'
                              % (e[1], e[3], o, exp_o, diff), dict(step_event=list(e))))


def check_events(impl, idx, clock0, events):
    orc = ProtocolOracle()
    unit = UC.Unit(impl, idx, clock0)
    before = unit.snapshot()
    for e in events:
        e = (e[0],) + tuple(e[1:])
        o = UC.apply_event(unit, e)
        try:
            after = unit.snapshot()
        except UC.HarnessError as ex:
            orc.on_step(unit, e, ('H', str(ex)), before, before)
            break
        orc.on_step(unit, e, o, before, after)
        before = after
        if o is not None and o[0] in ('B', 'E'):
            break
    return orc


# recorded witnesses of the repaired defects (run first), then scripted interactions
CORPUS = [
    # queue, trigger, enqueue again while moving, relative release, switch off
    (2, 4096, [('cmd', 0x29, 0xFC, [0x80]), ('cmd', 0x30, 0xFC, [0, 15, 66, 64]), ('cmd', 0x02, 0xFC, []),
               ('tick', 1), ('cmd', 0x30, 0xFA, [0, 0, 0, 7]), ('cmd', 0x31, 0xFA, [255, 255, 255, 0]),
               ('cmd', 0x13, 0xFC, []), ('tick', 3000), ('cmd', 0x02, 0xFA, []), ('tick', 3000),
               ('cmd', 0x02, 0xFA, []), ('tick', 10), ('cmd', 0x13, 0xFA, []), ('cmd', 0x29, 0xFC, [0x00]),
               ('cmd', 0x30, 0xFC, [0, 0, 0, 9]), ('tick', 1), ('cmd', 0x12, 0xFC, [])]),
    # response delay 255: executed but not answered; un-muting is answered
    (5, 4096, [('cmd', 0x28, 0xFC, [255]), ('cmd', 0x13, 0xFC, []), ('cmd', 0x22, 0xFA, [9]),
               ('cmd', 0x28, 0xFC, [7]), ('cmd', 0x13, 0xFC, []), ('cmd', 0x28, 0xFA, [255]),
               ('cmd', 0x01, 0xFC, []), ('cmd', 0x13, 0xFC, [])]),
    # velocity, stop, positioning, reset while moving
    (9, 4096, [('cmd', 0x35, 0xFC, [0, 3, 232]), ('tick', 5), ('cmd', 0x30, 0xFC, [0, 0, 0, 1]),
               ('cmd', 0x11, 0xFC, []), ('tick', 5), ('cmd', 0x31, 0xFC, [255, 255, 0, 0]), ('tick', 5),
               ('cmd', 0x01, 0xFA, []), ('tick', 5), ('cmd', 0x13, 0xFC, [])]),
    # fixes/07: delayed execution cannot be switched off
    (1, 1024, [('cmd', 0x29, 0xFC, [0x80]), ('cmd', 0x29, 0xFC, [0x00]), ('cmd', 0x13, 0xFC, [])]),
    # fixes/31: TRIGGER after the queue was flushed blocks for ever
    (1, 1024, [('cmd', 0x29, 0xFC, [0x80]), ('cmd', 0x30, 0xFC, [0, 0, 0, 5]), ('cmd', 0x29, 0xFC, [0x80]),
               ('cmd', 0x02, 0xFC, [])]),
    # fixes/32: a queued relative position counts the current position twice
    (1, 1024, [('cmd', 0x30, 0xFC, [0, 0, 3, 232]), ('tick', 100), ('tick', 100), ('cmd', 0x29, 0xFC, [0x80]),
               ('cmd', 0x31, 0xFC, [0, 0, 0, 10]), ('cmd', 0x02, 0xFC, []), ('tick', 100), ('tick', 1)]),
]


def oracle(ctx):
    rng = ctx.rng
    checked = 0
    reported = set()

    def sink(orc, idx, clock0, events):
        nonlocal checked
        checked += orc.checked
        for klass, what, kw in orc.failures:
            if klass in reported:
                continue
            reported.add(klass)
            ctx.fail(klass, what, dict(idx=idx, clock0=clock0, events=[list(e) for e in events], **kw))

    with UC.implementation() as impl:
        for idx, c0, ev in CORPUS:
            sink(check_events(impl, idx, c0, ev), idx, c0, ev)
        # every parameter byte of every one-byte command, in a few states
        for code in [c for c in UC.CODES if UC.NPARAMS[c] == 1]:
            for b in range(256):
                pre = [[], [('cmd', 0x29, 0xFC, [0x80]), ('cmd', 0x30, 0xFA, [0, 0, 1, 0])],
                       [('cmd', c, 0xFA, [0x7F]) for c in (0x25, 0x29, 0x2A, 0x2B, 0x2C, 0x27)]
                       + [('cmd', 0x26, 0xFA, [5])]][b % 3]
                ev = pre + [('cmd', code, rng.choice([0xFA, 0xFC]), [b]), ('cmd', 0x13, 0xFC, [])]
                sink(check_events(impl, 1 + b % 31, 4096, ev), 1 + b % 31, 4096, ev)
        for _ in range(ctx.n(500, 10000)):
            orc = ProtocolOracle()
            idx, c0, ev, obs = UC.run_history(impl, rng, rng.choice(['config', 'delayed', 'delayed', 'garbage',
                                                                    'motion']),
                                              rng.randrange(5, 80), orc.on_step)
            sink(orc, idx, c0, ev)
    for idx, c0, ev, obs in getattr(ctx, 'c13_mismatch', []):
        ctx.fail('spec_mismatch', 'implementation differs from Spec/UsdSpec.v on this history',
                 dict(idx=idx, clock0=c0, events=[list(e) for e in ev],
                      observed=[[o, s] for o, s in obs]))
    ctx.oracle_stats = dict(commands_checked=checked)
    ctx.evaluations += checked


def replay(ctx, obj):
    w = obj['witness']
    events = [tuple(e) for e in w['events']]
    with UC.implementation() as impl:
        if obj.get('klass') == 'spec_mismatch':
            # still failing = the implementation still shows the recorded (non-protocol) behaviour
            unit, out = UC.replay_events(impl, w['idx'], w['clock0'], events)
            norm = [[None if o is None else list(o), s] for o, s in out]
            rec = [[None if o is None else list(o), s] for o, s in w['observed']]
            import json
            return json.loads(json.dumps(norm)) == json.loads(json.dumps(rec))
        orc = check_events(impl, w['idx'], w['clock0'], events)
    return any(k == obj.get('klass') for k, _, _ in orc.failures)
