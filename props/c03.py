"""C03 — aggregator: the per-simulator parts live in props/parts/c03_*.py (see FRAMEWORK.md)."""

META = dict(
    id='C03',
    title='Command framers return to idle after any input and never wait forever',
    design_ref='DESIGN.md section 7, C03',
    technique='Coq proof (framing automaton theorems per modelled simulator) + in-Coq differential correspondence per simulator part',
    level_text='per-framer Coq theorems (resynchronisation to the idle state after the protocol condition, idle discards non-headers, impossible lengths rejected at once) over Gallina models of every modelled parser, tied to the code by in-Coq differential correspondence on random/truncated/corrupted streams' + '. Partial in breadth: the evidence file lists the simulator parts covered on each run; '
               'simulators without a part are not covered.',
    level_note='Trusted: Coq kernel + vm_compute; the hand-written models as validated by the correspondence '
               'suites; CPython builtins mirrored by the models (see DESIGN.md section 8).',
    partial='breadth: only the simulators that have a ready part (see coverage.parts)',
    rule='one case = one byte history / request sequence on one simulator instance; non-trivial = distinct '
         'history that reaches an executed command, a refused command or a framing error',
)
