"""C09 — utils codecs: correspondence of Model/Utils.v, Model/UtilsFloat.v with
simulators/utils.py, and the property-level oracle (round trips on the implementation)."""
import math
import struct
from datetime import datetime, timedelta

from vlib.core import zlit, zlist, blist, blit, natlit, optlit

META = dict(
    id='C09',
    title='Byte/bit/number codecs in utils are exact inverses and never wrap silently',
    design_ref='DESIGN.md section 7, C09',
    coq_target='Properties/C09.vo',
    coq_extra=['Corr/UtilsCorr.vo', 'Corr/UtilsMjdCorr.vo'],
    technique='Coq proof (round-trip theorems for all widths/values over a Gallina model of '
              'utils.py; Flocq for binary64) + in-Coq differential correspondence with utils.py',
    level_text='Round-trip, refusal and checksum theorems proved in Coq for every value, width >= 1 '
               'and endianness over an executable model of the utils codecs that mirrors the '
               'string manipulations of the code; binary64 via Flocq bit layout; binary32 via an integer model '
               'of the C casts (round trip proved for every non-signalling 32-bit pattern, signalling NaNs '
               'refuted = recorded finding, overflow refusal proved); MJD calendar part by a kernel sweep of '
               'all 109573 days 1900..2199 on primitive floats; str-based variants proved equal to the bytes-based ones on '
               'latin-1 strings and refusing wider code points; signed/unsigned/twos/bit-string readings of the same '
               'bytes proved consistent; day_microseconds/day_milliseconds modelled. The models are compared with the real '
               'functions (exhaustive 1-byte domains, boundary values, seeded random inputs, bit-exact floats) '
               'on every run. Partial: the sub-day (microsecond) MJD bound is proved over the reals under four named '
               'premises about binary64 rounding and repr/float (C09_mjd_microsecond_bound_partial); the premises '
               'themselves are checked only through the bit-exact float model and the oracle.',
    level_note='Trusted: Coq kernel + vm_compute incl. primitive floats/ints (PrimFloat, Uint63) for the MJD '
               'sweep; Flocq (binary64 bit layout; pulls the stdlib real-number/classical axioms listed by '
               'Print Assumptions); CPython int/bytes/struct/datetime semantics as mirrored by the models and '
               'checked by correspondence; repr()/float() text conversion in mjd_to_date is an input (oracle).',
    partial='MJD fractional-day bound: real-number theorem under named IEEE/repr premises; premises not proved',
    rule='one case = one call of a utils function; non-trivial = distinct (function, arguments) '
         'whose result is not an error',
    trusted=['Flocq 4 IEEE754.Bits (binary64 layout)', 'Coq primitive floats and 63-bit integers (MJD sweep)'],
    assumptions=['math.pow(2, k) is exact for k <= 1023 (width bound of the range checks)',
                 'latin-1 encode/decode is the identity on code points 0..255'],
)


def call(f, *a):
    try:
        return f(*a)
    except Exception:   # ValueError / OverflowError / struct.error: a refusal
        return None


def bits_of(s):
    return s


def gen_cases(ctx):
    from simulators import utils as U
    rng = ctx.rng
    cases = []

    def add(kind, term, key, nontrivial=True):
        cases.append(term)
        ctx.count(kind)
        if nontrivial:
            ctx.nontriv((kind, key))

    def rbytes(n):
        return bytes(rng.randrange(256) for _ in range(n))

    def rbits(n):
        return ''.join(rng.choice('01') for _ in range(n))

    N = ctx.n(1, 12)
    # checksum: every single byte, then random messages (str input, code points 0..255)
    msgs = [chr(b) for b in range(256)] + ['']
    for _ in range(150 * N):
        msgs.append(''.join(chr(rng.randrange(256)) for _ in range(rng.choice([1, 2, 3, 7, 11, 40, 300]))))
    msgs += ['\xff' * k for k in (1, 2, 255, 256, 257, 1000)]
    for m in msgs:
        out = ord(U.checksum(m))
        add('checksum', 'CChecksum %s %s' % (zlist([ord(c) for c in m]), zlit(out)), m)
    # binary_complement
    for _ in range(60 * N):
        s = rbits(rng.randrange(0, 20))
        mask = rbits(rng.randrange(0, 24)) if rng.random() < 0.7 else ''
        out = U.binary_complement(s, mask)
        add('binary_complement', 'CBinCompl %s %s %s' % (blist(s), blist(mask), blist(out)), (s, mask))
    # twos_to_int / int_to_twos
    strs = [''] + [format(v, '08b') for v in range(256)] + ['1', '0', '111', '0111']
    for _ in range(120 * N):
        strs.append(rbits(rng.choice([1, 3, 8, 16, 24, 32, 33, 64, 72])))
    for s in strs:
        out = call(U.twos_to_int, s)
        add('twos_to_int', 'CTwosToInt %s %s' % (blist(s), optlit(out)), s, out is not None)
    vals = []
    for n in (1, 2, 3, 4, 8):
        lim = 1 << (8 * n - 1)
        vals += [(v, n) for v in (-lim - 1, -lim, -lim + 1, -1, 0, 1, lim - 1, lim, lim + 1)]
        vals += [(rng.randrange(-lim - 5, lim + 5), n) for _ in range(30 * N)]
    vals += [(v, 1) for v in range(-130, 130)]
    for v, n in vals:
        out = call(U.int_to_twos, v, n)
        add('int_to_twos', 'CIntToTwos %s %s %s' % (zlit(v), natlit(n), optlit(out, blist)), (v, n),
            out is not None)
    # binary_to_bytes / bytes_to_binary
    for _ in range(100 * N):
        s = rbits(rng.choice([0, 8, 16, 24, 32, 64, 5, 13, 17]))
        le = rng.random() < 0.5
        out = U.binary_to_bytes(s, le)
        add('binary_to_bytes', 'CBinToBytes %s %s %s' % (blist(s), blit(le), zlist(out)), (s, le))
    blobs = [bytes([b]) for b in range(256)] + [b'']
    for _ in range(150 * N):
        blobs.append(rbytes(rng.choice([1, 2, 3, 4, 5, 8])))
    for n in range(1, 9):
        for u in (0, 1, 256 ** n - 1, 256 ** n // 2, 256 ** n // 2 - 1, 256 ** n // 2 + 1):
            blobs.append(u.to_bytes(n, 'big'))
    if not ctx.quick():
        blobs += [bytes([a, b]) for a in range(256) for b in range(0, 256)]
    for b in blobs:
        for le in (True, False):
            add('bytes_to_binary', 'CBytesToBin %s %s %s'
                % (zlist(b), blit(le), blist(U.bytes_to_binary(b, le))), (b, le))
            add('bytes_to_int', 'CBytesToInt %s %s %s' % (zlist(b), blit(le), zlit(U.bytes_to_int(b, le))),
                (b, le))
            out = call(U.bytes_to_uint, b, le)
            add('bytes_to_uint', 'CBytesToUint %s %s %s' % (zlist(b), blit(le), optlit(out)), (b, le),
                out is not None)
    # int_to_bytes / uint_to_bytes
    ivals = []
    for n in range(0, 9):
        lim = 1 << (8 * n - 1) if n else 0
        for v in (-lim - 1, -lim, -lim + 1, -1, 0, 1, lim - 1, lim, lim + 1, 2 * lim - 1, 2 * lim, 2 * lim + 1):
            ivals.append((v, n))
        for _ in range(12 * N):
            ivals.append((rng.randrange(-2 * lim - 3, 2 * lim + 3), n))
    ivals += [(v, 1) for v in range(-130, 260)]
    if not ctx.quick():
        ivals += [(v, 2) for v in range(-32770, 65538, 7)]
    for v, n in ivals:
        for le in (True, False):
            out = call(U.int_to_bytes, v, n, le)
            add('int_to_bytes', 'CIntToBytes %s %s %s %s' % (zlit(v), natlit(n), blit(le), optlit(out, zlist)),
                (v, n, le), out is not None)
            out = call(U.uint_to_bytes, v, n, le)
            add('uint_to_bytes', 'CUintToBytes %s %s %s %s' % (zlit(v), natlit(n), blit(le), optlit(out, zlist)),
                (v, n, le), out is not None)
    for z in [0, 1, -1, 5632, -264, 10 ** 30, -10 ** 30] + [rng.randrange(-1000, 1000) for _ in range(20)]:
        add('sign', 'CSign %s %s' % (zlit(z), zlit(U.sign(z))), z)
    # doubles: special values, boundaries, random bit patterns
    pats = [0, 1 << 63, 0x7FF0000000000000, 0xFFF0000000000000, 0x7FF8000000000000, 0x7FF0000000000001,
            0xFFF8000000000001, 0x7FFFFFFFFFFFFFFF, 1, 0x000FFFFFFFFFFFFF, 0x0010000000000000,
            0x7FEFFFFFFFFFFFFF, 0x3FF0000000000000, 0x4083594EB8540BA7F7 & (2 ** 64 - 1)]
    pats += [rng.getrandbits(64) for _ in range(120 * N)]
    pats += [struct.unpack('>Q', struct.pack('>d', rng.uniform(-1e6, 1e6)))[0] for _ in range(60 * N)]
    for p in pats:
        x = struct.unpack('>d', struct.pack('>Q', p))[0]
        for le in (True, False):
            out = U.real_to_bytes(x, 2, le)
            add('real_to_bytes64', 'CRealToBytes64 %s %s %s' % (zlit(p), blit(le), zlist(out)), (p, le))
            outs = U.real_to_string(x, 2, le)
            assert [ord(c) for c in outs] == list(out)
        add('real_to_binary64', 'CRealToBinary64 %s %s' % (zlit(p), blist(U.real_to_binary(x, 2))), p)
    fl = [struct.pack('>Q', p) for p in pats] + [rbytes(k) for k in (0, 1, 4, 7, 9)]
    for b in fl:
        for le in (True, False):
            x = call(U.bytes_to_real, b, 2, le)
            out = None if x is None else struct.unpack('>Q', struct.pack('>d', x))[0]
            add('bytes_to_real64', 'CBytesToReal64 %s %s %s' % (zlist(b), blit(le), optlit(out)), (b, le),
                out is not None)
    # singles: doubles near every rounding/overflow/subnormal boundary of binary32, special values, random
    def d2b(x):
        return struct.unpack('>Q', struct.pack('>d', x))[0]

    def b2d(p):
        return struct.unpack('>d', struct.pack('>Q', p))[0]
    p64 = list(pats)
    f32max = 3.4028234663852886e38
    for x in (f32max, 3.4028235677973366e38, 3.402823567797336e38, 3.4028235677973362e38, 3.5e38, 1e39,
              2.0 ** -126, 2.0 ** -127, 2.0 ** -149, 2.0 ** -150, 2.0 ** -151, 1.5 * 2.0 ** -150,
              2.0 ** -126 - 2.0 ** -150, 2.0 ** -126 - 2.0 ** -151, 1.0 + 2.0 ** -24, 1.0 + 2.0 ** -23,
              1.0 + 2.0 ** -24 + 2.0 ** -40, 1.0 + 3 * 2.0 ** -24, 2.0 - 2.0 ** -24, 2.0 - 2.0 ** -25, 0.1, 436.56,
              619.34000405413, 1e-45, 7e-46, 1.4e-45):
        for sgn in (1.0, -1.0):
            p = d2b(sgn * x)
            p64 += [p, p + 1, p - 1]
    for _ in range(150 * N):
        # random float32 widened, then perturbed in the low 29 bits (exercise the rounding)
        q = d2b(struct.unpack('>f', struct.pack('>I', rng.getrandbits(32)))[0])
        p64 += [q, q ^ rng.getrandbits(29), q | (1 << 28), (q | (1 << 28)) + rng.choice([0, 1]), q ^ (1 << 29)]
    for p in p64:
        x = b2d(p)
        le = rng.random() < 0.5
        out = call(U.real_to_bytes, x, 1, le)
        add('real_to_bytes32', 'CRealToBytes32 %s %s %s' % (zlit(p), blit(le), optlit(out, zlist)), (p, le),
            out is not None)
    p32s = [0, 1 << 31, 0x7F800000, 0xFF800000, 0x7FC00000, 0x7FC00001, 0xFFC12345, 1, 2, 3, 0x007FFFFF, 0x00800000,
            0x7F7FFFFF, 0x7F800001, 0xFF800001, 0x7FA00000, 0x00400000, 0x80000001, 0x3F800000]
    p32s += [rng.getrandbits(32) for _ in range(150 * N)] + [rng.getrandbits(23) for _ in range(40 * N)]
    for p in p32s:
        b = struct.pack('>I', p)
        for le in (True, False):
            bb = b[::-1] if le else b
            x = call(U.bytes_to_real, bb, 1, le)
            out = None if x is None else d2b(x)
            add('bytes_to_real32', 'CBytesToReal32 %s %s %s' % (zlist(bb), blit(le), optlit(out)), (bb, le),
                out is not None)
    for b in (b'', b'abc', b'abcde'):
        add('bytes_to_real32', 'CBytesToReal32 %s true None' % zlist(b), b, False)
        assert call(U.bytes_to_real, b, 1, True) is None
    # str-based variants: latin-1 strings (every single code point, random strings) and strings with a
    # code point above 255 (refused by encode('latin-1')); encoders on the same values as above
    strs = [chr(b) for b in range(256)] + ['', '\u0100', 'a\u0100', '\u20ac\x00', '\xff\u0101\xff', '\U0001f600']
    for _ in range(80 * N):
        k = rng.choice([1, 2, 3, 4, 5, 8])
        s = ''.join(chr(rng.randrange(256)) for _ in range(k))
        strs.append(s)
        if rng.random() < 0.15:
            i = rng.randrange(k)
            strs.append(s[:i] + chr(rng.choice([256, 257, 0x3b1, 0xffff])) + s[i + 1:])
    for s in strs:
        cps = zlist([ord(c) for c in s])
        for le in (True, False):
            out = call(U.string_to_int, s, le)
            add('string_to_int', 'CStringToInt %s %s %s' % (cps, blit(le), optlit(out)), (s, le), out is not None)
            out = call(U.string_to_uint, s, le)
            add('string_to_uint', 'CStringToUint %s %s %s' % (cps, blit(le), optlit(out)), (s, le), out is not None)
            out = call(U.string_to_binary, s, le)
            add('string_to_binary', 'CStringToBinary %s %s %s' % (cps, blit(le), optlit(out, blist)), (s, le),
                out is not None)
    for _ in range(60 * N):
        s = rbits(rng.choice([0, 8, 16, 24, 32, 64, 5, 13, 17]))
        le = rng.random() < 0.5
        out = U.binary_to_string(s, le)
        add('binary_to_string', 'CBinaryToString %s %s %s' % (blist(s), blit(le), zlist([ord(c) for c in out])), (s, le))
    for v, n in ivals[::3]:
        for le in (True, False):
            out = call(U.int_to_string, v, n, le)
            add('int_to_string', 'CIntToString %s %s %s %s'
                % (zlit(v), natlit(n), blit(le), optlit(None if out is None else [ord(c) for c in out], zlist)),
                (v, n, le), out is not None)
            out = call(U.uint_to_string, v, n, le)
            add('uint_to_string', 'CUintToString %s %s %s %s'
                % (zlit(v), natlit(n), blit(le), optlit(None if out is None else [ord(c) for c in out], zlist)),
                (v, n, le), out is not None)
    # time of day
    times = [(0, 0, 0, 0), (23, 59, 59, 999999), (23, 59, 59, 999500), (23, 59, 59, 999499), (0, 0, 0, 500),
             (0, 0, 0, 1500), (0, 0, 0, 2500), (12, 0, 0, 499), (12, 0, 0, 501), (1, 1, 1, 1)]
    for _ in range(120 * N):
        times.append((rng.randrange(24), rng.randrange(60), rng.randrange(60),
                      rng.choice([rng.randrange(10 ** 6), 500 + 1000 * rng.randrange(999), 1000 * rng.randrange(1000)])))
    for (h, mi, s, us) in times:
        d = datetime(2021, 3, 4, h, mi, s, us)
        add('day_microseconds', 'CDayUs %d %d %d %d %s' % (h, mi, s, us, zlit(U.day_microseconds(d))), (h, mi, s, us))
        add('day_milliseconds', 'CDayMs %d %d %d %d %s' % (h, mi, s, us, zlit(U.day_milliseconds(d))), (h, mi, s, us))
    return cases


def gen_mjd_cases(ctx):
    from simulators import utils as U
    rng = ctx.rng
    cases = []
    d0 = datetime(1900, 1, 1)
    span = (datetime(2200, 1, 1) - d0)
    total_us = span.days * 86400 * 10 ** 6
    dates = [d0, datetime(2199, 12, 31, 23, 59, 59, 999999), datetime(2000, 2, 29, 12), datetime(1900, 3, 1),
             datetime(2100, 2, 28, 23, 59, 59, 999999), datetime(2100, 3, 1), datetime(2018, 1, 20, 10, 30, 45, 100000)]
    dates += [d0 + timedelta(microseconds=rng.randrange(total_us)) for _ in range(ctx.n(600, 8000))]
    dates += [d0 + timedelta(days=rng.randrange(span.days)) for _ in range(ctx.n(200, 3000))]
    for d in dates:
        x = U.mjd(d)
        cases.append('CMjd %d %d %d %d %d %d %d %s%%float'
                     % (d.year, d.month, d.day, d.hour, d.minute, d.second, d.microsecond, x.hex()))
        ctx.count('mjd')
        ctx.nontriv(('mjd', d))
        # mjd_to_date on the same value; repr()/float() text conversions are computed here (oracle)
        sd = repr(x)
        if 'e' in sd or 'n' in sd:
            continue
        ip, fr = sd.split('.')
        fr = fr + (12 - len(fr)) * '0'
        frac = float('0.' + fr)
        try:
            back = U.mjd_to_date(x)
        except Exception:
            continue       # datetime() rejected the fields (e.g. hour 24): reported by the oracle
        cases.append('CMjdToDate %d %s%%float %d %d %d %d %d %d %d'
                     % (int(ip), frac.hex(), back.year, back.month, back.day, back.hour, back.minute,
                        back.second, back.microsecond))
        ctx.count('mjd_to_date')
        ctx.nontriv(('mjd_to_date', x))
    return cases


def correspondence(ctx):
    mc = gen_mjd_cases(ctx)
    ctx.sample(mc[0])
    ctx.run_cases('mjd', 'From Coq Require Import PrimFloat.\nFrom DS Require Import Corr.UtilsMjdCorr.',
                  'mcase', 'okm', mc, shard=ctx.n(400, 1500))
    cases = gen_cases(ctx)
    for c in cases[:3] + cases[len(cases) // 2:len(cases) // 2 + 2]:
        ctx.sample(c)
    ctx.run_cases('utils', 'From DS Require Import Corr.UtilsCorr.', 'ucase', 'ok', cases,
                  shard=ctx.n(400, 1500))


# ---------------------------------------------------------------------------
# property-level oracle on the implementation

def f32_is_snan(p):
    return (p & 0x7F800000) == 0x7F800000 and (p & 0x007FFFFF) != 0 and not (p & 0x00400000)


def oracle(ctx):
    from simulators import utils as U
    rng = ctx.rng
    checked = 0
    N = ctx.n(1, 20)

    def bad(klass, what, **w):
        ctx.fail(klass, what, w)

    # integers: decode(encode(x)) = x, encode(decode(b)) = b, str variants agree, refusals
    for n in range(1, 9):
        lim = 1 << (8 * n - 1)
        vs = [-lim, -lim + 1, -1, 0, 1, lim - 1] + [rng.randrange(-lim, lim) for _ in range(150 * N)]
        if n == 1:
            vs = list(range(-128, 128))
        if n == 2 and not ctx.quick():
            vs = list(range(-32768, 32768))
        for v in vs:
            for le in (True, False):
                checked += 1
                b = call(U.int_to_bytes, v, n, le)
                if b is None or len(b) != n or U.bytes_to_int(b, le) != v:
                    bad('int_roundtrip', 'bytes_to_int(int_to_bytes(v)) != v', v=v, n=n, le=le)
                    continue
                s = call(U.int_to_string, v, n, le)
                if s is None or s.encode('latin-1') != b or U.string_to_int(s, le) != v:
                    bad('int_string_variant', 'str variant differs from bytes variant', v=v, n=n, le=le)
                t = call(U.int_to_twos, v, n)
                if t is None or len(t) != 8 * n or U.twos_to_int(t) != v:
                    bad('twos_roundtrip', 'twos_to_int(int_to_twos(v)) != v', v=v, n=n)
                elif U.binary_to_bytes(t, le) != b:
                    bad('twos_bytes_agree', 'binary_to_bytes(int_to_twos(v)) != int_to_bytes(v)', v=v, n=n, le=le)
        for v in (-lim - 1, lim, lim + 12345, -lim * 3):
            for le in (True, False):
                checked += 1
                if call(U.int_to_bytes, v, n, le) is not None:
                    bad('int_refusal', 'out-of-range int not refused', v=v, n=n, le=le)
                if call(U.int_to_string, v, n, le) is not None:
                    bad('int_refusal', 'out-of-range int not refused (str)', v=v, n=n, le=le)
            if call(U.int_to_twos, v, n) is not None:
                bad('twos_refusal', 'out-of-range int_to_twos not refused', v=v, n=n)
        us = [0, 1, 2 * lim - 1, lim] + [rng.randrange(0, 2 * lim) for _ in range(150 * N)]
        if n == 1:
            us = list(range(256))
        if n == 2 and not ctx.quick():
            us = list(range(65536))
        for v in us:
            for le in (True, False):
                checked += 1
                b = call(U.uint_to_bytes, v, n, le)
                if b is None or len(b) != n or U.bytes_to_uint(b, le) != v:
                    bad('uint_roundtrip', 'bytes_to_uint(uint_to_bytes(v)) != v', v=v, n=n, le=le)
                    continue
                s = call(U.uint_to_string, v, n, le)
                if s is None or s.encode('latin-1') != b or U.string_to_uint(s, le) != v:
                    bad('uint_string_variant', 'str variant differs from bytes variant', v=v, n=n, le=le)
        for v in (-1, 2 * lim, 2 * lim + 77, -lim):
            for le in (True, False):
                checked += 1
                if call(U.uint_to_bytes, v, n, le) is not None or call(U.uint_to_string, v, n, le) is not None:
                    bad('uint_refusal', 'out-of-range uint not refused', v=v, n=n, le=le)
        bl = [bytes(rng.randrange(256) for _ in range(n)) for _ in range(100 * N)]
        if n == 1:
            bl = [bytes([x]) for x in range(256)]
        if n == 2 and not ctx.quick():
            bl = [bytes([x, y]) for x in range(256) for y in range(256)]
        for b in bl:
            for le in (True, False):
                checked += 1
                if call(U.int_to_bytes, U.bytes_to_int(b, le), n, le) != b:
                    bad('bytes_int_roundtrip', 'int_to_bytes(bytes_to_int(b)) != b', b=b.hex(), le=le)
                if call(U.uint_to_bytes, U.bytes_to_uint(b, le), n, le) != b:
                    bad('bytes_uint_roundtrip', 'uint_to_bytes(bytes_to_uint(b)) != b', b=b.hex(), le=le)
                bits = U.bytes_to_binary(b, le)
                if U.binary_to_bytes(bits, le) != b or U.string_to_binary(b.decode('latin-1'), le) != bits \
                        or U.binary_to_string(bits, le) != b.decode('latin-1'):
                    bad('binary_roundtrip', 'binary_to_bytes(bytes_to_binary(b)) != b or str variant differs',
                        b=b.hex(), le=le)
                if call(U.int_to_twos, U.twos_to_int(bits), n) != bits:
                    bad('twos_roundtrip2', 'int_to_twos(twos_to_int(s)) != s', s=bits)
    # str variants: a code point above 255 is refused, never truncated to its low byte
    for s in ('\u0100', 'a\u0101', '\u20ac\x00', '\xff\u0141\xff', '\U0001f600'):
        for le in (True, False):
            checked += 1
            for f in (U.string_to_int, U.string_to_uint, U.string_to_binary):
                if call(f, s, le) is not None:
                    bad('string_wide_not_refused', '%s accepted a code point above 255' % f.__name__,
                        s=[ord(c) for c in s], le=le)
    # checksum
    for _ in range(400 * N):
        m = ''.join(chr(rng.randrange(256)) for _ in range(rng.randrange(0, 64)))
        checked += 1
        if ord(U.checksum(m)) != 255 - (sum(ord(c) for c in m) % 256):
            bad('checksum', 'checksum is not the complement of the byte sum mod 256', msg=m.encode('latin-1').hex())
    # doubles
    pats = [0, 1 << 63, 0x7FF0000000000000, 0xFFF0000000000000, 0x7FF8000000000000, 0x7FF0000000000001,
            0xFFF8000000000001, 1, 0x7FEFFFFFFFFFFFFF] + [rng.getrandbits(64) for _ in range(600 * N)]
    for p in pats:
        b = struct.pack('>Q', p)
        for le in (True, False):
            checked += 1
            bb = b[::-1] if le else b
            x = U.bytes_to_real(bb, 2, le)
            if U.real_to_bytes(x, 2, le) != bb:
                bad('real64_roundtrip', 'real_to_bytes(bytes_to_real(b), 2) != b', b=bb.hex(), le=le)
            if U.real_to_string(x, 2, le).encode('latin-1') != bb or \
                    struct.pack('>d', U.string_to_real(bb.decode('latin-1'), 2, le)) != struct.pack('>d', x):
                bad('real64_string_variant', 'str variant differs', b=bb.hex(), le=le)
    # singles (oracle only): every 4-byte pattern must round-trip; finite doubles beyond the
    # single range must be refused
    p32 = [0, 1 << 31, 0x7F800000, 0xFF800000, 0x7FC00000, 0x7FC00001, 0xFFC12345, 1, 0x007FFFFF, 0x00800000,
           0x7F7FFFFF, 0x7F800001, 0xFF800001, 0x7FA00000] + [rng.getrandbits(32) for _ in range(600 * N)]
    for p in p32:
        b = struct.pack('>I', p)
        for le in (True, False):
            checked += 1
            bb = b[::-1] if le else b
            x = U.bytes_to_real(bb, 1, le)
            back = call(U.real_to_bytes, x, 1, le)
            if back != bb:
                bad('real32_snan_quieted' if f32_is_snan(p) else 'real32_roundtrip',
                    'real_to_bytes(bytes_to_real(b, 1), 1) != b', b=bb.hex(), le=le,
                    got=None if back is None else back.hex())
    for x in (1e39, -1e39, 3.5e38, 1.7976931348623157e308):
        checked += 1
        if call(U.real_to_bytes, x, 1) is not None:
            bad('real32_refusal', 'finite double beyond single range not refused', x=x)
    # MJD: any date 1900..2200 round-trips within one microsecond
    d0 = datetime(1900, 1, 1)
    span = (datetime(2200, 1, 1) - d0)
    total_us = span.days * 86400 * 10 ** 6
    worst = 0
    dates = [d0, datetime(2199, 12, 31, 23, 59, 59, 999999), datetime(2000, 2, 29, 12), datetime(1900, 3, 1),
             datetime(2100, 2, 28, 23, 59, 59, 999999), datetime(2100, 3, 1)]
    dates += [d0 + timedelta(microseconds=rng.randrange(total_us)) for _ in range(3000 * N)]
    dates += [d0 + timedelta(days=rng.randrange(span.days)) for _ in range(1000 * N)]
    for d in dates:
        checked += 1
        try:
            back = U.mjd_to_date(U.mjd(d))
            err = abs((back - d).total_seconds()) * 1e6
        except Exception as ex:   # noqa
            bad('mjd_roundtrip', 'mjd_to_date(mjd(d)) raised %s' % type(ex).__name__, d=d.isoformat())
            continue
        worst = max(worst, err)
        if err > 1.0000001:
            bad('mjd_roundtrip', 'mjd_to_date(mjd(d)) differs from d by more than 1 us',
                d=d.isoformat(), back=back.isoformat())
    ctx.oracle_stats = dict(checked=checked, mjd_worst_error_us=worst)
    ctx.evaluations += checked


def replay(ctx, obj):
    """re-run the oracle; the recorded failing class must still be reported"""
    oracle(ctx)
    return any(f['klass'] == obj.get('klass') for f in ctx.failures)
