"""C02 — aggregator: the per-simulator parts live in props/parts/c02_*.py (see FRAMEWORK.md)."""

META = dict(
    id='C02',
    title='Well-formed queries are answered in every reachable state',
    design_ref='DESIGN.md section 7, C02',
    technique='Coq proof (invariant + query-answer theorems per modelled simulator) + in-Coq differential correspondence per simulator part',
    level_text='per-simulator Coq theorems "from every reachable idle state each catalogue query yields exactly one well-formed reply" over Gallina models of the simulators, each model tied to the code by in-Coq differential correspondence' + '. Partial in breadth: the evidence file lists the simulator parts covered on each run; '
               'simulators without a part are not covered.',
    level_note='Trusted: Coq kernel + vm_compute; the hand-written models as validated by the correspondence '
               'suites; CPython builtins mirrored by the models (see DESIGN.md section 8).',
    partial='breadth: only the simulators that have a ready part (see coverage.parts)',
    rule='one case = one byte history / request sequence on one simulator instance; non-trivial = distinct '
         'history that reaches an executed command, a refused command or a framing error',
)
