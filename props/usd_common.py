"""Shared harness of C12 / C13: drives real `USD` objects (simulators/active_surface/usd.py) through
the real unicast handlers of `active_surface.System` under a virtual clock, records the reply and
a full attribute snapshot after every event, and renders the histories as Coq terms for
Corr/UsdCorr.v.

No thread is started: the `System` is built with `__new__` and one `USD`; `calc_position` is
called directly with dyadic elapsed times k/1024 s (rate*dt is then exact in binary64, DESIGN
section 3 "Time"); `time` of the two modules is replaced by the virtual clock (no sleeping);
`Queue` of usd.py is replaced by a subclass whose `get()` on an empty queue raises instead of
blocking for ever, which the harness records as outcome "block"."""
import contextlib
from queue import Queue

from vlib.core import zlit, zlist

MINP = -21000 * 128
MAXP = 21000 * 128

FIELDS = ['usd_index', 'reference_position', 'current_position', 'position_queue', 'delay_multiplier',
          'standby_delay_multiplier', 'standby_mode', 'current_percentage', 'version', 'driver_type',
          'slope_delayer', 'min_frequency', 'max_frequency', 'io_dir', 'io_val', 'trigger_io_level',
          'trigger_io_enable', 'stop_io_level', 'stop_io_enable', 'pos_io_level', 'pos_io_enable',
          'home_io_level', 'home_io_enable', 'running', 'delayed_execution', 'ready', 'full_current',
          'auto_resolution', 'resolution', 'velocity', 'baud_rate', 'cmd_position', 'standby',
          'last_movement']

# code -> number of parameter bytes (the protocol's table; used by the generators only)
NPARAMS = {0x01: 0, 0x02: 0, 0x10: 0, 0x11: 0, 0x12: 0, 0x13: 0, 0x14: 0, 0x20: 2, 0x21: 2, 0x22: 1,
           0x23: 4, 0x25: 1, 0x26: 1, 0x27: 1, 0x28: 1, 0x29: 1, 0x2A: 1, 0x2B: 1, 0x2C: 1, 0x2D: 2,
           0x30: 4, 0x31: 4, 0x32: 1, 0x35: 3}
CODES = sorted(NPARAMS)
NAMES = {0x01: 'soft_reset', 0x02: 'soft_trigger', 0x10: 'get_version', 0x11: 'soft_stop',
         0x12: 'get_position', 0x13: 'get_status', 0x14: 'get_driver_type', 0x20: 'set_min_frequency',
         0x21: 'set_max_frequency', 0x22: 'set_slope_delayer', 0x23: 'set_reference_position',
         0x25: 'set_io_pins', 0x26: 'set_resolution', 0x27: 'set_current_reduction',
         0x28: 'set_response_delay', 0x29: 'set_delayed_execution', 0x2A: 'set_stop_io',
         0x2B: 'set_positioning_io', 0x2C: 'set_home_io', 0x2D: 'set_working_mode',
         0x30: 'set_absolute_position', 0x31: 'set_relative_position', 0x32: 'rotate',
         0x35: 'set_velocity'}
ACK = [6]
NAK = [21]


class WouldBlock(Exception):
    pass


class NBQueue(Queue):
    def get(self, block=True, timeout=None):
        if self.empty():
            raise WouldBlock()
        return Queue.get(self, block, timeout)


class Clock:
    """virtual clock in units of 1/1024 s"""
    def __init__(self):
        self.ticks = 0

    def time(self):
        return self.ticks / 1024.0

    def sleep(self, s):
        pass


class HarnessError(Exception):
    """the implementation shows a value the snapshot cannot represent (tie broken)"""


@contextlib.contextmanager
def implementation():
    """yields (System, USD, clock) with the modules patched; restores them afterwards"""
    import simulators.active_surface as asmod
    from simulators.active_surface import usd as usdmod
    clk = Clock()
    saved = (asmod.time, usdmod.time, usdmod.Queue)
    asmod.time = clk
    usdmod.time = clk
    usdmod.Queue = NBQueue
    try:
        yield asmod.System, usdmod.USD, clk
    finally:
        asmod.time, usdmod.time, usdmod.Queue = saved


def be_signed(v, n):
    return list((v % (1 << (8 * n))).to_bytes(n, 'big'))


class Line:
    """real USDs (consecutive indexes) behind the real `_parse` of a thread-less System"""
    def __init__(self, impl, idxs, clock0):
        self.System, self.USD, self.clk = impl
        self.idxs = list(idxs)
        self.clk.ticks = clock0
        self.units = [self.USD(i) for i in self.idxs]
        s = self.System.__new__(self.System)
        s.initialized = False
        s._set_default()
        s.min_usd_index = self.idxs[0]
        s.drivers = self.units
        self.sys = s
        self.attrs0 = set(vars(self.units[0]))

    # -- events ----------------------------------------------------------------
    def _parse(self, frame):
        """returns ('R', [bytes]) | ('S',) | ('V',) | ('E', repr) | ('B',)"""
        from simulators import utils
        frame += utils.checksum(frame)
        try:
            r = self.sys._parse(frame)
        except WouldBlock:
            return ('B',)
        except ValueError:
            return ('V',)
        except Exception as ex:   # noqa
            return ('E', '%s: %s' % (type(ex).__name__, ex))
        if r is True:
            return ('S',)
        if isinstance(r, str) and r:
            return ('R', [ord(c) for c in r])
        return ('E', 'returned %r' % (r,))

    def uni(self, j, code, start, params):
        """a complete unicast message (start, [nbytes:3|address:5], command, parameters, checksum)
        handed to the real System._parse"""
        assert len(params) <= 6
        frame = chr(start) + chr(((len(params) + 1) << 5) | self.idxs[j]) + chr(code)
        return self._parse(frame + ''.join(chr(p) for p in params))

    def bcast(self, code, start, params):
        assert len(params) <= 6
        frame = chr(start) + chr(0) + chr(len(params) + 1) + chr(code)
        return self._parse(frame + ''.join(chr(p) for p in params))

    def tick(self, k):
        self.clk.ticks += k
        for u in self.units:
            u.calc_position(k / 1024.0)

    def parse_byte(self, b):
        """one call of the real System.parse, classified as ListenHandler._handle sees it:
        ('F',) False | ('T',) True | ('R', [bytes]) a reply | ('V',) ValueError | ('E', text)"""
        try:
            r = self.sys.parse(chr(b))
        except WouldBlock:
            return ('B',)
        except ValueError:
            return ('V',)
        except Exception as ex:   # noqa
            return ('E', '%s: %s' % (type(ex).__name__, ex))
        if r is True:
            return ('T',)
        if r is False:
            return ('F',)
        if isinstance(r, str) and r:
            return ('R', [ord(c) for c in r])
        return ('E', 'returned %r' % (r,))

    def feed(self, j, code, start, params):
        """the same unicast message sent one byte at a time through the real System.parse, handled
        as simulators.server.ListenHandler._handle does (exceptions are swallowed, booleans are not
        sent, non-empty strings are sent).  returns (replies, errors): the list of replies (lists of
        code points) and the exceptions raised on the way"""
        from simulators import utils
        frame = chr(start) + chr(((len(params) + 1) << 5) | self.idxs[j]) + chr(code)
        frame += ''.join(chr(p) for p in params)
        frame += utils.checksum(frame)
        replies, errors = [], []
        for ch in frame:
            try:
                r = self.sys.parse(ch)
            except WouldBlock:
                errors.append('block')
                continue
            except Exception as ex:   # noqa
                errors.append('%s: %s' % (type(ex).__name__, ex))
                continue
            if isinstance(r, bool):
                continue
            if r and isinstance(r, str):
                replies.append([ord(c) for c in r])
        return replies, errors

    def snapshots(self):
        return [self.snapshot(j) for j in range(len(self.units))]

    # -- observation -----------------------------------------------------------------
    def snapshot(self, j=0):
        u = self.units[j]
        if set(vars(u)) != self.attrs0:
            raise HarnessError('attribute set changed: %r' % sorted(set(vars(u)) ^ self.attrs0))

        def integer(x, what):
            if isinstance(x, bool) or not isinstance(x, int):
                raise HarnessError('%s is %r' % (what, x))
            return x

        def boolean(x, what):
            if not isinstance(x, bool):
                raise HarnessError('%s is %r' % (what, x))
            return x

        def quarters(x, what):
            if isinstance(x, bool) or not isinstance(x, (int, float)) or x * 4 != int(x * 4):
                raise HarnessError('%s is %r' % (what, x))
            return int(x * 4)

        def tri(x, what):
            if not isinstance(x, list) or len(x) != 3:
                raise HarnessError('%s is %r' % (what, x))
            return tuple(integer(v, what) for v in x)

        def opt(x, what):
            return None if x is None else integer(x, what)

        d = {}
        for f in FIELDS:
            v = getattr(u, f)
            if f == 'position_queue':
                d[f] = [(integer(p, f), boolean(a, f)) for (p, a) in list(v.queue)]
            elif f in ('standby_mode', 'current_percentage'):
                d[f] = quarters(v, f)
            elif f == 'version':
                d[f] = [integer(x, f) for x in v]
            elif f.startswith(('io_', 'trigger_io', 'stop_io', 'pos_io', 'home_io')):
                d[f] = tri(v, f)
            elif f in ('running', 'delayed_execution', 'ready', 'full_current', 'auto_resolution',
                       'standby'):
                d[f] = boolean(v, f)
            elif f in ('velocity', 'cmd_position'):
                d[f] = opt(v, f)
            elif f == 'last_movement':
                if v is None:
                    d[f] = None
                else:
                    t = v * 1024
                    if t != int(t):
                        raise HarnessError('last_movement off the grid: %r' % v)
                    d[f] = int(t)
            else:
                d[f] = integer(v, f)
        return d


class Unit(Line):
    """a line of one unit"""
    def __init__(self, impl, idx, clock0):
        Line.__init__(self, impl, [idx], clock0)
        self.idx = idx
        self.u = self.units[0]

    def cmd(self, code, start, params):
        return self.uni(0, code, start, params)


# ---------------------------------------------------------------------------
# Coq rendering

def coq_bool(b):
    return 'true' if b else 'false'


def coq_opt(x):
    return 'None' if x is None else '(Some %s)' % zlit(x)


def coq_tri(t):
    return '(%s, %s, %s)' % tuple(zlit(x) for x in t)


def coq_snapshot(d):
    parts = []
    for f in FIELDS:
        v = d[f]
        if f == 'position_queue':
            parts.append('[' + '; '.join('(%s, %s)' % (zlit(p), coq_bool(a)) for p, a in v) + ']')
        elif f == 'version':
            parts.append(zlist(v))
        elif isinstance(v, tuple):
            parts.append(coq_tri(v))
        elif isinstance(v, bool):
            parts.append(coq_bool(v))
        elif f in ('velocity', 'cmd_position', 'last_movement'):
            parts.append(coq_opt(v))
        else:
            parts.append(zlit(v))
    return '(Build_usd ' + ' '.join(parts) + ')'


def coq_outcome(o):
    if o is None:
        return 'None'
    if o[0] == 'R':
        return '(Some (OReply %s))' % zlist(o[1])
    return {'V': '(Some OValueError)', 'E': '(Some OException)', 'B': '(Some OBlock)',
            'S': '(Some OSilent)'}[o[0]]


def coq_event(e):
    if e[0] == 'cmd':
        return '(ECmd %s %s %s)' % (zlit(e[1]), zlit(e[2]), zlist(e[3]))
    return '(ETick %s)' % zlit(e[1])


def coq_levent(e):
    if e[0] == 'uni':
        return '(LUni %d%%nat %s %s %s)' % (e[1], zlit(e[2]), zlit(e[3]), zlist(e[4]))
    if e[0] == 'bcast':
        return '(LBcast %s %s %s)' % (zlit(e[1]), zlit(e[2]), zlist(e[3]))
    return '(LTick %s)' % zlit(e[1])


def coq_line_case(idxs, clock0, events, observations):
    return '(%s, %s, [%s], [%s])' % (
        zlist(idxs), zlit(clock0), '; '.join(coq_levent(e) for e in events),
        ';\n '.join('(%s, [%s])' % (coq_outcome(o), '; '.join(coq_snapshot(x) for x in ss))
                    for o, ss in observations))


def coq_case(idx, clock0, events, observations):
    return '(%s, %s, [%s], [%s])' % (
        zlit(idx), zlit(clock0), '; '.join(coq_event(e) for e in events),
        ';\n '.join('(%s, %s)' % (coq_outcome(o), coq_snapshot(s)) for o, s in observations))


# ---------------------------------------------------------------------------
# history generation (steered by the implementation's current state, which is legitimate: the
# recorded history is what both sides then execute)

def sps_of(u):
    """steps per second the implementation would use in the next calc_position"""
    if u.velocity:
        f = abs(u.velocity)
    else:
        f = u.max_frequency
    return f * (128 // u.resolution) if u.resolution else 0


def pick_tick(rng, u):
    r = rng.random()
    if r < 0.08:
        return 0
    if r < 0.20:
        return 1
    if r < 0.30:
        # rounding tie: sps*k = 512 (mod 1024)
        sps = sps_of(u)
        ks = [k for k in range(1, 300) if (sps * k) % 1024 == 512]
        if ks:
            return rng.choice(ks)
    if r < 0.70:
        return rng.randrange(1, 40)
    if r < 0.92:
        return rng.randrange(40, 3000)
    return rng.randrange(3000, 1 << 16)


def pick_target(rng, u):
    """an interesting absolute target given the present state"""
    cur = u.current_position
    r = rng.random()
    if r < 0.12:
        return cur
    if r < 0.45:
        return cur + rng.choice([-1, 1]) * rng.randrange(1, 3000)
    if r < 0.60:
        return cur + rng.choice([-1, 1]) * rng.randrange(3000, 400000)
    if r < 0.75:
        return rng.choice([MINP, MAXP, MINP + 1, MAXP - 1, MINP + rng.randrange(2000),
                           MAXP - rng.randrange(2000)])
    if r < 0.90:
        return rng.choice([MINP - 1, MAXP + 1, MINP - rng.randrange(1, 100000),
                           MAXP + rng.randrange(1, 100000)])
    return rng.randrange(-(1 << 31), 1 << 31)


def clip32(v):
    return max(-(1 << 31), min((1 << 31) - 1, v))


def valid_params(rng, code, u):
    """well-formed parameter bytes of command `code`, biased to the interesting values"""
    n = NPARAMS[code]
    if n == 0:
        return []
    if code in (0x20, 0x21):
        f = rng.choice([19, 20, 21, 9999, 10000, 10001, u.min_frequency, u.max_frequency,
                        u.min_frequency - 1, u.max_frequency + 1, rng.randrange(20, 10001),
                        rng.randrange(20, 10001), rng.randrange(-32768, 32768)])
        return be_signed(max(-32768, min(32767, f)), 2)
    if code == 0x23:
        r = rng.choice([0, 0, rng.randrange(-5000, 5000), rng.randrange(-3000000, 3000000),
                        rng.randrange(-(1 << 31), 1 << 31)])
        return be_signed(r, 4)
    if code == 0x30:
        return be_signed(clip32(pick_target(rng, u) - u.reference_position), 4)
    if code == 0x31:
        return be_signed(clip32(pick_target(rng, u) - u.current_position), 4)
    if code == 0x35:
        v = rng.choice([0, 0, 9, -9, 10, -10, 1, -1, 100000, -100000, 100001, -100001,
                        rng.randrange(-100000, 100001), rng.randrange(-2000, 2001),
                        rng.randrange(-(1 << 23), 1 << 23)])
        return be_signed(v, 3)
    if code == 0x26:
        return [rng.choice(list(range(0, 16)) + [rng.randrange(256)])]
    if code == 0x32:
        return [rng.choice([0, 1, 255, 127, 128, rng.randrange(256)])]
    if code == 0x29:
        return [rng.choice([0x80, 0x00, 0xFF, 0x7F, 0x80 | rng.randrange(128), rng.randrange(128),
                            rng.randrange(256)])]
    if code == 0x27:
        return [rng.choice([0, 0x40, 0x80, 0xC0, 0x81, 0xC3, rng.randrange(256), rng.randrange(256)])]
    if code == 0x28:
        return [rng.choice([0, 5, 255, rng.randrange(256)])]
    return [rng.randrange(256) for _ in range(n)]


PROFILES = {
    # weights of: tick, motion commands, delayed-execution commands, queries, configuration,
    #             malformed (wrong parameter count / unknown code)
    'motion':  dict(tick=40, motion=30, delayed=4, query=10, config=10, malformed=3),
    'config':  dict(tick=12, motion=12, delayed=8, query=20, config=40, malformed=8),
    'delayed': dict(tick=25, motion=25, delayed=30, query=8, config=6, malformed=3),
    'garbage': dict(tick=10, motion=10, delayed=5, query=10, config=15, malformed=50),
}
MOTION = [0x30, 0x30, 0x30, 0x31, 0x31, 0x32, 0x35, 0x35, 0x11, 0x11]
DELAYED = [0x29, 0x29, 0x02, 0x02, 0x02, 0x30, 0x31, 0x01]
QUERY = [0x10, 0x12, 0x12, 0x13, 0x13, 0x13, 0x14]
CONFIG = [0x20, 0x21, 0x21, 0x22, 0x23, 0x25, 0x26, 0x26, 0x27, 0x27, 0x28, 0x2A, 0x2B, 0x2C, 0x2D, 0x01]


def pick_event(rng, unit, profile):
    w = PROFILES[profile]
    kinds = list(w)
    kind = rng.choices(kinds, [w[k] for k in kinds])[0]
    u = unit.u
    start = rng.choice([0xFA, 0xFC])
    if kind == 'tick':
        return ('tick', pick_tick(rng, u))
    if kind == 'malformed':
        r = rng.random()
        if r < 0.35:
            code = rng.choice([c for c in range(256) if c not in NPARAMS])
            return ('cmd', code, start, [rng.randrange(256) for _ in range(rng.randrange(0, 7))])
        code = rng.choice(CODES)
        n = rng.choice([k for k in range(0, 7) if k != NPARAMS[code]])
        return ('cmd', code, start, [rng.randrange(256) for _ in range(n)])
    code = rng.choice({'motion': MOTION, 'delayed': DELAYED, 'query': QUERY, 'config': CONFIG}[kind])
    return ('cmd', code, start, valid_params(rng, code, u))


def run_history(impl, rng, profile, length, on_step=None):
    """generate and execute one history on a fresh real unit.
    returns (idx, clock0, events, observations); on_step(unit, event, outcome, before, after) is the
    property oracle's hook (before/after are snapshots)."""
    idx = rng.choice([0, 1, 1, 7, 17, 31, rng.randrange(32)])
    clock0 = rng.choice([1, 1024, 1000 * 1024, rng.randrange(1, 1 << 30)])
    unit = Unit(impl, idx, clock0)
    events, obs = [], []
    before = unit.snapshot()
    for _ in range(length):
        e = pick_event(rng, unit, profile)
        o = apply_event(unit, e)
        try:
            after = unit.snapshot()
        except HarnessError as ex:
            # the unit left the state space of the protocol (an attribute of the wrong type, e.g. None where a
            # number belongs): with an oracle attached this is a concrete failing history, not a harness problem
            if on_step is None:
                raise
            events.append(e)
            on_step(unit, e, ('H', str(ex)), before, before)
            break
        events.append(e)
        obs.append((o, after))
        if on_step:
            on_step(unit, e, o, before, after)
        before = after
        if o is not None and o[0] in ('B', 'E'):
            break     # after an internal error the implementation's state is not meaningful
    return idx, clock0, events, obs


def apply_levent(line, e):
    if e[0] == 'tick':
        return _tick_outcome(line, e[1])
    if e[0] == 'uni':
        return line.uni(e[1], e[2], e[3], e[4])
    return line.bcast(e[1], e[2], e[3])


class _View:
    """what pick_event needs of a unit"""
    def __init__(self, u):
        self.u = u


def run_line_history(impl, rng, length, on_step=None, bcast_share=0.2):
    """one history on a fresh line of 2..4 units: unicast commands to random units, broadcasts,
    time steps.  returns (idxs, clock0, events, [(outcome, [snapshots])]); on_step(line, event,
    outcome, before_snapshots, after_snapshots)"""
    n = rng.choice([2, 2, 3, 4])
    first = rng.randrange(0, 32 - n + 1)
    idxs = list(range(first, first + n))
    clock0 = rng.choice([1, 1024, rng.randrange(1, 1 << 30)])
    line = Line(impl, idxs, clock0)
    profile = rng.choice(['motion', 'motion', 'delayed', 'config'])
    events, obs = [], []
    before = line.snapshots()
    for _ in range(length):
        j = rng.randrange(n)
        e = pick_event(rng, _View(line.units[j]), profile)
        if e[0] == 'cmd':
            if rng.random() < bcast_share:
                code = rng.choice([0x11, 0x11, e[1]]) if profile == 'motion' else e[1]
                params = [] if code == 0x11 and code != e[1] else e[3]
                e = ('bcast', code, e[2], params)
            else:
                e = ('uni', j, e[1], e[2], e[3])
        o = apply_levent(line, e)
        try:
            after = line.snapshots()
        except HarnessError as ex:
            if on_step is None:
                raise
            events.append(e)
            on_step(line, e, ('H', str(ex)), before, before)
            break
        events.append(e)
        obs.append((o, after))
        if on_step:
            on_step(line, e, o, before, after)
        before = after
        if o is not None and o[0] in ('B', 'E'):
            break
    return idxs, clock0, events, obs


def replay_line(impl, idxs, clock0, events, on_step=None):
    line = Line(impl, idxs, clock0)
    before = line.snapshots()
    for e in events:
        e = tuple(e)
        o = apply_levent(line, e)
        after = line.snapshots()
        if on_step:
            on_step(line, e, o, before, after)
        before = after
        if o is not None and o[0] in ('B', 'E'):
            break
    return line


def _tick_outcome(obj, k):
    """a time step: None, or ('E', text) when calc_position raised (in production the exception ends the
    line's only positioning thread: no unit of the line moves again)"""
    try:
        obj.tick(k)
    except Exception as ex:   # noqa
        return ('E', 'calc_position raised %s: %s' % (type(ex).__name__, ex))
    return None


def apply_event(unit, e):
    if e[0] == 'tick':
        return _tick_outcome(unit, e[1])
    return unit.cmd(e[1], e[2], e[3])


def replay_events(impl, idx, clock0, events):
    """re-execute a recorded history; returns the list of (outcome, snapshot)"""
    unit = Unit(impl, idx, clock0)
    out = []
    for e in events:
        e = tuple(e)
        o = apply_event(unit, e)
        out.append((o, unit.snapshot()))
        if o is not None and o[0] in ('B', 'E'):
            break
    return unit, out


def rounded_displacement(freq, resolution, k):
    """int(round(freq * (128 / resolution) * (k / 1024))) computed in exact integer arithmetic"""
    n = freq * (128 // resolution) * k
    q, r = divmod(n, 1024)
    if 2 * r < 1024:
        return q
    if 2 * r > 1024:
        return q + 1
    return q if q % 2 == 0 else q + 1


def check_answer(reply, start, idx, npayload):
    """None when `reply` (list of code points) is a well-formed answer frame to a query that started
    with `start` and was addressed to unit `idx`, carrying `npayload` payload bytes; else what is wrong.
    On success the payload is returned through the second component."""
    head = 3 if start == 0xFC else 2
    if any(not 0 <= c <= 255 for c in reply):
        return 'element outside 0..255', None
    if len(reply) != head + npayload + 1:
        return 'length %d, expected %d' % (len(reply), head + npayload + 1), None
    if reply[0] != 6:
        return 'does not start with ACK', None
    if reply[1] != start:
        return 'start byte %#x not echoed' % start, None
    if start == 0xFC and reply[2] != ((npayload << 5) | idx):
        return 'length/address byte %#x, expected %#x' % (reply[2], (npayload << 5) | idx), None
    if reply[-1] != 255 - sum(reply[:-1]) % 256:
        return 'wrong checksum', None
    return None, reply[head:-1]


# ---------------------------------------------------------------------------
# byte level: messages and garbage for the real System.parse

def checksum_of(bs):
    return 255 - sum(bs) % 256


def uni_frame(start, idx, code, params):
    body = [start, ((len(params) + 1) << 5) | idx, code] + list(params)
    return body + [checksum_of(body)]


def bcast_frame(start, code, params):
    body = [start, 0, len(params) + 1, code] + list(params)
    return body + [checksum_of(body)]


NON_HEADER = [b for b in range(256) if b not in (0xFA, 0xFC)]


def resync_bytes(rng, n=None):
    """the resynchronisation sequence of the protocol: >= 10 bytes that cannot start a command"""
    n = n or rng.choice([10, 10, 10, 11, 12, 16])
    return [rng.choice(NON_HEADER) if rng.random() < 0.7 else rng.choice([0, 1, 7, 8, 0x1F, 0x20, 0xFB, 0xFD, 255])
            for _ in range(n)]


def garbage_chunk(rng, line):
    """(tag, bytes): one piece of a byte history - valid traffic or one of the malformed shapes"""
    idxs = line.idxs
    start = rng.choice([0xFA, 0xFC])
    r = rng.random()
    if r < 0.10:
        return 'random', [rng.randrange(256) for _ in range(rng.randrange(1, 13))]
    if r < 0.22:
        return 'rejected_at_byte_2', [start, rng.randrange(1, 32)]
    if r < 0.32:
        return 'rejected_at_byte_3', [start, 0, rng.choice([0, 8, 9, 255, rng.randrange(8, 256)])]
    j = rng.randrange(len(idxs))
    e = pick_event(rng, _View(line.units[j]), rng.choice(['config', 'delayed', 'motion', 'garbage']))
    if e[0] != 'cmd':
        code, params = rng.choice(CODES), []
    else:
        code, params = e[1], e[3]
    if r < 0.42:
        f = uni_frame(start, idxs[j], code, params)
        return 'truncated', f[:rng.randrange(1, len(f))]
    if r < 0.50:
        f = uni_frame(start, idxs[j], code, params)
        f[-1] = (f[-1] + rng.randrange(1, 256)) % 256
        return 'bad_checksum', f
    if r < 0.57:
        return 'unknown_code', uni_frame(start, idxs[j], rng.choice([c for c in range(256) if c not in NPARAMS]),
                                         [rng.randrange(256) for _ in range(rng.randrange(0, 4))])
    if r < 0.62:
        return 'nested_headers', [rng.choice([0xFA, 0xFC]) for _ in range(rng.randrange(2, 5))]
    if r < 0.68:
        absent = [i for i in range(32) if i not in idxs]
        if absent:
            return 'absent_address', uni_frame(start, rng.choice(absent), code, params)
    if r < 0.80:
        return 'broadcast', bcast_frame(start, code, params)
    return 'unicast', uni_frame(start, idxs[j], code, params)
