"""Shared harness code of the Smc parts (mscu, totalpower, dbesm): deterministic drivers of the real
System classes (fakes for time, Timer, socket, random), Coq term printers, stream generators.

Nothing here is a check by itself; props/parts/c0x_<sim>.py import it."""
import contextlib
import io
import math
import struct
import sys
import types

from vlib.core import zlit, zlist, blit, natlit


# ---------------------------------------------------------------------------
# Coq terms

def zs(s):
    """latin-1 str -> Coq list Z"""
    return zlist([ord(c) for c in s])


def coq_list(items):
    return '[' + '; '.join(items) + ']'


def outcome_term(o):
    k = o[0]
    if k == 'R':
        return '(OReply %s)' % zs(o[1])
    return {'F': 'OFalse', 'T': 'OTrue', 'B': 'OBadRet', 'V': 'OValueError', 'X': 'OException'}[k]


def classify(system, ch):
    """one System.parse(byte) call, classified as ListenHandler._handle does"""
    try:
        r = system.parse(ch)
    except ValueError:
        return ('V',)
    except Exception as ex:  # noqa
        return ('X', type(ex).__name__)
    if r is True:
        return ('T',)
    if r is False:
        return ('F',)
    if isinstance(r, str) and r:
        return ('R', r)
    return ('B',)


def int_table(tokens):
    """graph of int() on the given tokens: token -> int or None (ValueError)"""
    tbl = {}
    for t in tokens:
        if t in tbl:
            continue
        try:
            tbl[t] = int(t)
        except ValueError:
            tbl[t] = None
    return tbl


def int_table_term(tbl):
    return coq_list('(%s, %s)' % (zs(k), 'None' if v is None else '(Some %s)' % zlit(v))
                    for k, v in sorted(tbl.items()))


def f64_bits(x):
    if x != x:
        return 0x7FF8000000000000       # every NaN is one value for the models
    return struct.unpack('>Q', struct.pack('>d', x))[0]


@contextlib.contextmanager
def quiet():
    old = sys.stdout
    sys.stdout = io.StringIO()
    try:
        yield
    finally:
        sys.stdout = old


@contextlib.contextmanager
def patched(mod, **attrs):
    saved = {k: getattr(mod, k) for k in attrs}
    for k, v in attrs.items():
        setattr(mod, k, v)
    try:
        yield
    finally:
        for k, v in saved.items():
            setattr(mod, k, v)


# ---------------------------------------------------------------------------
# byte stream generators shared by the three text protocols

def mutate(rng, s, alphabet):
    """one random corruption of a latin-1 string: drop / insert / replace / truncate / duplicate"""
    if not s:
        return rng.choice(alphabet)
    k = rng.randrange(6)
    i = rng.randrange(len(s))
    if k == 0:
        return s[:i] + s[i + 1:]
    if k == 1:
        return s[:i] + rng.choice(alphabet) + s[i:]
    if k == 2:
        return s[:i] + rng.choice(alphabet) + s[i + 1:]
    if k == 3:
        return s[:i]
    if k == 4:
        return s[:i] + s[i] + s[i:]
    return s[:i] + chr(rng.randrange(256)) + s[i + 1:]


def garbage(rng, n, alphabet=None):
    if alphabet is None:
        return ''.join(chr(rng.randrange(256)) for _ in range(n))
    return ''.join(rng.choice(alphabet) for _ in range(n))


# ---------------------------------------------------------------------------
# totalpower

class FakeTimer:
    """recording stand-in for threading.Timer: never fires, never creates a thread"""
    created = []

    def __init__(self, interval, function, args=None, kwargs=None):
        self.interval = interval
        self.function = function
        self.started = False
        self.cancelled = False
        FakeTimer.created.append(self)

    def start(self):
        self.started = True

    def cancel(self):
        self.cancelled = True

    def join(self, timeout=None):
        return None

    def is_alive(self):
        return self.started and not self.cancelled


class FakeSocketObj:
    def __init__(self, *a, **k):
        self.connected = None
        self.closed = False
        self.sent = []

    def connect(self, addr):
        self.connected = addr

    def sendall(self, data):
        self.sent.append(bytes(data))

    def close(self):
        self.closed = True

    def setsockopt(self, *a):
        pass


def fake_socket_module():
    return types.SimpleNamespace(socket=FakeSocketObj, error=OSError)


class VClock:
    """virtual wall clock; time() is constant until advanced"""

    def __init__(self, t0=1700000000.0):
        self.t = t0

    def time(self):
        return self.t

    def sleep(self, dt):
        return None


class TotalPower:
    """one real totalpower.System driven byte by byte, everything nondeterministic recorded"""

    def __init__(self, channels, rng):
        import simulators.totalpower as tp
        self.tp = tp
        self.rng = rng
        self.clock = VClock(1700000000.0 + rng.randrange(0, 10 ** 6) / 8.0)
        self.tms = []
        self.rnds = []
        orig_get_time = tp._get_time
        orig_randint = tp.randint

        def get_time(time_offset=0):
            r = orig_get_time(time_offset)
            self.tms.append(r)
            return r

        def randint(a, b):
            r = rng.randint(a, b)
            self.rnds.append(r)
            return r

        self.patch = dict(Timer=FakeTimer, socket=fake_socket_module(),
                          time=types.SimpleNamespace(time=self.clock.time, sleep=self.clock.sleep),
                          _get_time=get_time, randint=randint)
        with patched(tp, **self.patch):
            self.system = tp.System(channels=channels)
        self.channels = channels

    def feed(self, data):
        outs = []
        with patched(self.tp, **self.patch):
            for ch in data:
                outs.append(classify(self.system, ch))
                if self.rng.random() < 0.05:
                    self.clock.t += self.rng.randrange(1, 4000) / 16.0
        return outs

    def snapshot(self):
        s = self.system
        boards = [(b._input, b._previous_input, b._attenuation, b._filter) for b in s.boards]
        ints = [s.calOn, s.externalNoise, s.sample_period, s.calOnPeriod, s.zeroPeriod, s.data_port]
        flags = [bool(s.data_configured), bool(s.pause.value), bool(s.stop.value), s.data_timer is not None]
        return boards, ints, s.data_address, flags

    def snapshot_term(self):
        boards, ints, addr, flags = self.snapshot()
        return ('{| sn_boards := %s; sn_ints := %s; sn_addr := %s; sn_flags := %s |}'
                % (coq_list('(%s, %s, %s, %s)' % (zs(a), zs(b), zlit(c), zlit(d)) for a, b, c, d in boards),
                   zlist(ints), zs(addr), coq_list(blit(f) for f in flags)))


def tp_tokens(data):
    """every space-separated stripped token of every line of the stream (lines end at \\n or \\r)"""
    toks = set()
    line = ''
    for ch in data + '\n':
        if ch in '\n\r':
            for x in line.strip().split(' '):
                toks.add(x.strip())
            line = ''
        else:
            line += ch
    return toks


TP_LETTERS = ['B', 'P', 'G', 'Z']


def tp_command(rng, channels, valid=True):
    """one totalpower command line (without terminator), mostly valid"""
    def small():
        return rng.choice([0, 1, 2, 3, 4, 5, 7, 15, 16, -1, channels, channels + 1, 1000, 25, 40])
    k = rng.randrange(18)
    if k == 0:
        return 'T %d %d' % (rng.randrange(0, 2 * 10 ** 9), rng.choice([0, 5, 999999, 123456, -3]))
    if k == 1:
        return 'E %d %d' % (rng.randrange(0, 2 * 10 ** 9), rng.randrange(0, 10 ** 6))
    if k == 2:
        return 'I %s %d %d' % (rng.choice(TP_LETTERS + ['X', 'b']), rng.choice(list(range(16)) + [16, -1]),
                               rng.choice([1, 2, 3, 4, 0, 5]))
    if k in (3, 4, 5):
        return 'A %d %s %d %d' % (rng.choice(list(range(1, channels + 1)) + [0, channels + 1, -2]),
                                  rng.choice(TP_LETTERS * 3 + ['Q']), rng.choice(list(range(16)) * 2 + [16, -1]),
                                  rng.choice([1, 2, 3, 4] * 3 + [0, 5]))
    if k in (6, 7):
        return '?'
    if k == 8:
        return 'N %d' % rng.choice([0, 1, 1, 2, -1])
    if k == 9:
        return 'M %d' % rng.choice([0, 1, 2])
    if k == 10:
        return 'Z %d' % rng.choice([0, 1, 1, 0, 2])
    if k == 11:
        return 'S %d' % rng.choice([1000, 25, 40, 0, -5, 10 ** 400, 1])
    if k == 12:
        return 'R'
    if k == 13:
        return 'V'
    if k == 14:
        return 'X %d %d %d %s %d' % (rng.choice([1000, 25, 40, 0, 1]), small(), small(),
                                     rng.choice(['127.0.0.1', 'host', '']), rng.randrange(0, 65536))
    if k == 15:
        return rng.choice(['pause', 'stop', 'resume', 'resume'])
    if k == 16:
        return rng.choice(['? 1', 'R 2 3', 'V x', 'pause 1', 'N', 'N 1 1', 'S', 'T 1', 'E 1 2 3', 'I B 1',
                           'A 1 B 1', 'X 1 2 3 h', 'foo', 'a 1', '', ' ', 'N  1', ' N 1 ', 'T 5 -3',
                           'Z', 'M x', 'stop now', 'A x B 1 1', 'I 1 1 1', 'X a 2 3 h 5', 'X 1 2 3 h p'])
    return 'A %d %s %d %d' % (rng.randrange(1, channels + 1), rng.choice(TP_LETTERS), rng.randrange(16),
                              rng.randrange(1, 5))


TP_ALPHABET = list('TEIA?NMZSRXV 0123456789-BPGZpausetorm\n\r\t_+x.')


def tp_stream(rng, channels, ncmd, corrupt=0.15):
    out = ''
    for _ in range(ncmd):
        line = tp_command(rng, channels)
        r = rng.random()
        if r < corrupt:
            line = mutate(rng, line, TP_ALPHABET)
        elif r < corrupt + 0.04:
            line = garbage(rng, rng.randrange(1, 12))
        out += line + rng.choice(['\n', '\r', '\r\n', '\n', '\r\n'])
    return out


def tp_case_term(rng, channels, data):
    d = TotalPower(channels, rng)
    outs = d.feed(data)
    tbl = int_table(tp_tokens(data))
    term = ('TPCase %s %s %s %s %s %s %s'
            % (natlit(channels), int_table_term(tbl),
               coq_list('(%s, %s, %s)' % tuple(zlit(x) for x in t) for t in d.tms),
               zlist(d.rnds), zs(data), coq_list(outcome_term(o) for o in outs), d.snapshot_term()))
    return term, outs, d


# ---------------------------------------------------------------------------
# dbesm

def class_literal(path, cls, name):
    """the literal assigned to `name` in the body of class `cls` in the source file (pristine value,
    independent of anything a running process appended to the class attribute)"""
    import ast
    tree = ast.parse(open(path).read())
    for node in tree.body:
        if isinstance(node, ast.ClassDef) and node.name == cls:
            for st in node.body:
                if isinstance(st, ast.Assign) and any(isinstance(t, ast.Name) and t.id == name
                                                      for t in st.targets):
                    return ast.literal_eval(st.value)
    raise KeyError(name)


def hval_term(x):
    """a float on the 0.5 grid -> hval; None when it is not"""
    if x != x or x in (float('inf'), float('-inf')):
        return None
    k = x * 2
    if k != math.floor(k) or abs(k) > 2 ** 40:
        return None
    if x == 0 and math.copysign(1.0, x) < 0:
        return 'HNegZero'
    return '(HV %s)' % zlit(int(k))


def fres_table(tokens):
    tbl = {}
    for t in tokens:
        try:
            x = float(t)
        except ValueError:
            tbl[t] = None
            continue
        h = hval_term(x)
        tbl[t] = 'FOther' if h is None else '(FHalf %s)' % h
    return tbl


def fres_table_term(tbl):
    return coq_list('(%s, %s)' % (zs(k), 'None' if v is None else '(Some %s)' % v)
                    for k, v in sorted(tbl.items()))


def cval_term(v):
    if isinstance(v, bool):
        raise TypeError(v)
    if isinstance(v, int):
        return '(CInt %s)' % zlit(v)
    if isinstance(v, str):
        return '(CStr %s)' % zs(v)
    h = hval_term(v)
    if h is None:
        raise ValueError('float register value outside the modelled grid: %r' % (v,))
    return '(CFlt %s)' % h


def db_board_term(b):
    atts = []
    for x in b['ATT']:
        h = hval_term(float(x))
        if h is None:
            raise ValueError('ATT outside the 0.5 grid: %r' % (x,))
        atts.append(h)
    return ('{| b_status := %s; b_cfg := %s; b_reg := %s; b_att := %s; b_amp := %s; b_eq := %s; '
            'b_bpf := %s; b_v5 := %s; b_v3 := %s; b_t0 := %s; b_firm := %s |}'
            % (zlit(b['Status']), zs(b['Configuration']), zlist(b['REG']), coq_list(atts),
               coq_list(cval_term(v) for v in b['AMP']), coq_list(cval_term(v) for v in b['EQ']),
               coq_list(cval_term(v) for v in b['BPF']), zs(str(b['5V'])), zs(str(b['3V3'])),
               zs(str(b['T0'])), zs(str(b['FIRM']))))


class Dbesm:
    """one real dbesm.System, stdout swallowed, random registers seeded, obs_mode made instance state"""

    def __init__(self, rng):
        import random as _random
        import numpy
        import simulators.dbesm as db
        self.db = db
        _random.seed(rng.randrange(2 ** 32))
        numpy.random.seed(rng.randrange(2 ** 32))
        with quiet():
            self.system = db.System()
        self.modes0 = class_literal(db.__file__, 'System', 'obs_mode')
        # obs_mode is a class attribute mutated in place (finding F21, owned by Shr): give this
        # instance its own pristine copy so that cases cannot influence one another
        self.system.obs_mode = list(self.modes0)
        self.boards0 = [db_board_term(b) for b in self.system.boards]

    def feed(self, data):
        outs = []
        with quiet():
            for ch in data:
                outs.append(classify(self.system, ch))
        return outs

    def boards_term(self):
        return coq_list(db_board_term(b) for b in self.system.boards)

    def modes_term(self):
        return coq_list(zs(m) for m in self.system.obs_mode)


def db_tokens(data):
    toks = set()
    line = ''
    for ch in data + '\n':
        if ch == '\n':
            for x in line[:-1].split(' '):
                toks.add(x.strip())
            line = ''
        else:
            line += ch
    return toks


DB_OUTPUTS = ['1_DBBC2', 'prova', 'SARDA_01', 'prova2', 'Space_Debris', 'SARDA_14', 'nothing', 'PROVA']
DB_MODES = ['MF20_1s', 'MF10_2s', 'DF_8s', '3-Band_1s', '3-Band', 'MFS_7', 'FOO', 'BAR', 'default', 'x']
DB_FLOATS = ['0', '1', '0.0', '1.0', '0.5', '31.5', '32', '31', '15.5', '7', '3', '-0', '-0.0', '1e0', '0.3',
             'nan', 'inf', '-1', '2', 'x', '', '1.', '.5', '+1', '16.0', '00', '1_0', '0x1', '1e400', '-0.5']
DB_BOARDS = ['1', '2', '3', '4', '1', '2', '3', '4', '0', '5', '-1', 'x', '', '01', '+2', '1.0', '4 ']
DB_ALPHABET = list('DBE SETAMPQFGCRealIOVU0123456789.-+_\r\n\tabx')


def db_command(rng):
    b = rng.choice(DB_BOARDS)
    k = rng.randrange(30)
    if k < 3:
        return 'DBE SETATT %s BOARD %s VALUE %s' % (rng.choice([str(i) for i in range(17)] + ['17', '-1', 'a', '']),
                                                   b, rng.choice(DB_FLOATS + ['%g' % (rng.randrange(64) / 2)] * 30))
    if k < 5:
        return 'DBE SETAMP %s BOARD %s VALUE %s' % (rng.choice([str(i) for i in range(1, 11)] + ['0', '11', 'q']),
                                                   b, rng.choice(DB_FLOATS + ['0', '1'] * 15))
    if k < 7:
        return 'DBE SETEQ %s BOARD %s VALUE %s' % (rng.choice([str(i) for i in range(1, 11)] + ['0', '11', '']),
                                                  b, rng.choice(DB_FLOATS + ['0', '1'] * 15))
    if k < 9:
        return 'DBE SETBPF %s BOARD %s VALUE %s' % (
            rng.choice(['2', '3', '4', '5', '6', '7', '8', '9', '10', '1a', '1b'] * 3
                       + ['1', '11', 'a1', '1aa', 'a', '1a2', '1c', '', '12b', '\xb2', '1\xe9', '0', '2.5', '-']),
            b, rng.choice(DB_FLOATS + ['0', '1'] * 15))
    if k < 11:
        return 'DBE SETSTATUS BOARD %s VALUE %s' % (b, rng.choice(['0', '1', '2', '0', '0', '1', '-1', '5', 'x',
                                                                   '', '1.0', '-3', '99']))
    if k == 11:
        return 'DBE MODE BOARD %s %s' % (b, rng.choice(DB_MODES))
    if k == 12:
        return 'DBE SETALLMODE %s' % rng.choice(DB_MODES)
    if k == 13:
        return 'DBE STOREALLMODE %s' % rng.choice(DB_MODES)
    if k == 14:
        return 'DBE DELETEFILE %s' % rng.choice(DB_MODES)
    if k == 15:
        return 'DBE GETSTATUS BOARD %s' % b
    if k == 16:
        return 'DBE GETCOMP BOARD %s' % b
    if k == 17:
        return 'DBE GETCFG'
    if k == 18:
        return 'DBE ReadDIAG BOARD %s' % b
    if k == 19:
        return 'DBE ReadALLDIAG'
    if k == 20:
        return 'DBE GETFIRM BOARD %s' % b
    if k == 21:
        return 'DBE SETDBEATT %s %s' % (rng.choice(DB_OUTPUTS), rng.choice(DB_FLOATS + ['+3', '-3'] * 8
                                                                          + ['%g' % (rng.randrange(64) / 2)] * 10))
    if k == 22:
        return 'DBE GETDBEATT %s' % rng.choice(DB_OUTPUTS)
    if k == 23:
        r = rng.choice(['AMP', 'EQ', 'BPF'])
        return 'DBE SETDBE%s %s %s' % (r, rng.choice(DB_OUTPUTS), rng.choice(DB_FLOATS + ['0', '1'] * 10))
    if k == 24:
        return 'DBE GETDBE%s %s' % (rng.choice(['AMP', 'EQ', 'BPF']), rng.choice(DB_OUTPUTS))
    if k == 25:
        return rng.choice(['DBE', 'FBCB', 'FBCB GETCFG', 'DBE FOO', 'XYZ GETCFG', '', ' ', 'DBE  GETCFG', 'dbe getcfg',
                           'DBE GETCFG 1', 'DBE ReadALLDIAG x', 'DBE GETSTATUS 1', 'DBE GETSTATUS BOARD',
                           'DBE GETSTATUS board 1', 'DBE SETSTATUS 1 2 3 4', 'DBE SETSTATUS a b c',
                           'DBE SETATT 1 BOARD 1 VALUE', 'DBE SETATT 1 board 1 VALUE 1', 'DBE SETATT 1 BOARD 1 value 1',
                           'DBE MODE BOARD 1', 'DBE MODE X 1 MFS_7', 'DBE SETALLMODE', 'DBE STOREALLMODE a b',
                           'DBE DELETEFILE', 'DBE SETDBEATT prova', 'DBE GETDBEATT', 'DBE GETDBEAMP a b',
                           'DBE SETDBEAMP prova', 'DBE GETFIRM 1 1', 'DBE GETCOMP', 'DBE ReadDIAG'])
    if k == 26:
        return 'DBE SETSTATUS BOARD %s VALUE %s' % (rng.choice(['1', '2', '3', '4']), rng.choice(['1', '0', '2', '-1']))
    if k == 27:
        return 'DBE GETCOMP BOARD %s' % rng.choice(['1', '2', '3', '4'])
    if k == 28:
        return 'DBE GETSTATUS BOARD %s' % rng.choice(['1', '2', '3', '4'])
    return 'DBE SETATT %d BOARD %d VALUE %g' % (rng.randrange(17), rng.randrange(1, 5), rng.randrange(64) / 2)


def db_status_scenario(rng):
    """one board made unreachable / sensor-less / unavailable, then written and queried"""
    b = rng.randrange(1, 5)
    st = rng.choice(['1', '1', '1', '2', '-1', '7'])
    lines = ['DBE SETSTATUS BOARD %d VALUE %s' % (b, st)]
    for _ in range(rng.randrange(1, 5)):
        lines.append(rng.choice([
            'DBE SETATT %d BOARD %d VALUE %g' % (rng.randrange(17), b, rng.randrange(64) / 2),
            'DBE SETAMP %d BOARD %d VALUE %d' % (rng.randrange(1, 11), b, rng.randrange(2)),
            'DBE SETEQ %d BOARD %d VALUE %d' % (rng.randrange(1, 11), b, rng.randrange(2)),
            'DBE SETBPF %s BOARD %d VALUE %d' % (rng.choice(['1a', '1b', '2', '10']), b, rng.randrange(2)),
            'DBE MODE BOARD %d %s' % (b, rng.choice(DB_MODES)),
            'DBE SETALLMODE %s' % rng.choice(DB_MODES), 'DBE STOREALLMODE %s' % rng.choice(DB_MODES),
            'DBE SETDBEATT %s %s' % (rng.choice(DB_OUTPUTS), rng.choice(['+3', '-3', '7.5'])),
            'DBE SETDBEAMP %s %d' % (rng.choice(DB_OUTPUTS), rng.randrange(2)),
            'DBE GETDBEATT %s' % rng.choice(DB_OUTPUTS), 'DBE GETDBEEQ %s' % rng.choice(DB_OUTPUTS),
            'DBE GETSTATUS BOARD %d' % b, 'DBE GETCOMP BOARD %d' % b, 'DBE ReadDIAG BOARD %d' % b,
            'DBE GETFIRM BOARD %d' % b, 'DBE GETCFG', 'DBE ReadALLDIAG']))
    if rng.random() < 0.5:
        lines.append('DBE SETSTATUS BOARD %d VALUE 0' % b)
    return ''.join(x + '\r\n' for x in lines)


def db_stream(rng, ncmd, corrupt=0.12):
    out = ''
    for _ in range(ncmd):
        if rng.random() < 0.12:
            out += db_status_scenario(rng)
        line = db_command(rng)
        r = rng.random()
        if r < corrupt:
            line = mutate(rng, line, DB_ALPHABET)
        elif r < corrupt + 0.03:
            line = garbage(rng, rng.randrange(1, 12))
        out += line + rng.choice(['\r\n'] * 8 + ['\n', '\r\r\n', ' \n', 'X\n'])
    return out


def db_case_term(rng, data):
    d = Dbesm(rng)
    outs = d.feed(data)
    toks = db_tokens(data)
    term = ('DBCase %s %s %s %s %s %s %s %s'
            % (coq_list(d.boards0), coq_list(zs(m) for m in d.modes0), int_table_term(int_table(toks)),
               fres_table_term(fres_table(toks)), zs(data), coq_list(outcome_term(o) for o in outs),
               d.boards_term(), d.modes_term()))
    return term, outs, d


# ---------------------------------------------------------------------------
# mscu

MS_KNOWN = ['getpos', 'getappstatus', 'getstatus', 'setpos', 'setup', 'stow', 'disable', 'clean', 'getspar',
            'setsdatbitb16']
MS_OTHER = ['ctime', 'stop', 'id', 'name', 'axes', 'stow_position', 'history', 'dc', 'setpos_NAK', 'dc_thread']
MS_AXES = {0: 3, 1: 6, 2: 1, 3: 1}


def pval_term(v):
    if isinstance(v, bool):
        raise TypeError(v)
    if isinstance(v, int):
        return '(PInt %s)' % zlit(v)
    return '(PFlt %s)' % zlit(f64_bits(float(v)))


class Mscu:
    """one real mscu.System under a virtual clock; Timer replaced by the recording fake"""

    def __init__(self, rng):
        import simulators.mscu as ms
        import simulators.mscu.servo as sv
        self.ms, self.sv = ms, sv
        self.rng = rng
        self.clock = VClock(1700000000.0 + rng.randrange(0, 10 ** 6) / 8.0)
        self.patch = dict(time=types.SimpleNamespace(time=self.clock.time, sleep=self.clock.sleep),
                          Timer=FakeTimer)
        self.msgs = []
        with patched(sv, **self.patch):
            self.system = ms.System()
            self.t0 = sv.Servo.ctime()
        orig = self.system._parse

        self.ever_outside = False

        def recording_parse(msg):
            self.msgs.append(msg)
            if msg[1:3] == '__':          # getattr would reach object internals (see Model/SmcMscu.v)
                self.ever_outside = True
            try:
                return orig(msg)
            finally:
                # a non-int time stamp may be removed again by a later clean: latch it now
                if not self._hist_in_domain():
                    self.ever_outside = True
        self.system._parse = recording_parse
        self.evs = []
        self.outs = []

    def now(self):
        with patched(self.sv, **self.patch):
            return self.sv.Servo.ctime()

    def feed(self, data):
        with patched(self.sv, **self.patch):
            for ch in data:
                self.evs.append('(EByte %d)' % ord(ch))
                self.outs.append(classify(self.system, ch))

    def tick(self, dt):
        self.clock.t += dt
        self.evs.append('(ETick %s)' % zlit(self.now()))
        self.outs.append(('T',))

    def set_nak(self, v):
        if v:
            self.system.system_setpos_NAK()
        else:
            self.system.system_setpos_ACK()
        self.evs.append('(ENak %s)' % blit(v))
        self.outs.append(('T',))

    def close(self):
        with patched(self.sv, **self.patch):
            self.system.system_stop()

    def _hist_in_domain(self):
        return all(isinstance(e[0], int) and not isinstance(e[0], bool)
                   for s in self.system.servos.values() for e in s.history.history)

    def in_domain(self):
        """no request so far left the modelled domain (see Model/SmcMscu.v): every history time stamp
        ever stored was an int, no command name began with '__'"""
        return not self.ever_outside and self._hist_in_domain()

    def final_term(self):
        items = []
        for a in sorted(self.system.servos):
            s = self.system.servos[a]
            h = coq_list('(%s, %s)' % (zlit(e[0]), coq_list(pval_term(v) for v in e[1:])) for e in s.history.history)
            items.append('(%s, %s)' % (h, zlit(s.dc.cab_state.value)))
        return coq_list(items)

    def tables(self):
        ints, ints16, floats, reprs = {}, {}, {}, {}

        def conv(tbl, tok, f):
            if tok not in tbl:
                try:
                    tbl[tok] = f(tok)
                except ValueError:
                    tbl[tok] = None

        for m in self.msgs:
            body = m[1:].rstrip()
            for part in body.split('='):
                for piece in part.split(':'):
                    conv(ints, piece, int)
                for piece in part.split(','):
                    p = piece.strip()
                    conv(ints, p, int)
                    conv(ints16, p, lambda t: int(t, 16))
                    conv(floats, p, float)
        import re
        texts = [o[1] for o in self.outs if o[0] == 'R']
        cands = set()
        for t in texts:
            cands.update(x for x in re.split(r'[,\r\n> =:]', t) if x)
        for x in floats.values():
            if x is not None:
                cands.add(repr(x))
        for c in cands:
            try:
                x = float(c)
            except ValueError:
                continue
            if repr(x) == c:
                reprs[f64_bits(x)] = c
        ftbl = {k: (None if v is None else f64_bits(v)) for k, v in floats.items()}
        return (int_table_term(ints), int_table_term(ints16), int_table_term(ftbl),
                coq_list('(%s, %s)' % (zlit(b), zs(t)) for b, t in sorted(reprs.items())))

    def case_term(self):
        i, i16, f, r = self.tables()
        return ('MSCase %s %s %s %s %s %s %s %s'
                % (zlit(self.t0), i, i16, f, r, coq_list(self.evs),
                   coq_list(outcome_term(o) for o in self.outs), self.final_term()))


MS_NUMS = ['0', '1', '5', '-3', '100', '1.5', '-0.25', '0.0', '2730.15', '0x1F', '-0x10', '1e3', '', ' 7 ', 'x',
           '1.', '.5', 'nan', 'inf', '1250', '1240', '1_0', '0.1', '3.3', '1e400', '12345678901234567890']
MS_ALPHABET = list('#!?@getposauclnidwb:=,.0123456789x- \r\n\t_')


def ms_frame(rng, d):
    """one MSCU frame (header .. closer), mostly valid; d gives the current time"""
    hdr = rng.choice('#!?@')
    a = rng.choice([0, 1, 2, 3, 0, 1, 2, 3, 1, 1, 4, -1])
    addr = str(a) if rng.random() < 0.93 else rng.choice(['1.0', '0x1', ' 2 ', '', 'a', '7', '0.0', '01'])
    num = rng.choice(['0', '1', '7', '42', '-1', '00', ' 3', 'x', '', '1.0'] + ['0'] * 10)
    k = rng.randrange(22)
    closer = rng.choice(['\r\n'] * 6 + ['\n\r', ' \r\n', '\r\r\n'])
    now = d.now()
    axes = MS_AXES.get(a, 1)

    def val():
        r = rng.random()
        if r < 0.5:
            return str(rng.randrange(-200, 3000))
        if r < 0.8:
            return repr(rng.randrange(-20000, 20000) / rng.choice([8.0, 10.0, 100.0, 3.0]))
        return rng.choice(MS_NUMS)
    if k < 4:
        body = '%s:%s=%s' % (rng.choice(['getpos', 'getpos', 'getstatus', 'getappstatus']), num, addr)
        if rng.random() < 0.05:
            body += ',1'
    elif k < 10:
        n = axes + 3 if rng.random() < 0.85 else rng.choice([axes + 2, axes + 4, 0, 1])
        r = rng.random()
        if r < 0.3:
            ts = '0'
        elif r < 0.6:
            ts = str(now - rng.randrange(0, 10 ** 9))
        elif r < 0.93:
            ts = str(now + rng.randrange(1, 10 ** 9))
        else:
            ts = rng.choice(['0.0', '-5', '1', str(now), '%d.0' % now, '1.5', 'nan.', '0x10', str(10 ** 400)])
        ps = [ts] + [val() for _ in range(max(0, n - 1))] if n else []
        body = 'setpos:%s=%s' % (num, ','.join([addr] + ps))
    elif k < 15:
        c = rng.choice(['setup', 'stow', 'disable', 'clean', 'clean', 'stow', 'setsdatbitb16'])
        ps = [val() for _ in range(rng.choice([0, 0, 0, 1, 2]))]
        body = '%s:%s=%s' % (c, num, ','.join([addr] + ps))
    elif k < 17:
        ps = rng.choice([['1250', '0'], ['1240', '0'], ['1250.0', '0.0'], ['1', '2'], ['5', '1250', '0'], ['1250'],
                         [], ['0x4E2', '-0.0'], ['1240', '1']])
        body = 'getspar:%s=%s' % (num, ','.join([addr] + ps))
    elif k < 19:
        body = '%s:%s=%s' % (rng.choice(MS_OTHER + ['foo', '', 'GETPOS', 'getpos ', 'set pos']), num, addr)
    else:
        body = rng.choice(['getpos', 'getpos:0', 'getpos=1', 'getpos:0=1=2', 'a:b:c=1', ':=', '=', ':0=', 'getpos:0=',
                           'getpos:0=,', 'getpos:0=1,', 'getpos:0=1,,', 'stow:0=1,a', 'getpos:=1', ''])
    return hdr + body + closer


def ms_clean_scenario(rng, d):
    """past and future-dated positions on one servo, then clean, then read back"""
    a = rng.randrange(4)
    axes = MS_AXES[a]
    now = d.now()
    for _ in range(rng.randrange(1, 4)):
        ts = now + rng.choice([-1, 1, 1, 1]) * rng.randrange(1, 10 ** 8)
        vals = [str(rng.randrange(-100, 100)) for _ in range(axes + 2)]
        d.feed('#setpos:0=%d,%d,%s\r\n' % (a, ts, ','.join(vals)))
    if rng.random() < 0.5:
        d.tick(rng.choice([0.5, 3.0, 20.0]))
    d.feed('#getpos:1=%d\r\n' % a)
    d.feed('#clean:2=%d\r\n' % a)
    d.feed('#getpos:3=%d\r\n' % a)
    if rng.random() < 0.5:
        d.feed('#clean:4=%d\r\n#getstatus:5=%d\r\n' % (a, a))


def ms_history(rng, nframes, corrupt=0.12):
    """build and run one MSCU history; returns the driver"""
    d = Mscu(rng)
    for _ in range(nframes):
        r = rng.random()
        if r < 0.25:
            d.tick(rng.choice([0.125, 1.0, 3.5, 60.0, 0.5, 100.0, 0.0]))
        elif r < 0.28:
            d.set_nak(rng.random() < 0.6)
        f = ms_frame(rng, d)
        r = rng.random()
        if r < corrupt:
            f = mutate(rng, f, MS_ALPHABET)
        elif r < corrupt + 0.04:
            f = garbage(rng, rng.randrange(1, 10)) + rng.choice(['', '\r\n', '#', '\n\r'])
        d.feed(f)
    d.close()
    return d


# ---------------------------------------------------------------------------
# uniform view of the three simulators for the parts

class Sim:
    name = ''
    imports = ''
    ctype = ''
    term = '\r\n'

    def __init__(self, rng, clock_from=None):
        raise NotImplementedError


class TPSim:
    name = 'totalpower'
    imports = 'From DS Require Import Model.SmcBase Model.SmcTotalpower Corr.SmcTotalpowerCorr.'
    ctype = 'tp_case'
    term = '\n'
    safe_pieces = ['?', 'V', 'R', 'E 1 2', 'E 1', 'A 1 B', 'A 1 B 3', 'I B', 'X 1 2', 'N', 'S', 'M', 'Z', 'T 1',
                   'A 99 B 1 1', 'I Q 1 1', 'N 7', 'foo', 'q x']
    safe_alphabet = list('?EVR 0123456789xyz,.-\t')
    probe = '?\n'
    queries = ['?', 'V', 'R', 'E 12 5', 'E 0 0', '? ', ' ?', 'R 1 2', 'V 3']
    non_start = ['\n', '\r']

    def __init__(self, rng, like=None):
        self.channels = like.channels if like else rng.choice([4, 14, 1, 2])
        self.d = TotalPower(self.channels, rng)
        if like:
            self.d.clock.t = like.d.clock.t
        self.system = self.d.system
        self.data = ''
        self.outs = []

    def feed(self, data):
        o = self.d.feed(data)
        self.data += data
        self.outs += o
        return o

    def sync_clock(self, other):
        self.d.clock.t = other.d.clock.t

    def snap(self):
        return self.d.snapshot()

    def case_term(self):
        d = self.d
        tbl = int_table(tp_tokens(self.data))
        return ('TPCase %s %s %s %s %s %s %s'
                % (natlit(self.channels), int_table_term(tbl),
                   coq_list('(%s, %s, %s)' % tuple(zlit(x) for x in t) for t in d.tms),
                   zlist(d.rnds), zs(self.data), coq_list(outcome_term(o) for o in self.outs),
                   d.snapshot_term()))

    def in_domain(self):
        return True

    def stream(self, rng, n, corrupt):
        return tp_stream(rng, self.channels, n, corrupt)

    def close(self):
        pass


class DBSim:
    name = 'dbesm'
    imports = 'From DS Require Import Model.SmcBase Model.SmcDbesm Corr.SmcDbesmCorr.'
    ctype = 'db_case'
    term = '\r\n'
    safe_pieces = ['DBE GETCFG', 'DBE GETSTATUS BOARD 1', 'DBE SETATT 1 BOARD', 'DBE SETSTATUS BOARD 1', 'DBE MODE BOARD',
                   'DBE SETA', 'DB', 'FBCB X', 'DBE GETCOMP BOARD 9', 'DBE ReadALLDIAG', 'DBE SETATT 99 BOARD 1 VALUE 1',
                   'DBE SETAMP 1 BOARD 1 VALUE 7', 'DBE DELETEFILE nofile', 'DBE MODE BOARD 1 nomode']
    safe_alphabet = list('DBEGTCFS 0123\r\t.')
    probe = 'DBE GETCFG\r\n'
    queries = (['DBE GETSTATUS BOARD %d' % b for b in (1, 2, 3, 4)] + ['DBE GETCOMP BOARD %d' % b for b in (1, 2, 3, 4)]
               + ['DBE ReadDIAG BOARD %d' % b for b in (1, 2, 3, 4)] + ['DBE GETFIRM BOARD %d' % b for b in (1, 2, 3, 4)]
               + ['DBE GETCFG', 'DBE ReadALLDIAG']
               + ['DBE GETDBE%s %s' % (r, o) for r in ('ATT', 'AMP', 'EQ', 'BPF')
                  for o in ('1_DBBC2', 'prova', 'SARDA_01', 'prova2', 'Space_Debris', 'SARDA_14')])
    non_start = ['\n']

    def __init__(self, rng, like=None):
        self.d = Dbesm(rng)
        self.system = self.d.system
        self.data = ''
        self.outs = []

    def feed(self, data):
        o = self.d.feed(data)
        self.data += data
        self.outs += o
        return o

    def sync_clock(self, other):
        pass

    def snap(self):
        return (self.d.boards_term(), self.d.modes_term())

    def case_term(self):
        d = self.d
        toks = db_tokens(self.data)
        return ('DBCase %s %s %s %s %s %s %s %s'
                % (coq_list(d.boards0), coq_list(zs(m) for m in d.modes0), int_table_term(int_table(toks)),
                   fres_table_term(fres_table(toks)), zs(self.data), coq_list(outcome_term(o) for o in self.outs),
                   d.boards_term(), d.modes_term()))

    def in_domain(self):
        return True

    def stream(self, rng, n, corrupt):
        return db_stream(rng, n, corrupt)

    def close(self):
        pass


class MSSim:
    name = 'mscu'
    imports = 'From DS Require Import Model.SmcBase Model.SmcMscu Corr.SmcMscuCorr.'
    ctype = 'ms_case'
    term = '\r\n'
    safe_pieces = ['#getpos:0=1', '?getstatus:0=', '#setpos:0=1,0,0', '@stow:0', '!getappstatus:3=2', '#getspar:1=0,1250,0',
                   '#foo:0=1', '#getpos:x=1', '#getpos:0=9', 'getpos:0=1', '#', '#=', '#:=,']
    safe_alphabet = list('gtao:=,0123#?!@ \t.x-')
    probe = '#getstatus:7=1\r\n'
    queries = (['#getpos:%d=%d' % (n, a) for a in range(4) for n in (0, 42)]
               + ['?getstatus:%d=%d' % (n, a) for a in range(4) for n in (0, 3)]
               + ['!getappstatus:0=%d' % a for a in range(4)]
               + ['@getspar:0=%d,1250,0' % a for a in range(4)] + ['#getspar:5=1,1240,0', '#getspar:5=2,7,7', '#getspar:1=3'])
    non_start = [chr(c) for c in range(256) if chr(c) not in '#!?@']

    def __init__(self, rng, like=None):
        self.d = Mscu(rng)
        if like:
            raise NotImplementedError
        self.system = self.d.system

    @property
    def outs(self):
        return self.d.outs

    def feed(self, data):
        n = len(self.d.outs)
        self.d.feed(data)
        return self.d.outs[n:]

    def sync_clock(self, other):
        pass

    def snap(self):
        return self.d.final_term()

    def case_term(self):
        return self.d.case_term()

    def in_domain(self):
        return self.d.in_domain()

    def close(self):
        self.d.close()


SIMS = {'totalpower': TPSim, 'dbesm': DBSim, 'mscu': MSSim}


def make_history(rng, S, kind, n):
    """run one history of the given kind on a fresh instance of S; returns the Sim"""
    s = S(rng)
    if S is MSSim:
        d = s.d
        for _ in range(n):
            r = rng.random()
            if r < 0.25:
                d.tick(rng.choice([0.125, 1.0, 3.5, 60.0, 0.5, 100.0, 0.0]))
            elif r < 0.28:
                d.set_nak(rng.random() < 0.6)
            if kind != 'framing' and rng.random() < 0.12:
                ms_clean_scenario(rng, d)
            if kind == 'framing':
                f = framing_piece(rng, S)
            else:
                f = ms_frame(rng, d)
                r = rng.random()
                if r < 0.12:
                    f = mutate(rng, f, MS_ALPHABET)
                elif r < 0.16:
                    f = garbage(rng, rng.randrange(1, 10)) + rng.choice(['', '\r\n', '#', '\n\r'])
            d.feed(f)
        if kind == 'queries':
            d.feed(rng.choice(['\r\n', '\n\r']))
            qs = list(S.queries)
            rng.shuffle(qs)
            for q in qs[:10]:
                d.feed(q + rng.choice(['\r\n', '\n\r']))
        return s
    if kind == 'framing':
        data = ''.join(framing_piece(rng, S) for _ in range(n))
    else:
        data = s.stream(rng, n, 0.12)
    if kind == 'queries':
        data += S.term
        qs = list(S.queries)
        rng.shuffle(qs)
        data += ''.join(q + S.term for q in qs[:10])
    s.feed(data)
    return s


def framing_piece(rng, S):
    """truncated / corrupted / nested-header material for the framers"""
    r = rng.random()
    if S is MSSim:
        base = rng.choice(S.safe_pieces + S.queries)
        closer = rng.choice(['\r\n', '\n\r', '\r\n', '', '\r', '\n', '\r\r\n', '\n\n\r'])
    else:
        base = rng.choice(S.safe_pieces + S.queries)
        closer = rng.choice([S.term, S.term, '', '\r', '\n', '\r\n', '\n\r'])
    if r < 0.25:
        base = base[:rng.randrange(len(base) + 1)]
    elif r < 0.45:
        base = mutate(rng, base, S.safe_alphabet + ['\r', '\n'])
    elif r < 0.6:
        base = garbage(rng, rng.randrange(0, 12))
    elif r < 0.7:
        base = base[:rng.randrange(len(base) + 1)] + rng.choice(S.safe_pieces)     # nested start
    return base + closer


def run_corr(ctx, S, kind, n_quick, n_thorough, maxlen=20):
    """generate histories of one kind, run them on the implementation, let Coq compare with the model"""
    rng = ctx.rng
    cases = []
    n = ctx.n(n_quick, n_thorough)
    skipped = 0
    for _ in range(n):
        s = make_history(rng, S, kind, rng.randrange(1, maxlen))
        s.close()
        if not s.in_domain():
            skipped += 1
            ctx.count('%s:%s:outside-modelled-domain' % (S.name, kind))
            continue
        cases.append(s.case_term())
        classes = set(o[0] for o in s.outs)
        for k in classes:
            ctx.count('%s:%s:outcome-%s' % (S.name, kind, k))
        if classes & {'R', 'V', 'X', 'F'}:
            ctx.nontriv((S.name, kind, tuple(s.outs)))
    for c in cases[:1]:
        ctx.sample(c[:600])
    shard = {'mscu': 12, 'dbesm': 16, 'totalpower': 25}[S.name]
    return ctx.run_cases('%s_%s' % (S.name, kind), S.imports, S.ctype, 'ok', cases, show='show', shard=shard)


# ---------------------------------------------------------------------------
# property-level oracles on the implementation

def hexs(s):
    return s.encode('latin-1').hex()


def safe_history(rng, S, n):
    """bytes that cannot change the device state.  Every chunk is a complete line / frame of its own:
    a query, a refused command, a prefix of one of those, or garbage over an alphabet from which no
    state-changing command can be spelled - and EVERY chunk but the last is closed by a real terminator
    of the protocol, so that two harmless chunks can never concatenate into a valid write (a truncated
    'DBE SETSTATUS BOARD 1' followed by garbage ' 1', 'S' followed by ' 56', '#setpos:0=1,0,0'
    followed by ',0,0,0,0,0,0').  The last chunk is left open; the caller's terminator closes it."""
    if S is TPSim:
        terms = ['\n', '\r', '\r\n']
    elif S is DBSim:
        terms = ['\n', '\r\n', '\r\r\n']          # a lone \r does not terminate a dbesm line
    else:
        terms = ['\r\n', '\n\r']
    out = ''
    for k in range(n):
        r = rng.random()
        if r < 0.4:
            p = rng.choice(S.safe_pieces)
        elif r < 0.6:
            p = rng.choice(S.safe_pieces)
            p = p[:rng.randrange(len(p) + 1)]
        else:
            p = garbage(rng, rng.randrange(1, 14), S.safe_alphabet)
        out += p + (rng.choice(terms) if k < n - 1 else '')
    return out


def oracle_c03(ctx, S):
    """after any history the terminator leaves the framer idle; idle discards what cannot start a command;
    the next command is answered as on a fresh parser"""
    rng = ctx.rng
    n = ctx.n(120, 1500)
    checked = 0
    for _ in range(n):
        s = S(rng)
        h = safe_history(rng, S, rng.randrange(0, 8))
        if S is MSSim:
            term = rng.choice(['\r\n', '\n\r'])
        elif S is TPSim:
            term = rng.choice(['\n', '\r'])
        else:
            term = '\n'
        w = dict(sim=S.name, kind='c03', history=hexs(h), term=hexs(term))
        snap0 = s.snap()
        s.feed(h + term)
        checked += 1
        if s.system.msg != '':
            ctx.fail('%s_not_idle_after_terminator' % S.name, 'receive buffer not empty after the terminator', w)
            s.close()
            continue
        b = rng.choice(S.non_start)
        snap1 = s.snap()
        o = s.feed(b)[0]
        expect = ('R', 'NAK unknown command\r\n') if S is DBSim else ('F',)
        if o != expect or s.system.msg != '' or s.snap() != snap1:
            ctx.fail('%s_idle_does_not_discard' % S.name, 'idle parser did not discard a byte that cannot start a command',
                     dict(w, byte=ord(b), got=repr(o)))
        if snap1 != snap0:
            ctx.fail('%s_safe_history_changed_state' % S.name, 'refused / truncated input changed the device state', w)
        # probe: same answer as a fresh instance with the same initial registers and clock
        if S is MSSim:
            probe = S.probe
            o1 = s.feed(probe)
            rep = o1[-1]
            now = s.d.now()
            want_prefix = '?getstatus:7=1> %d,4,FFFF,3,' % now
            ok = rep[0] == 'R' and rep[1].startswith(want_prefix) and all(x == ('T',) for x in o1[:-1])
        else:
            o1 = s.feed(S.probe)
            rep = o1[-1]
            if S is TPSim:
                f = S(rng, like=s)
                o2 = f.feed(S.probe)
                # the time triple is an input: compare everything after the third field
                ok = (rep[0] == 'R' and o2[-1][0] == 'R'
                      and rep[1].split(' ')[3:] == o2[-1][1].split(' ')[3:])
            else:
                ok = rep == ('R', 'ACK\nBOARD 1 default\n\nBOARD 2 default\n\nBOARD 3 default\n\nBOARD 4 default\r\n')
            ok = ok and all(x == ('T',) for x in o1[:-1])
        if not ok:
            ctx.fail('%s_probe_after_resync' % S.name, 'probe query after resynchronisation not answered as on a fresh parser',
                     dict(w, got=repr(rep)))
        s.close()
    ctx.oracle_stats['%s_c03_checked' % S.name] = checked
    ctx.evaluations += checked


def replay_c03(ctx, obj, S):
    w = obj.get('witness', {})
    if w.get('sim') != S.name or w.get('kind') != 'c03':
        return False
    s = S(ctx.rng)
    s.feed(bytes.fromhex(w['history']).decode('latin-1') + bytes.fromhex(w['term']).decode('latin-1'))
    bad = s.system.msg != ''
    s.close()
    return bad


# ---------------------------------------------------------------------------
# C02 / C04 / C05 oracles

def _queries_answered(ctx, S, s, w, qs):
    """feed each query (with terminator) and require T..T R"""
    for q in qs:
        term = S.term if S is not MSSim else '\r\n'
        o = s.feed(q + term)
        ctx.evaluations += 1
        last = o[-1]
        if last[0] != 'R' or any(x != ('T',) for x in o[:-1]):
            kind = last[1] if last[0] == 'X' else last[0]
            ctx.fail('%s_query_%s' % (S.name, kind), 'catalogue query not answered with exactly one reply',
                     dict(w, query=hexs(q + term), got=repr(last)))
            return False
    return True


C02_DIRECTED = {
    'mscu': [('#clean:0=1\r\n#clean:0=1\r\n', '#getpos:0=1'),
             ('#setpos:0=2,%d,0,0,5\r\n' % (10 ** 400), '#getpos:0=2')],
    'dbesm': [('DBE SETSTATUS BOARD 1 VALUE -1\r\n', 'DBE ReadDIAG BOARD 1'),
              ('DBE SETSTATUS BOARD 4 VALUE -7\r\n', 'DBE ReadALLDIAG')],
    'totalpower': [('S 0\nX 0 1 1 h 5\nresume\n', '?')],
}


def oracle_c02(ctx, S):
    rng = ctx.rng
    n = ctx.n(40, 600)
    for hist, q in C02_DIRECTED[S.name]:
        s = S(rng)
        s.feed(hist)
        _queries_answered(ctx, S, s, dict(sim=S.name, kind='c02', history=hexs(hist)), [q])
        s.close()
    if S is MSSim and not ctx.quick():
        # the bound of C02_mscu_reachable_invariant is tight: 2^15 future-dated setpos push the
        # initial entries out of the window, clean then empties the history (about 25 s, thorough only)
        s = S(rng)
        fut = s.d.now() + 10 ** 12
        with patched(s.d.sv, **s.d.patch):
            for i in range(2 ** 15):
                for ch in '#setpos:0=2,%d,0,0,5\r\n' % (fut + i):
                    s.system.parse(ch)
            for ch in '#clean:0=2\r\n':
                s.system.parse(ch)
            last = None
            for ch in '#getpos:0=2\r\n':
                last = classify(s.system, ch)
        ctx.evaluations += 1
        if last[0] != 'R':
            ctx.fail('mscu_history_emptied_after_2pow15_future_setpos',
                     'getpos not answered after 2^15 future-dated setpos and a clean',
                     dict(sim='mscu', kind='c02-deep', got=repr(last)))
        s.close()
    for _ in range(n):
        s = make_history(rng, S, 'general', rng.randrange(1, 16))
        if not s.in_domain():
            s.close()
            continue
        hist = s.data if S is not MSSim else None
        s.feed(S.term if S is not MSSim else rng.choice(['\r\n', '\n\r']))
        qs = list(S.queries)
        rng.shuffle(qs)
        w = dict(sim=S.name, kind='c02', history=hexs(hist) if hist is not None else 'events:' + ' '.join(s.d.evs))
        _queries_answered(ctx, S, s, w, qs[:12])
        s.close()


def replay_c02(ctx, obj, S):
    w = obj.get('witness', {})
    if w.get('sim') != S.name or w.get('kind') != 'c02' or w.get('history', '').startswith('events:'):
        return False
    s = S(ctx.rng)
    s.feed(bytes.fromhex(w['history']).decode('latin-1'))
    o = s.feed(bytes.fromhex(w['query']).decode('latin-1'))
    s.close()
    return o[-1][0] != 'R'


def oracle_c04(ctx, S):
    """every reply: terminator, single-byte code points, request identity where the protocol has one"""
    import re
    rng = ctx.rng
    n = ctx.n(40, 600)
    for _ in range(n):
        s = make_history(rng, S, rng.choice(['general', 'queries', 'framing']), rng.randrange(1, 16))
        s.close()
        reqs = list(s.d.msgs) if S is MSSim else None
        k = 0
        for o in s.outs:
            if o[0] != 'R':
                if S is MSSim and o[0] in ('V', 'X'):
                    pass
                continue
            r = o[1]
            ctx.evaluations += 1
            w = dict(sim=S.name, kind='c04', reply=hexs(r) if all(ord(c) < 256 for c in r) else repr(r))
            if any(ord(c) > 255 for c in r):
                ctx.fail('%s_reply_not_latin1' % S.name, 'reply has a code point above 255', w)
            if S is TPSim:
                if not (r.endswith('\n') or r == s.system.firmware_string):
                    ctx.fail('totalpower_reply_terminator', 'reply without line terminator', w)
            else:
                if not r.endswith('\r\n'):
                    ctx.fail('%s_reply_terminator' % S.name, 'reply does not end with CR LF', w)
            if S is MSSim:
                for line in r.split('\r\n')[:-1]:
                    if not re.match(r'^[?@!](NAK_)?[a-z0-9]+:-?\d+=\d', line):
                        ctx.fail('mscu_reply_identity', 'reply line does not start with name:number=address', w)
        if S is MSSim:
            # the reply to each completed request names the command, number and address of that request
            it = iter(s.d.msgs)
            for o in [x for x in s.outs if x[0] in ('R', 'V', 'X')]:
                m = next(it, None)
                if m is None or o[0] != 'R':
                    continue
                try:
                    body = m[1:].rstrip()
                    whole, ps = body.split('=')
                    name, num = whole.split(':')
                    head = '%s:%d=' % (name, int(num))
                except Exception:   # noqa
                    continue
                if head not in o[1]:
                    ctx.fail('mscu_reply_identity', 'reply does not echo command name and number of its request',
                             dict(sim='mscu', kind='c04', request=hexs(m), reply=hexs(o[1])))


def replay_generic(ctx, obj, S):
    return False


def _ack(S, o):
    if o[0] != 'R':
        return False
    if S is TPSim:
        return o[1] == 'ack\n'
    if S is DBSim:
        return o[1] == 'ACK\r\n'
    return o[1].startswith('?setpos') or o[1].startswith('?stow') or o[1].startswith('?clean')


def oracle_c05(ctx, S):
    rng = ctx.rng
    n = ctx.n(60, 800)
    if S is MSSim:
        corpus_c05_mscu(ctx)
    for _ in range(n):
        s = make_history(rng, S, 'general', rng.randrange(0, 10) + 1)
        if not s.in_domain():
            s.close()
            continue
        s.feed(S.term if S is not MSSim else '\r\n')
        pre = s.data if S is not MSSim else 'events:' + ' '.join(s.d.evs)
        before = s.snap()
        ctx.evaluations += 1
        if S is TPSim:
            b = rng.choice(list(range(1, s.channels + 1)) + [0, s.channels + 1])
            src = rng.choice(['B', 'P', 'G', 'Z', 'Q'])
            a = rng.choice(list(range(16)) + [16, -1])
            f = rng.choice([1, 2, 3, 4, 0, 5])
            cmd = 'A %d %s %d %d\n' % (b, src, a, f)
            o = s.feed(cmd)[-1]
            w = dict(sim=S.name, kind='c05', history=hexs(pre), write=hexs(cmd))
            if _ack(S, o):
                for _k in range(rng.randrange(0, 4)):
                    s.feed(rng.choice(['?\n', 'N 1\n', 'S 40\n', 'M 0\n', 'V\n', 'A %d B 1 1\n' % (b % s.channels + 1
                                       if s.channels > 1 else 99), 'garbage\n', 'A 1 B\n']))
                r = s.feed('?\n')[-1]
                fields = r[1].rstrip('\r\n').split(' ')[7:] if r[0] == 'R' else []
                want = [{'B': 'BWG', 'P': 'PRIM', 'G': 'GREG', 'Z': '50_OHM'}[src], str(a),
                        str({1: 2000, 2: 1250, 3: 730, 4: 300}[f])]
                if fields[3 * (b - 1):3 * b] != want:
                    ctx.fail('totalpower_readback', 'acknowledged A not read back by ?', dict(w, got=repr(r)))
            elif s.snap() != before:
                ctx.fail('totalpower_refused_write_changed_state', 'refused write changed the registers', w)
        elif S is DBSim:
            bn = rng.choice(['1', '2', '3', '4', '4', '0', '5', 'x'])
            kind = rng.choice(['ATT', 'AMP', 'EQ', 'BPF', 'STATUS', 'DBEAMP', 'DBEATT'])
            if kind == 'ATT':
                c = rng.choice([str(i) for i in range(17)] + ['17', '-1'])
                v = rng.choice(['%g' % (rng.randrange(64) / 2)] * 6 + ['32', '0.3', '-1', 'nan', 'x', '31.5', '0'])
                cmd = 'DBE SETATT %s BOARD %s VALUE %s\r\n' % (c, bn, v)
            elif kind in ('AMP', 'EQ'):
                c = rng.choice([str(i) for i in range(1, 11)] + ['0', '11'])
                v = rng.choice(['0', '1', '0', '1', '1.0', '2', '1e0', 'x', '-0', '+1', '0.5'])
                cmd = 'DBE SET%s %s BOARD %s VALUE %s\r\n' % (kind, c, bn, v)
            elif kind == 'BPF':
                c = rng.choice(['2', '3', '9', '10', '1a', '1b', '1', '11', 'a1'])
                v = rng.choice(['0', '1', '0', '1', '1.0', '2', 'x'])
                cmd = 'DBE SETBPF %s BOARD %s VALUE %s\r\n' % (c, bn, v)
            elif kind == 'STATUS':
                v = rng.choice(['0', '2', '1', 'x', '-1'])
                cmd = 'DBE SETSTATUS BOARD %s VALUE %s\r\n' % (bn, v)
            elif kind == 'DBEAMP':
                v = rng.choice(['0', '1'])
                cmd = 'DBE SETDBEAMP 1_DBBC2 %s\r\n' % v
            else:
                v = rng.choice(['%g' % (rng.randrange(64) / 2), '+3', '-3', '40'])
                cmd = 'DBE SETDBEATT SARDA_14 %s\r\n' % v
            o = s.feed(cmd)[-1]
            w = dict(sim=S.name, kind='c05', history=hexs(pre), write=hexs(cmd))
            if kind in ('DBEAMP', 'DBEATT'):
                if kind == 'DBEAMP' and o[0] == 'R' and o[1].endswith('ACK\r\n'):
                    r = s.feed('DBE GETDBEAMP 1_DBBC2\r\n')[-1]
                    if r[0] == 'R' and not r[1].endswith('VALUE %s\r\n' % v):
                        ctx.fail('dbesm_dbe01_float_rendering',
                                 'SETDBEAMP/EQ/BPF store a float: the value reads back as 1.0 / 0.0, not as the 1 / 0 '
                                 'the register shows initially and after SETAMP', dict(w, got=repr(r)))
                s.close()
                continue
            if _ack(S, o):
                # "until the next write of that register": other commands in between (none of them a
                # write of the same register family, none making this board unreachable)
                other = str(int(bn) % 4 + 1)
                fam = 'ATT' if kind == 'ATT' else kind
                between = ['DBE MODE BOARD %s MFS_7' % bn, 'DBE SETALLMODE 3-Band', 'DBE GETCFG', 'DBE GETSTATUS BOARD %s' % bn,
                           'DBE SETSTATUS BOARD %s VALUE 1' % other, 'DBE SETSTATUS BOARD %s VALUE 2' % bn,
                           'DBE STOREALLMODE X%d' % rng.randrange(99), 'garbage', 'DBE ReadALLDIAG',
                           'DBE GETDBEATT prova', 'DBE SETATT 99 BOARD %s VALUE 1' % bn]
                for rr in ('ATT', 'AMP', 'EQ', 'BPF'):
                    if rr != fam and kind != 'STATUS':
                        between.append('DBE SET%s %s BOARD %s VALUE %s' % (rr, '2', bn, '1'))
                        between.append('DBE SETDBE%s prova %s' % (rr, '1'))
                if kind != 'STATUS':
                    for _k in range(rng.randrange(0, 4)):
                        s.feed(rng.choice(between) + '\r\n')
                if kind == 'ATT':
                    r = s.feed('DBE GETSTATUS BOARD %s\r\n' % bn)[-1]
                    atts = r[1].split('ATT=[ ')[1].split(' ]')[0].split('  ') if r[0] == 'R' and 'ATT=[' in r[1] else []
                    if not atts or atts[int(c)] != str(float(v)):
                        ctx.fail('dbesm_att_readback', 'acknowledged SETATT not read back', dict(w, got=repr(r)))
                elif kind in ('AMP', 'EQ', 'BPF'):
                    r = s.feed('DBE GETCOMP BOARD %s\r\n' % bn)[-1]
                    if c in ('1a', '1b'):
                        idx = 0 if c == '1a' else 1
                    else:
                        idx = int(c) if kind == 'BPF' else int(c) - 1
                    vals = r[1].split('%s=[ ' % kind)[1].split(' ]')[0].split(' ') if r[0] == 'R' else []
                    want = '1' if float(v) == 1 else '0'
                    if not vals or vals[idx] != want:
                        if vals and vals[idx] == v:
                            ctx.fail('dbesm_set01_token_stored_verbatim',
                                     'SETAMP/SETEQ/SETBPF store the request token: the read-back is the token as sent '
                                     '(1.0, 1e0, -0, +1), not the canonical 1 / 0', dict(w, got=repr(r)))
                        else:
                            ctx.fail('dbesm_01_readback', 'acknowledged write not read back', dict(w, got=repr(r)))
                elif kind == 'STATUS':
                    if s.system.boards[int(bn) - 1]['Status'] != int(v):
                        ctx.fail('dbesm_status_readback', 'acknowledged SETSTATUS not stored', w)
            elif s.snap() != before:
                ctx.fail('dbesm_refused_write_changed_state', 'refused write changed the device state', dict(w, got=repr(o)))
        else:
            a = rng.choice([0, 1, 2, 3])
            axes = MS_AXES[a]
            nparams = rng.choice([axes + 3] * 4 + [axes + 2, axes + 4, 1])
            vals = [rng.choice(['0', '5', '-3', '1.5', '2730.15', '0x10', '100', '-0.25']) for _ in range(max(0, nparams - 1))]
            if rng.random() < 0.2:
                s.d.set_nak(True)
                before = s.snap()
            cmd = '#setpos:3=%d,%s\r\n' % (a, ','.join(['0'] + vals))
            between = []
            for _k in range(rng.randrange(0, 3)):
                between.append(('tick', rng.choice([0.5, 2.0])))
                between.append(('feed', rng.choice(['#getstatus:0=%d\r\n' % a, '#setup:0=%d\r\n' % a,
                                                    '#getpos:0=%d\r\n' % ((a + 1) % 4), '#setpos:0=%d,1\r\n' % a,
                                                    '#foo:0=1\r\n', 'garbage\r\n'])))
            ms_c05_check(ctx, s, a, vals, cmd, between, before, pre)
        s.close()


def ms_c05_check(ctx, s, a, vals, cmd, between, before, pre):
    """one MSCU write / read-back check.  The read-back is promised (C05_mscu_setpos_now_until) exactly
    when, AT THE TIME OF THE WRITE, the history of that servo holds no entry dated later than now (and
    is below the 2^15 window): a setpos stamped now sorts BEFORE every future-dated entry, and
    History.get returns / interpolates towards those as soon as the clock reaches them - even though
    by then they are no longer 'in the future'.  Returns 'checked', 'skipped' or 'refused'."""
    axes = MS_AXES[a]
    hist = s.system.servos[a].history.history
    now_w = s.d.now()
    promised = all(e[0] <= now_w for e in hist) and len(hist) < 2 ** 15
    o = s.feed(cmd)[-1]
    w = dict(sim='mscu', kind='c05', history=pre, write=hexs(cmd))
    if not _ack(MSSim, o):
        if s.snap() != before:
            ctx.fail('mscu_refused_setpos_changed_state', 'refused setpos changed a history', w)
        return 'refused'
    for kind, arg in between:
        if kind == 'tick':
            s.d.tick(arg)
        else:
            s.feed(arg)
    r = s.feed('#getpos:9=%d\r\n' % a)[-1]
    if not promised:
        ctx.count('mscu:c05:readback-not-promised(later entry at write time)')
        return 'skipped'
    want = []
    for t in vals[-axes:]:
        want.append(str(int(t, 16)) if 'x' in t else (repr(float(t)) if '.' in t else str(int(t))))
    got = r[1].rstrip('\r\n').split(',')[1:] if r[0] == 'R' else None
    if got != want:
        ctx.fail('mscu_setpos_readback', 'acknowledged setpos (stamped now, no later entry in the history) '
                 'not read back by getpos', dict(w, got=repr(r), want=want))
    return 'checked'


def ms_run_ops(rng, ops):
    """a fresh MSCU driven by a recorded script: ['clock', ctime] ['feed', hex] ['tick', dt] ['nak', bool]"""
    s = MSSim(rng)
    base = 122192928000000000
    for op in ops:
        if op[0] == 'clock':
            s.d.clock.t = (op[1] - base) / 1e7
            assert s.d.now() == op[1], (s.d.now(), op[1])
            if not s.d.evs:            # construction time: rebuild the System at that time
                import simulators.mscu as ms
                with patched(s.d.sv, **s.d.patch):
                    s.d.system.system_stop()
                    s.d.system = ms.System()
                s.system = s.d.system
        elif op[0] == 'feed':
            s.feed(bytes.fromhex(op[1]).decode('latin-1'))
        elif op[0] == 'tick':
            s.d.tick(op[1])
        elif op[0] == 'nak':
            s.d.set_nak(op[1])
    return s


def corpus_c05_mscu(ctx):
    """minimised past failures (corpus/C05/mscu-*.json), run first on every run"""
    import glob
    import json
    import os
    from vlib.core import VERIF
    n = 0
    for path in sorted(glob.glob(os.path.join(VERIF, 'corpus', 'C05', 'mscu-*.json'))):
        c = json.load(open(path))
        s = ms_run_ops(ctx.rng, c['ops'])
        before = s.snap()
        res = ms_c05_check(ctx, s, c['servo'], c['vals'], bytes.fromhex(c['write']).decode('latin-1'),
                           [tuple(x) for x in c['between']], before, 'corpus:' + os.path.basename(path))
        s.close()
        n += 1
        ctx.count('mscu:c05:corpus-%s' % res)
        if 'expect' in c and res != c['expect']:
            ctx.fail('mscu_corpus_case_changed', 'corpus case no longer takes the recorded path',
                     dict(sim='mscu', kind='c05', case=os.path.basename(path), got=res, expect=c['expect']))
    return n


def replay_c05(ctx, obj, S):
    w = obj.get('witness', {})
    if w.get('sim') != S.name or w.get('kind') != 'c05' or S is MSSim:
        return False
    n0 = len(ctx.failures)
    s = S(ctx.rng)
    s.feed(bytes.fromhex(w['history']).decode('latin-1'))
    before = s.snap()
    o = s.feed(bytes.fromhex(w['write']).decode('latin-1'))[-1]
    changed = (not _ack(S, o)) and s.snap() != before
    s.close()
    return changed or obj.get('klass', '').endswith(('rendering', 'verbatim'))


# ---------------------------------------------------------------------------
# totalpower data packets: System._send_packet / _get_status(binary) driven directly
# (fake data socket, constant virtual clock, recorded randint, recording Timer; no thread, no sleep)

class TpDataSocket:
    def __init__(self):
        self.sent = []
        self.last = None
        self.fail = False
        self.closed = 0

    def sendall(self, data):
        self.last = bytes(data)
        if self.fail:
            raise OSError('not connected')
        self.sent.append(bytes(data))

    def close(self):
        self.closed += 1


class _Flag:
    def __init__(self, v):
        self.value = v


TPP_SP = [1000, 1000, 500, 250, 200, 125, 100, 100, 50, 40, 25, 20, 333, 999, 501, 7, 3, 64, 1001, 2000, 30000]
TPP_SP_RARE = [0, -5, -1000, 1, 2, 10 ** 6, 2 ** 40]
TPP_CALPER = [0, 0, 1, 1, 2, 3, 5, 9, 10, 50, -1]


class TpPacketRun:
    """one real System; a history of _send_packet invocations with everything nondeterministic recorded"""

    def __init__(self, rng, script=None):
        import simulators.totalpower as tp
        self.tp = tp
        self.rng = rng
        self.clock = 0.0
        self.draws = []
        self.wild = None
        self.script = script
        self.steps = []

        def randint(a, b):
            if (a, b) != (200, 2000):
                raise AssertionError('unexpected randint range %r' % ((a, b),))
            r = self.wild() if self.wild else rng.randint(a, b)
            self.draws.append(r)
            return r

        self.sockmod = types.SimpleNamespace(socket=TpDataSocket, error=OSError)
        self.patch = dict(Timer=FakeTimer, socket=self.sockmod,
                          time=types.SimpleNamespace(time=lambda: self.clock, sleep=lambda dt: None),
                          randint=randint)
        if script is None:
            self.channels = rng.choice([1, 2, 4, 4, 14])
            near = rng.random() < 0.5
            counter = 65536 - rng.randrange(1, 40) if near else rng.randrange(0, 65536)
            calper = rng.choice(TPP_CALPER)
            caloff = rng.randrange(0, calper + 1) if calper > 0 else 0
            toggle = rng.choice([0, 1])
            self.init = [counter, calper, caloff, toggle, 0]
        else:
            self.channels = script['channels']
            self.init = list(script['init'])
        with patched(tp, **self.patch):
            s = self.system = tp.System(channels=self.channels)
        (s.sample_counter, s.calOnPeriod, s.cal_off_samples, s.toggle, s.zero) = self.init
        s.data_configured = True
        self.sock = s.data_socket = TpDataSocket()
        self.cur_sp = rng.choice(TPP_SP) if script is None else 1000

    def gen_step(self):
        rng = self.rng
        if rng.random() < 0.3:
            self.cur_sp = rng.choice(TPP_SP)
        sp = self.cur_sp
        r = rng.random()
        if r < 0.06:
            sp = rng.choice(TPP_SP_RARE)
        if 0 < sp < 20 and self.channels > 2:
            sp = 20 * sp                       # keeps the packet literal small
        t = 1.7e9 + rng.randrange(0, 10 ** 9) / 1024.0
        r = rng.random()
        if r < 0.04:
            t = 2.0 ** 32 - rng.choice([0.25, 0.5, 1.0, 1.5, 0.001])     # the 4-byte epoch field overflows (year 2106)
        elif r < 0.06:
            t = rng.choice([0.0, 0.5, -0.5, -2.0, 1.0])
        wild = None
        if rng.random() < 0.05 and sp > 0:
            wild = rng.choice(['big', 'edge', 'neg'])
        r = rng.random()
        fail, stop, pause = r < 0.08, 0.08 <= r < 0.16, 0.16 <= r < 0.6
        calon = 1 if rng.random() < 0.1 else None
        return dict(sp=sp, calon=calon, t=t, wild=wild, fail=fail, stop=stop, pause=pause)

    def step(self, st):
        s = self.system
        rng = self.rng
        sp = st['sp']
        s.sample_period = sp
        if st.get('calon') is not None:
            s.calOn = st['calon']
        calon_before = s.calOn
        self.clock = st['t']
        self.draws = []
        w = st.get('wild')
        before = [s.sample_counter, s.cal_off_samples, s.calOn, s.toggle]
        if st.get('replay_draws') is not None:
            feed = list(st['replay_draws'])
            self.wild = lambda: feed.pop(0) if feed else 1000
        elif w == 'big':
            self.wild = lambda: rng.choice([2 ** 32 // sp + 1, 2 ** 32, 2000])
        elif w == 'edge':
            self.wild = lambda: rng.choice([(2 ** 32 - 1) // sp, (2 ** 32 - 1) // sp + 1, 0, 1])
        elif w == 'neg':
            self.wild = lambda: rng.choice([-1, 5, 300])
        else:
            self.wild = None
        self.sock.fail = st['fail']
        stop, pause = _Flag(st['stop']), _Flag(st['pause'])
        s.stop, s.pause = stop, pause          # _stop(None) on the socket-error path sets self.stop
        self.sock.last = None
        ntimers = len(FakeTimer.created)
        raised = None
        with patched(self.tp, **self.patch):
            try:
                s._send_packet(stop, pause)
            except ZeroDivisionError:
                raised = 0
            except OverflowError:
                raised = 2
            except ValueError as ex:
                raised = 1 if 'out of range' in str(ex) else 2
        del FakeTimer.created[ntimers + 8:]     # the class-level list must not grow without bound
        packet = None
        if raised is None:
            packet = self.sock.last         # what was handed to sendall (also when the fake then raised)
            if bool(stop.value):
                act = 2
            elif st['pause']:
                act = 1
            else:
                act = 0
        rec = dict(st, calon_before=calon_before, before=before, calper=s.calOnPeriod, zero=s.zero, draws=list(self.draws), raised=raised, packet=packet,
                   stop_after=bool(stop.value) if raised is None else None,
                   act=act if raised is None else None,
                   restarted=(len(FakeTimer.created) > ntimers and FakeTimer.created[-1].function == s._send_packet
                              and FakeTimer.created[-1].started) if raised is None else None,
                   after=[s.sample_counter, s.cal_off_samples, s.calOn, s.toggle], channels=self.channels)
        if self.sock.closed:
            # the stop path closed the data socket; `X` would create a new one
            self.sock = s.data_socket = TpDataSocket()
        self.steps.append(rec)
        return rec

    def run(self, n):
        for _ in range(n):
            self.step(self.gen_step())
        return self

    def case_term(self):
        """Coq term; the packet of a failed sendall is not observable on the socket: such steps carry the packet
        the implementation built (captured by the fake before raising)"""
        steps = []
        for r in self.steps:
            if r['raised'] is None:
                pk = r['packet'] if r['packet'] is not None else b'\xff'   # no sendall at all: never equal to a model packet
                obs = 'OSent %s %s %s' % (zlist(list(pk)), blit(r['stop_after']), zlit(r['act']))
            else:
                obs = 'ORaised %s' % zlit(r['raised'])
            steps.append('PStep %s %s %s %s %s %s %s (%s) %s'
                         % (zlit(r['sp']), zlit(r['calon_before']), zlit(f64_bits(r['t'])), zlist(r['draws']),
                            blit(r['fail']), blit(r['stop']), blit(r['pause']), obs, zlist(r['after'])))
        return 'PCase %s %s %s' % (natlit(self.channels), zlist(self.init), coq_list(steps))


def _ds(sp, t, fail=False, stop=False, pause=True, calon=None, wild=None):
    return dict(sp=sp, calon=calon, t=t, wild=wild, fail=fail, stop=stop, pause=pause)


# directed histories run first on every run (every branch of the packet code at least once, whatever the seed)
TPP_DIRECTED = [
    dict(channels=2, init=[65534, 2, 1, 1, 0], steps=[
        _ds(250, 1700000000.5), _ds(250, 1700000001.5, pause=False), _ds(500, 1700000002.5, fail=True),
        _ds(500, 1700000003.5, calon=1), _ds(0, 1700000004.5), _ds(1000, 2.0 ** 32 - 0.5),
        _ds(100, 1700000005.0, stop=True), _ds(1001, 1700000006.0), _ds(-5, 1700000007.0),
        _ds(200, 1700000008.0, wild='big'), _ds(200, 1700000009.0)]),
    dict(channels=14, init=[65530, 0, 0, 0, 0], steps=[
        _ds(100, 1699999999.999), _ds(100, 1700000001.0, calon=1, pause=False), _ds(1000, 1.0), _ds(1000, -2.0)]),
    dict(channels=1, init=[65000, 9, 9, 0, 0], steps=[_ds(1, 1700000000.25), _ds(3, 1700000001.25, fail=True, pause=False)]),
    dict(channels=4, init=[0, -1, 0, 1, 0], steps=[_ds(125, 1700000000.0), _ds(125, 1700000001.0), _ds(40, 4294967295.75)]),
]


def tpp_directed(rng):
    for w in TPP_DIRECTED:
        run = TpPacketRun(rng, script=w)
        for st in w['steps']:
            run.step(dict(st))
        yield run


def tpp_corr(ctx):
    rng = ctx.rng
    cases = []
    n = ctx.n(28, 400)
    runs = list(tpp_directed(rng)) + [TpPacketRun(rng).run(rng.randrange(2, 6)) for _ in range(n)]
    for run in runs:
        cases.append(run.case_term())
        for r in run.steps:
            ctx.count('totalpower:packet:' + ('raised-%s' % r['raised'] if r['raised'] is not None
                                              else 'act-%s%s' % (r['act'], '-sendfail' if r['fail'] else '')))
            if r['packet']:
                ctx.nontriv(('totalpower', 'packet', r['sp'], run.channels, r['after'][0], len(r['packet'])))
    for c in cases[:1]:
        ctx.sample(c[:600])
    return ctx.run_cases('totalpower_packet', 'From DS Require Import Model.SmcTpPacket Corr.SmcTpPacketCorr.',
                         'tpp_case', 'ok', cases, show='show', shard=4)


def tpp_expected_cal(per, k, con, i):
    """C04_totalpower_packet_cal_mark / _cal_never transcribed"""
    pending = (i == 0 and con == 1)
    if per > 0 and 0 <= k <= per:
        return ((k + i) % (per + 1) == per) or pending
    if per <= 0 and k >= 0:
        return pending
    return None                      # outside both theorems (cal_off_samples > calOnPeriod): not promised


def tpp_check(r):
    """the packet theorems transcribed for one invocation of the real _send_packet; returns [(class, text)]"""
    bad = []
    sp, ch = r['sp'], r['channels']
    c0, k0, con0, t0 = r['before']
    after = r['after']
    if not 0 <= after[0] <= 65535:
        bad.append(('counter_range', 'sample_counter %r after the call' % after[0]))
    if sp == 0:
        if r['raised'] != 0:
            bad.append(('zero_period', 'sample_period 0 did not raise ZeroDivisionError'))
        return bad
    if not 1 <= sp <= 1000:
        if r['raised'] is None and r['packet'] not in (b'', None) and sp > 1000:
            bad.append(('records', 'sample_period %d > 1000 produced a non-empty packet' % sp))
        return bad
    n = 1000 // sp
    t = r['t']
    promised = (1.0 <= t < 2.0 ** 32 - 1 and all(0 <= d * sp < 2 ** 32 for d in r['draws'])
                and 0 <= c0 <= 65535 and con0 in (0, 1) and t0 in (0, 1) and r['zero'] in (0, 1))
    if r['raised'] is not None:
        if promised:
            bad.append(('refused', 'a packet inside the guards raised (kind %r)' % r['raised']))
        elif after[3] != t0:
            bad.append(('toggle_on_refusal', 'toggle changed although the invocation raised'))
        return bad
    pk = r['packet']
    if pk is None:
        bad.append(('not_sent', 'no sendall although the invocation returned'))
        return bad
    size = 8 + 4 * ch
    if len(pk) != n * size:
        bad.append(('length', 'packet of %d bytes, expected %d records of %d' % (len(pk), n, size)))
        return bad
    if len(r['draws']) != n * ch:
        bad.append(('draws', '%d draws for %d samples' % (len(r['draws']), n * ch)))
        return bad
    prev_epoch = None
    for i in range(n):
        rec = pk[i * size:(i + 1) * size]
        epoch, counter, status = struct.unpack('<IHH', rec[:8])
        smp = struct.unpack('<%dI' % ch, rec[8:])
        if not (int(t) - 1 <= epoch <= int(t)) or (prev_epoch is not None and epoch < prev_epoch):
            bad.append(('epoch', 'record %d epoch %d for clock %r' % (i, epoch, t)))
        prev_epoch = epoch
        if counter != (c0 + i) % 65536:
            bad.append(('counter', 'record %d counter %d, expected %d' % (i, counter, (c0 + i) % 65536)))
        if (status & 7) != 7 or ((status >> 6) & 3) != 1 or (status >> 8) != (0xA0 if t0 else 0x90) \
                or ((status >> 5) & 1) != r['zero']:
            bad.append(('status', 'record %d status word %#06x (toggle %d)' % (i, status, t0)))
        if ((status >> 3) & 1) != t0:
            bad.append(('toggle_bit', 'record %d toggle bit %d, state toggle %d' % (i, (status >> 3) & 1, t0)))
        exp = tpp_expected_cal(r['calper'], k0, con0, i)
        if exp is not None and bool((status >> 4) & 1) != exp:
            bad.append(('cal_mark', 'record %d cal mark %d, expected %d (calOnPeriod %d, cal_off_samples %d)'
                        % (i, (status >> 4) & 1, exp, r['calper'], k0)))
        want = tuple(d * sp for d in r['draws'][i * ch:(i + 1) * ch])
        if smp != want:
            bad.append(('samples', 'record %d samples %r, expected %r' % (i, smp, want)))
        if bad:
            break
    if after[3] != (0 if t0 else 1):
        bad.append(('toggle_flip', 'toggle %r -> %r%s' % (t0, after[3], ' (sendall failed)' if r['fail'] else '')))
    stopped = r['stop'] or r['fail']
    if r['stop_after'] != stopped or r['act'] != (2 if stopped else 1 if r['pause'] else 0):
        bad.append(('continuation', 'stop/pause/fail %r -> action %r' % ((r['stop'], r['pause'], r['fail']), r['act'])))
    if r['act'] == 0 and not r['restarted']:
        bad.append(('continuation', 'timer not restarted'))
    if after[0] != (0 if stopped else (c0 + n) % 65536):
        bad.append(('counter_after', 'sample_counter %d after %d records from %d%s'
                    % (after[0], n, c0, ' (stopped)' if stopped else '')))
    if n > 0 and after[2] != 0:
        bad.append(('calon_after', 'calOn %r after a packet with records' % after[2]))
    return bad


def tpp_witness(run):
    return dict(channels=run.channels, init=run.init,
                steps=[dict(sp=r['sp'], calon=r['calon'], t=r['t'], fail=r['fail'], stop=r['stop'], pause=r['pause'],
                            replay_draws=r['draws']) for r in run.steps])


def tpp_run_script(rng, w):
    run = TpPacketRun(rng, script=w)
    out = []
    for st in w['steps']:
        r = run.step(dict(st))
        out += tpp_check(r)
    return run, out


def tpp_oracle(ctx):
    rng = ctx.rng
    n = ctx.n(60, 1500)
    for run in tpp_directed(rng):
        for r in run.steps:
            ctx.evaluations += 1
            bad = tpp_check(r)
            if bad:
                w = tpp_witness(run)
                w['steps'] = w['steps'][:run.steps.index(r) + 1]
                ctx.fail('totalpower_packet_' + bad[0][0], bad[0][1], w)
                break
    for _ in range(n):
        run = TpPacketRun(rng)
        prev = None
        for _k in range(rng.randrange(2, 7)):
            r = run.step(run.gen_step())
            ctx.evaluations += 1
            bad = tpp_check(r)
            if (not bad and prev is not None and prev['raised'] is None and r['raised'] is None
                    and prev['packet'] and r['packet']):
                tb = lambda x: (struct.unpack('<H', x['packet'][6:8])[0] >> 3) & 1
                if tb(prev) == tb(r):
                    bad.append(('toggle_alternation', 'two consecutive packets carry the same toggle bit'))
            if bad:
                klass, what = bad[0]
                ctx.fail('totalpower_packet_' + klass, what, tpp_witness(run))
                break
            prev = r


def tpp_replay(ctx, obj):
    import random
    _, bad = tpp_run_script(random.Random(0), obj['witness'])
    return bool(bad)
