"""C02 part for simulators/ifd14 (tag Sma): see props/parts/sma_lib.py"""
from props.parts import sma_lib

PART = dict(name='c02_ifd14', simulator='ifd14', ready=True,
            coq_targets=['Properties/C02_ifd14.vo', 'Corr/SmaIfd14Corr.vo'])


def correspondence(ctx):
    sma_lib.correspondence(ctx, 'ifd14', 'c02')


def oracle(ctx):
    sma_lib.oracle(ctx, 'ifd14', 'c02')


def replay(ctx, obj):
    return sma_lib.replay(ctx, obj, 'ifd14', 'c02')
