"""C07, server part (tag Srv): `$system_stop%%%%%` arriving on any connection is answered with the
value system_stop() returns and stops the server's request loops — the custom-command path of
simulators/server.py (ListenHandler, SendHandler, Server.stop).  The per-simulator thread/timer
ledger is the C07 owner's."""
from props import srv_harness as H

PART = dict(name='c07_server', simulator='server', ready=True,
            coq_targets=['Properties/C07_server.vo', 'Corr/SrvCorr.vo'])

STOP = b'$system_stop%%%%%'
KNOWN_SEND = 'server_sendhandler_stop_not_whole_chunk'


def stop_value(ops):
    kind, strict, val = ops['system_stop']
    return val


def expected_block(ops):
    v = stop_value(ops)
    blk = [('call', 'system_stop', []), ('send', v.encode('latin-1'))]
    if v == H.SHUTDOWN:
        blk.append(('stop',))
    return blk


def contains_block(tr, blk):
    """the block occurs contiguously; when it carries no stop (system_stop answered something
    else than the acknowledgement) no stop may follow it either"""
    tr = [tuple(e[:2]) + ((tuple(e[2]),) if len(e) > 2 and e[2] is not None else ()) for e in tr]
    blk = [tuple(e[:2]) + ((tuple(e[2]),) if len(e) > 2 else ()) for e in blk]
    has_stop = blk[-1] == ('stop',)
    for i in range(len(tr) - len(blk) + 1):
        if tr[i:i + len(blk)] == blk and (has_stop or tr[i + len(blk):i + len(blk) + 1] != [('stop',)]):
            return True
    return False


def gen_ops_stop(rng):
    """system_stop answers an encodable str: the acknowledgement (as every System in the repo),
    sometimes another str (then no stop is expected)"""
    ops = H.gen_ops(rng)
    ops['system_stop'] = ('str', True, H.SHUTDOWN if rng.random() < 0.85 else rng.choice(['bye', 'x\xe9']))
    return ops


def around(rng):
    while True:
        x = H.gen_stream(rng, 3) if rng.random() < 0.8 else b''
        y = H.gen_stream(rng, 3) if rng.random() < 0.8 else b''
        if not H.has_reserved(x + STOP + y):
            return x, y


def correspondence(ctx):
    rng = ctx.rng
    cases = []
    for _ in range(ctx.n(150, 2500)):
        ops = gen_ops_stop(rng)
        H.environment(rng)
        x, y = around(rng)
        stream = x + STOP + y
        outs = H.gen_outcomes(rng, len(stream))
        for segs in H.partitions(rng, stream, 3):
            fails = [rng.randrange(0, 5)] if rng.random() < 0.1 else []
            tr, cm, died = H.run_listen_tcp(None, outs, ops, fails, segs)
            cases.append(H.case_listen_tcp(None, outs, ops, fails, segs, tr, cm, died))
            ctx.count('server_listen_tcp')
            if any(e[0] == 'stop' for e in tr):
                ctx.nontriv(('c07tcp', stream, tuple(len(s) for s in segs), repr(outs)))
        outs_u = outs + [('F',)]
        tr, cm, died = H.run_listen_udp(outs_u, ops, [], stream)
        cases.append(H.case_listen_udp(outs_u, ops, [], stream, tr, cm, died))
        ctx.count('server_listen_udp')
    for _ in range(ctx.n(150, 2500)):
        ops = gen_ops_stop(rng)
        H.environment(rng)
        rs = []
        for _ in range(rng.randrange(0, 4)):
            rs.append(rng.choice([None, b'x', b'$nosuch%%%%%', b'$system_foo:1%%%%%', b'status?']))
        r = rng.random()
        if r < 0.6:
            rs.append(STOP)
        elif r < 0.8:
            k = rng.randrange(1, len(STOP))
            rs += [STOP[:k], STOP[k:]]
        else:
            rs.append(rng.choice([b'x', b'\n', b'$']) + STOP)
        rs += [rng.choice([None, b'tail'])] * rng.randrange(0, 2)
        qs = [rng.choice([None, b'status']) for _ in range(rng.randrange(0, 6))]
        first = rng.choice([None, None, None, STOP, b'q'])
        fails = [rng.randrange(0, 4)] if rng.random() < 0.1 else []
        tr, died = H.run_send(first, ops, fails, rs, qs)
        cases.append(H.case_send(first, ops, fails, rs, qs, tr, died))
        ctx.count('server_sendhandler')
        if any(e[0] == 'stop' for e in tr):
            ctx.nontriv(('c07send', repr(first), repr(rs), repr(qs)))
    H.IO_SEED[0], H.STOP_EXC[0] = 0, None
    ctx.sample(cases[0][:500])
    ctx.run_cases('c07_server', 'From DS Require Import Model.SrvHandler Corr.SrvCorr.', 'scase', 'ok',
                  cases, show='show', shard=ctx.n(150, 400))


# ---------------------------------------------------------------------------
# oracle on the implementation

class FakeSocketServer:
    def __init__(self):
        self.shutdowns = 0

    def shutdown(self):
        self.shutdowns += 1


def real_stop_run(stream, segs):
    """the real BaseSystem.system_stop and the real Server.stop behind the real handler:
    returns (sent payloads, stop_me, shutdown counts, died)"""
    from multiprocessing import Value
    from ctypes import c_bool
    from simulators import server as S
    from simulators.common import ListeningSystem

    class Sys(ListeningSystem):
        def parse(self, byte):
            return False
    srv = S.Server.__new__(S.Server)
    srv.servers = [FakeSocketServer(), FakeSocketServer()]
    srv.stop_me = Value(c_bool, False)
    log = []
    sock = H.FakeSocket(log, segs, [])
    with H.Patched() as S2:
        class Hd(S2.ListenHandler):
            system = Sys()
            stop = srv.stop          # what Server.serve_forever installs
        died = None
        try:
            Hd(sock, H.CLIENT, None)
        except Exception as ex:   # noqa
            died = type(ex).__name__
    return [e[1] for e in log if e[0] == 'send'], bool(srv.stop_me.value), \
        [s.shutdowns for s in srv.servers], died


def oracle(ctx):
    rng = ctx.rng
    checked = 0
    found = set()

    def fail(klass, what, **w):
        if klass not in found:
            found.add(klass)
            ctx.fail(klass, what, w)

    for _ in range(ctx.n(300, 6000)):
        ops = gen_ops_stop(rng)
        stop_exc = rng.choice(sorted(H.EXC_TABLE)) if rng.random() < 0.12 else None
        H.IO_SEED[0], H.STOP_EXC[0] = 0, stop_exc       # a failing Server.stop must be survived
        x, y = around(rng)
        stream = x + STOP + y
        outs = H.gen_outcomes(rng, len(stream))
        blk = expected_block(ops)
        for segs in H.partitions(rng, stream, 3):
            checked += 1
            tr, cm, died = H.run_listen_tcp(None, outs, ops, [], segs)
            if died is not None or not contains_block(tr, blk):
                fail('server_listen_stop', 'listening connection: $system_stop%%%%% in the stream is not '
                     'answered with the value of system_stop() followed by Server.stop',
                     handler='listen_tcp', stream=stream.hex(), segments=[len(s) for s in segs],
                     outcomes=[list(o) for o in outs], ops={k: list(v) for k, v in ops.items()}, stop_exc=stop_exc)
        checked += 1
        tr, cm, died = H.run_listen_udp(outs + [('F',)], ops, [], stream)
        if died is not None or not contains_block(tr, blk):
            fail('server_listen_stop_udp', 'UDP datagram containing $system_stop%%%%% is not answered / '
                 'does not stop the server', handler='listen_udp', stream=stream.hex(),
                 outcomes=[list(o) for o in outs + [('F',)]], ops={k: list(v) for k, v in ops.items()}, stop_exc=stop_exc)
        # sending server: whole chunk (must work), split / embedded (known finding)
        pre = [rng.choice([None, b'x', b'$nosuch%%%%%']) for _ in range(rng.randrange(0, 3))]
        qs = [rng.choice([None, b'status']) for _ in range(rng.randrange(0, 5))]
        checked += 1
        tr, died = H.run_send(None, ops, [], pre + [STOP], qs)
        if died is not None or not contains_block(tr, blk):
            fail('server_send_stop', 'sending connection: a chunk $system_stop%%%%% is not answered with the '
                 'value of system_stop() followed by Server.stop', handler='send', chunks=[
                     None if c is None else c.hex() for c in pre + [STOP]],
                 queue=[None if q is None else q.hex() for q in qs], ops={k: list(v) for k, v in ops.items()},
                 stop_exc=stop_exc)
        k = rng.randrange(1, len(STOP))
        variants = [[STOP[:k], STOP[k:]], [b'x' + STOP], [STOP + b'\n']]
        for chunks in variants:
            checked += 1
            tr, died = H.run_send(None, ops, [], pre + chunks, qs)
            if died is not None or not contains_block(tr, blk):
                fail(KNOWN_SEND, 'SendHandler recognises a custom command only when one recv chunk is '
                     'exactly `$...%%%%%`', handler='send',
                     chunks=[None if c is None else c.hex() for c in pre + chunks],
                     queue=[None if q is None else q.hex() for q in qs],
                     ops={k: list(v) for k, v in ops.items()}, stop_exc=stop_exc)
    H.IO_SEED[0], H.STOP_EXC[0] = 0, None
    # the real system_stop and the real Server.stop behind the handler
    for _ in range(ctx.n(40, 400)):
        x, y = around(rng)
        stream = x + STOP + y
        segs = H.partitions(rng, stream, 3)[-1]
        checked += 1
        sent, stop_me, shutdowns, died = real_stop_run(stream, segs)
        if died is not None or H.SHUTDOWN.encode() not in sent or not stop_me or any(n < 1 for n in shutdowns):
            fail('server_real_stop', 'BaseSystem.system_stop / Server.stop: acknowledgement not sent, stop_me '
                 'not set or a socketserver not shut down', handler='real', stream=stream.hex(),
                 segments=[len(s) for s in segs], sent=[p.hex() for p in sent], stop_me=stop_me,
                 shutdowns=shutdowns, died=died)
    ctx.oracle_stats['c07_server'] = dict(checked=checked)
    ctx.evaluations += checked


def replay(ctx, obj):
    w = obj.get('witness', {})
    h = w.get('handler')
    if h not in ('listen_tcp', 'listen_udp', 'send', 'real'):
        return False
    if h == 'real':
        stream = bytes.fromhex(w['stream'])
        segs, i = [], 0
        for k in w['segments']:
            segs.append(stream[i:i + k])
            i += k
        sent, stop_me, shutdowns, died = real_stop_run(stream, segs)
        return died is not None or H.SHUTDOWN.encode() not in sent or not stop_me or any(n < 1 for n in shutdowns)
    ops = {k: tuple(v) for k, v in w['ops'].items()}
    blk = expected_block(ops)
    H.IO_SEED[0], H.STOP_EXC[0] = 0, w.get('stop_exc')
    if h == 'send':
        chunks = [None if c is None else bytes.fromhex(c) for c in w['chunks']]
        qs = [None if q is None else bytes.fromhex(q) for q in w['queue']]
        tr, died = H.run_send(None, ops, [], chunks, qs)
        return died is not None or not contains_block(tr, blk)
    stream = bytes.fromhex(w['stream'])
    outs = [tuple(o) for o in w['outcomes']]
    if h == 'listen_udp':
        tr, cm, died = H.run_listen_udp(outs, ops, [], stream)
    else:
        segs, i = [], 0
        for k in w['segments']:
            segs.append(stream[i:i + k])
            i += k
        tr, cm, died = H.run_listen_tcp(None, outs, ops, [], segs)
    return died is not None or not contains_block(tr, blk)
