"""C05, dbesm part: acknowledged writes read back; refused writes change nothing (theorems in coq/Properties/C05_dbesm.v over
coq/Model/SmcDbesm.v; correspondence of the model with the real System; oracle on the real System)."""
from props.parts import smc_lib as L

PART = dict(name='c05_dbesm', simulator='dbesm', ready=True,
            coq_targets=['Properties/C05_dbesm.vo', 'Corr/SmcDbesmCorr.vo'])


def correspondence(ctx):
    L.run_corr(ctx, L.DBSim, 'general', 50, 800)


def oracle(ctx):
    L.oracle_c05(ctx, L.DBSim)


def replay(ctx, obj):
    return L.replay_c05(ctx, obj, L.DBSim)
