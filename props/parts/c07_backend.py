"""C07 — backend part (generic backend, sardara, mistral): no backend/mistral timer pending after system_stop from any reachable state.
Theorems: coq/Properties/C07_backend.v over coq/Model/BckModel.v; harness: props/bck_common.py, props/bck_parts.py,
oracle: props/bck_oracle.py (classes C07_CLASSES)."""
from props import bck_parts, bck_oracle

PART = dict(name='c07_backend', simulator='backend', ready=True,
            coq_targets=['Properties/C07_backend.vo', 'Corr/BckCorr.vo', 'Proofs/BckTablesPinned.vo'],
            what='no backend/mistral timer pending after system_stop from any reachable state')


def gen(ctx):
    from props import c19
    c19.gen(ctx)


def correspondence(ctx):
    bck_parts.part_correspondence(ctx, 'c07', ctx.n(150, 2500))


def oracle(ctx):
    bck_parts.part_oracle(ctx, 'C07', bck_oracle.C07_CLASSES, ctx.n(250, 4000))


def replay(ctx, obj):
    return bck_parts.part_replay(ctx, obj)
