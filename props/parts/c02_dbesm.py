"""C02, dbesm part: from every reachable idle state each catalogue query yields exactly one reply (theorems in coq/Properties/C02_dbesm.v over
coq/Model/SmcDbesm.v; correspondence of the model with the real System; oracle on the real System)."""
from props.parts import smc_lib as L

PART = dict(name='c02_dbesm', simulator='dbesm', ready=True,
            coq_targets=['Properties/C02_dbesm.vo', 'Corr/SmcDbesmCorr.vo'])


def correspondence(ctx):
    L.run_corr(ctx, L.DBSim, 'queries', 30, 500, maxlen=12)


def oracle(ctx):
    L.oracle_c02(ctx, L.DBSim)


def replay(ctx, obj):
    return L.replay_c02(ctx, obj, L.DBSim)
