"""Minor-servo PLC (tag Msv): shared code of the parts c02_ms, c03_ms, c04_ms, c05_ms.
All suites drive the real simulators.minor_servos.System through props/msv_harness.Rig and compare
with Model/MsvModel.v (binary64) through Corr/MsvCorr.v; the oracles are the statements of the
cross-cutting properties transcribed to Python over the real class."""
import random
import re

from props import msv_harness as H

SIM = 'minor_servos'
QUERIES = ['STATUS'] + ['STATUS=%s' % n for n in
                        ('PFP', 'SRP', 'M3R', 'GFR', 'DR_GFR1', 'DR_GFR2', 'DR_GFR3', 'DR_PFP')]
GOOD_RE = re.compile(r'^OUTPUT:GOOD,[0-9]+\.[0-9]{6}(,[A-Z0-9_]+=[^|,\r\n]*(\|[A-Z0-9_]+=[^|,\r\n]*)*)?\r\n$')
BAD = 'OUTPUT:BAD\r\n'


def gen(ctx):
    from gen import msv_tables
    msv_tables.generate()


def garbage(rng, n):
    alphabet = [13, 10, 13, 10, 61, 44, 32, 9] + [ord(c) for c in 'STAUPERO=,GFR019.-']
    return ''.join(chr(rng.choice(alphabet) if rng.random() < 0.8 else rng.randrange(256)) for _ in range(n))


def corrupt_line(rng, rig, lim, ptstate):
    """a grammar command with a damaged terminator / truncated / nested inside another"""
    line = H.gen_command(rng, rig, lim, ptstate)
    k = rng.random()
    if k < 0.2:
        return line[:rng.randrange(0, len(line) + 1)]                     # truncated, no terminator
    if k < 0.4:
        return line + rng.choice(['\r', '\n', '\n\r', '\r\r', '\r \n', '\\r\\n'])
    if k < 0.6:
        cut = rng.randrange(0, len(line) + 1)
        return line[:cut] + H.gen_command(rng, rig, lim, ptstate) + '\r\n'   # nested start
    if k < 0.8:
        return line + '\r\n' + garbage(rng, rng.randrange(0, 6))
    return garbage(rng, rng.randrange(1, 20))


def history(rng, rig, nops, malformed):
    lim = H.limits(rig)
    ptstate = {'_focus': rng.choice(rig.names) if rng.random() < 0.6 else None}
    if rng.random() < 0.7:
        rig.refresh(0)
    for _ in range(nops):
        dt = rng.choice(H.DTS)
        k = rng.random()
        if k < 0.1:
            rig.refresh(dt)
        elif k < 0.1 + malformed:
            rig.feed(corrupt_line(rng, rig, lim, ptstate), dt)
        else:
            rig.feed(H.gen_command(rng, rig, lim, ptstate) + '\r\n', dt)


def prefix_traces():
    rig = H.Rig()
    try:
        return [v for _, v in sorted(H.refused_prefix_traces(H.limits(rig)).items())]
    finally:
        rig.close()


def corr_suite(ctx, suite, ncases, nops, malformed, catalogue, scripted=()):
    cases = []
    for tr in scripted:
        rig = H.Rig(t0=1000.0, timer_value=5, seed=4)
        try:
            for line, dt in tr:
                if line is None:
                    rig.refresh(dt)
                else:
                    rig.feed(line if line.endswith('\r\n') else line + '\r\n', dt)
            if catalogue:
                for q in QUERIES:
                    rig.feed(q + '\r\n', 0)
            cases.append(rig.case_term())
            ctx.count(suite + '/scripted')
        finally:
            rig.close()
    for _ in range(ncases):
        seed = ctx.rng.randrange(1 << 30)
        rng = random.Random(seed)
        rig = H.Rig(t0=rng.choice([1000.0, 1759276800.0]), timer_value=rng.choice([5, 1, 2]), seed=seed)
        try:
            history(rng, rig, rng.choice(nops), malformed)
            rig.feed('\r\n', rng.choice([0, 10]))                       # resynchronise
            if catalogue:
                for q in QUERIES:
                    rig.feed(q + '\r\n', rng.choice([0, 0, 10, 1024]))
            else:
                rig.feed(rng.choice(QUERIES) + '\r\n', 0)
            cases.append(rig.case_term())
            ctx.count(suite)
            ctx.nontriv((suite, seed))
        finally:
            rig.close()
    ctx.run_cases(suite, 'From DS Require Import Corr.MsvCorr.', 'mcase', 'ok', cases, show='show',
                  shard=ctx.n(6, 25))


# ---------------------------------------------------------------------------------------------
class Drive:
    """a Rig with a trace for replays"""

    def __init__(self, ctx, seed, timer_value=5):
        self.ctx = ctx
        self.rig = H.Rig(t0=1000.0, timer_value=timer_value, seed=seed)
        self.trace = []
        self.seed = seed
        self.seen = set()

    def feed(self, data, dt=0):
        self.trace.append([data, dt])
        return self.rig.feed(data, dt)

    def refresh(self, dt=0):
        self.trace.append([None, dt])
        self.rig.refresh(dt)
        if self.rig.update_exc is not None:
            self.fail('update_thread_raised', 'System._update raised %r' % (self.rig.update_exc,))

    def bytes_outcomes(self, data, dt=0):
        """feed and return the per-byte outcomes (True / str / exception)"""
        self.trace.append([data, dt])
        self.rig.advance(dt)
        outs = []
        for ch in data:
            try:
                outs.append(self.rig.system.parse(ch))
            except Exception as ex:   # noqa
                outs.append(ex)
        return outs

    def fail(self, klass, what, **extra):
        if klass in self.seen:
            return
        self.seen.add(klass)
        self.ctx.fail('%s_%s' % (SIM, klass), what, dict(trace=list(self.trace), seed=self.seed, **extra))

    def close(self):
        self.rig.close()


def replay_trace(ctx, obj, checker):
    w = obj.get('witness', {})
    tr = w.get('trace')
    if not tr:
        return False
    before = len(ctx.failures)
    checker(ctx, tr, w.get('seed', 0))
    return any(f['klass'] == obj.get('klass') for f in ctx.failures[before:])


def apply_trace(d, tr):
    for data, dt in tr:
        if data is None:
            d.refresh(dt)
        else:
            d.feed(data, dt)


def catalogue_replies(d, reseed=12345):
    """the nine STATUS queries at the current instant, with a fixed stream of random draws"""
    out = []
    for q in QUERIES:
        d.rig.rng.seed(reseed)
        outs = d.bytes_outcomes(q + '\r\n', 0)
        out.append(outs)
    return out


def fields_of(reply):
    body = reply[:-2].split(',', 2)
    return [f.split('=', 1)[0] for f in body[2].split('|')] if len(body) == 3 else []


# ---- C03 ---------------------------------------------------------------------------------------
def c03_check(ctx, tr, seed, probe=True):
    d = Drive(ctx, seed)
    try:
        apply_trace(d, tr)
        stream = ''.join(x for x, _ in tr if x is not None)
        if stream.endswith('\r\n') and d.rig.system.msg != '':
            d.fail('c03_not_idle_after_terminator', 'buffer %r after a CR LF' % d.rig.system.msg)
        outs = d.bytes_outcomes('\r\n', 0)
        if d.rig.system.msg != '':
            d.fail('c03_not_idle_after_terminator', 'buffer %r after CR LF' % d.rig.system.msg)
        if outs[0] is not True or not isinstance(outs[1], str):
            d.fail('c03_terminator_outcome', 'CR LF answered %r' % (outs,))
        q = 'STATUS=GFR\r\n'
        outs = d.bytes_outcomes(q, 0)
        if any(o is not True for o in outs[:-1]) or not (isinstance(outs[-1], str)
                                                         and outs[-1].startswith('OUTPUT:GOOD,')):
            d.fail('c03_probe_not_answered', 'probe after resync answered %r' % (outs,))
        else:
            f = Drive(ctx, seed)
            try:
                fresh = f.bytes_outcomes(q, 0)
            finally:
                f.close()
            if [o is True for o in fresh] != [o is True for o in outs] or fields_of(fresh[-1]) != fields_of(outs[-1]):
                d.fail('c03_probe_differs_from_fresh', 'probe framed/answered differently from a fresh parser')
    finally:
        d.close()


def c03_oracle(ctx):
    n = ctx.n(40, 600)
    checked = 0
    for _ in range(n):
        seed = ctx.rng.randrange(1 << 30)
        rng = random.Random(seed)
        d = Drive(ctx, seed)
        try:
            lim = H.limits(d.rig)
            ptstate = {}
            buf = ''
            for _ in range(rng.choice([3, 8, 15])):
                data = corrupt_line(rng, d.rig, lim, ptstate) if rng.random() < 0.7 else \
                    H.gen_command(rng, d.rig, lim, ptstate) + '\r\n'
                outs = d.bytes_outcomes(data, rng.choice([0, 10, 1024]))
                for ch, o in zip(data, outs):
                    buf += ch
                    checked += 1
                    done = buf.endswith('\r\n')
                    if done:
                        buf = ''
                    if done != (o is not True) or (done and not isinstance(o, str)):
                        d.fail('c03_byte_outcome', 'byte %r answered %r (line complete: %r)' % (ch, o, done))
                        break
            tr = list(d.trace)
        finally:
            d.close()
        c03_check(ctx, tr, seed)
    ctx.oracle_stats['c03_ms'] = dict(streams=n, bytes=checked)
    ctx.evaluations += n


# ---- C04 ---------------------------------------------------------------------------------------
def c04_check(ctx, tr, seed):
    d = Drive(ctx, seed)
    n = 0
    try:
        for data, dt in tr:
            if data is None:
                d.refresh(dt)
                continue
            for r in d.feed(data, dt):
                n += 1
                if not isinstance(r, str):
                    d.fail('c04_exception', 'parse raised %r' % (r,))
                elif r != BAD and not GOOD_RE.match(r):
                    d.fail('c04_malformed_reply', 'reply %r' % r)
                elif any(ord(c) > 255 for c in r):
                    d.fail('c04_not_single_bytes', 'reply %r' % r)
    finally:
        d.close()
    return n


def c04_oracle(ctx):
    n = ctx.n(30, 500)
    replies = 0
    for _ in range(n):
        seed = ctx.rng.randrange(1 << 30)
        tr = record_history(ctx, seed, random.Random(seed).choice([10, 25]), 0.3)
        replies += c04_check(ctx, tr, seed)
    ctx.oracle_stats['c04_ms'] = dict(histories=n, replies=replies)
    ctx.evaluations += n


# ---- C02 ---------------------------------------------------------------------------------------
def c02_check(ctx, tr, seed):
    d = Drive(ctx, seed)
    try:
        apply_trace(d, tr)
        d.bytes_outcomes('\r\n', 0)
        f = Drive(ctx, seed)
        try:
            fresh = catalogue_replies(f)
        finally:
            f.close()
        for q, outs, fr in zip(QUERIES, catalogue_replies(d), fresh):
            last = outs[-1]
            if any(o is not True for o in outs[:-1]) or not isinstance(last, str):
                d.fail('c02_query_not_answered', '%s answered %r' % (q, outs[-3:]))
            elif not GOOD_RE.match(last):
                d.fail('c02_query_refused_or_malformed', '%s answered %r' % (q, last))
            elif fields_of(last) != fields_of(fr[-1]):
                d.fail('c02_query_fields', '%s: fields %r' % (q, fields_of(last)))
    finally:
        d.close()


def record_history(ctx, seed, nops, malformed):
    rng = random.Random(seed)
    d = Drive(ctx, seed)
    trace = []
    try:
        rig = d.rig
        orig_feed, orig_refresh = rig.feed, rig.refresh
        rig.feed = lambda data, dt=0: (trace.append([data, dt]), orig_feed(data, dt))[1]
        rig.refresh = lambda dt=0: (trace.append([None, dt]), orig_refresh(dt))[1]
        history(rng, rig, nops, malformed)
    finally:
        d.close()
    return trace


def family_traces(rng, t0=1000.0, full=True, sample=None):
    rig = H.Rig()
    try:
        lim = H.limits(rig)
    finally:
        rig.close()
    combos = []
    for sv, l in lim.items():
        for st in H.MODES + (H.PHASES if l[4] else ()):
            combos.append((sv, st))
    if sample is not None:
        must = [('PFP', 'during'), ('DR_GFR2', 'ended-unseen'), ('SRP', 30)]
        combos = must + rng.sample([c for c in combos if c not in must], max(0, sample - len(must)))
    out = []
    nref = len(H.refusals('PFP', lim, t0))
    for sv, st in combos:
        out.append(H.family_trace(sv, st, lim, t0))                              # all refusals in a row
        if full:
            k = rng.randrange(nref) if st not in H.PHASES else rng.choice([0, 0, 1, 2, 4, rng.randrange(nref)])
            out.append(H.family_trace(sv, st, lim, t0, which=k))                   # a single refusal
    return [[[None if l is None else l + '\r\n', dt] for l, dt in tr] for tr in out]


def c02_oracle(ctx):
    fam = family_traces(random.Random(ctx.rng.randrange(1 << 30)))
    for tr in fam:
        c02_check(ctx, tr, 1)
    ctx.count('msv-c02/family-oracle', len(fam))
    n = ctx.n(30, 500)
    for _ in range(n):
        seed = ctx.rng.randrange(1 << 30)
        tr = record_history(ctx, seed, random.Random(seed).choice([8, 20, 40]), 0.25)
        c02_check(ctx, tr, seed)
    ctx.oracle_stats['c02_ms'] = dict(histories=n + len(fam), queries=(n + len(fam)) * len(QUERIES))
    ctx.evaluations += n


# ---- C05 ---------------------------------------------------------------------------------------
def c05_check(ctx, tr, seed):
    """replays the history command by command; after an acknowledged write the read-back shows the value
    until the next acknowledged write of that quantity; a refused write leaves the whole catalogue
    unchanged"""
    d = Drive(ctx, seed)
    try:
        rig = d.rig
        lim = H.limits(rig)
        offs = {}          # servo -> expected rendered offsets
        conf = '0'
        pieces = []
        for data, dt in tr:
            if data is None:
                pieces.append((None, dt))
                continue
            cur, first = '', True
            for ch in data:
                cur += ch
                if cur.endswith('\r\n'):
                    pieces.append((cur, dt if first else 0))
                    cur, first = '', False
            if cur:
                pieces.append((cur, dt if first else 0))
        for data, dt in pieces:
            if data is None:
                d.refresh(dt)
                continue
            full = rig.system.msg + data          # what _execute will see if the piece completes a line
            complete = full.endswith('\r\n')
            toks = [t.strip() for t in re.split('=|,', full)]
            is_write = complete and toks[0] in ('SETUP', 'STOW', 'STOP', 'PRESET', 'OFFSET', 'PROGRAMTRACK')
            if is_write and rig.system.msg == '':
                rig.advance(dt)
                catalogue_replies(d)          # settle: a first refresh may move/arrive
                before = catalogue_replies(d)
                out = d.feed(data, 0)
                cat = True
            else:
                out = d.feed(data, dt)
                cat = False
            reply = out[-1] if out else None
            if cat and reply == BAD:
                after = catalogue_replies(d)
                if [b[-1] for b in before] != [a[-1] for a in after]:
                    k = [i for i, (b, a) in enumerate(zip(before, after)) if b[-1] != a[-1]][0]
                    d.fail('c05_refused_write_changed_state', 'after refused %r the reply to %s changed: %r -> %r'
                           % (data, QUERIES[k], before[k][-1], after[k][-1]))
            if is_write and isinstance(reply, str) and reply.startswith('OUTPUT:GOOD'):
                if toks[0] == 'OFFSET':
                    offs[toks[1]] = [format(float(t), '.6f') for t in toks[2:]]
                if toks[0] == 'SETUP':
                    conf = str(rig.system.configurations[toks[1]]['ID'])
            # read back (only on an idle parser: otherwise the query would extend the pending line)
            if rig.system.msg != '':
                continue
            r = d.bytes_outcomes('STATUS\r\n', 0)[-1]
            m = re.search(r'CURRENT_CONFIG=([^|]*)\|', r) if isinstance(r, str) else None
            if not m or m.group(1) != conf:
                d.fail('c05_config_readback', 'CURRENT_CONFIG reads %r, expected %s' % (m and m.group(1), conf))
            for n, want in offs.items():
                r = d.bytes_outcomes('STATUS=%s\r\n' % n, 0)[-1]
                got = re.findall(r'OFFSET[A-Z_]*=([^|\r]*)', r) if isinstance(r, str) else None
                if got != want:
                    d.fail('c05_offset_readback', '%s offsets read %r, expected %r' % (n, got, want))
    finally:
        d.close()


def c05_oracle(ctx):
    n = ctx.n(25, 400)
    directed = [
        [[None, 0], ['STOP=GFR\r\n', 10], ['PRESET=GFR,9999\r\n', 10]],
        [[None, 0], ['STOW=SRP,1\r\n', 10], ['PRESET=SRP,1,2,3,4,5,6\r\n', 10], [None, 6000]],
        [[None, 0], ['OFFSET=PFP,1,2,0.5\r\n', 10], ['OFFSET=PFP,1,x,3\r\n', 10], ['PRESET=PFP,0,0,80\r\n', 5],
         ['OFFSET=PFP,0.25,-0.0,1e-7\r\n', 10], ['SETUP=BWG3\r\n', 0], ['SETUP=Nope\r\n', 0], [None, 100000]],
    ]
    directed += [[[None if l is None else l + '\r\n', dt] for l, dt in tr] for tr in prefix_traces()]
    for tr in directed:
        c05_check(ctx, tr, 1)
    for _ in range(n):
        seed = ctx.rng.randrange(1 << 30)
        tr = record_history(ctx, seed, random.Random(seed).choice([8, 16]), 0.05)
        c05_check(ctx, tr, seed)
    ctx.oracle_stats['c05_ms'] = dict(histories=n + len(directed))
    ctx.evaluations += n
