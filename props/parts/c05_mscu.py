"""C05, mscu part: acknowledged writes read back; refused writes change nothing (theorems in coq/Properties/C05_mscu.v over
coq/Model/SmcMscu.v; correspondence of the model with the real System; oracle on the real System)."""
from props.parts import smc_lib as L

PART = dict(name='c05_mscu', simulator='mscu', ready=True,
            coq_targets=['Properties/C05_mscu.vo', 'Corr/SmcMscuCorr.vo'])


def correspondence(ctx):
    L.run_corr(ctx, L.MSSim, 'general', 50, 800)


def oracle(ctx):
    L.oracle_c05(ctx, L.MSSim)


def replay(ctx, obj):
    return L.replay_c05(ctx, obj, L.MSSim)
