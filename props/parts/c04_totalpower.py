"""C04, totalpower part: every reply has the protocol terminator / charset shape and echoes what the protocol echoes (theorems in coq/Properties/C04_totalpower.v over
coq/Model/SmcTotalpower.v; correspondence of the model with the real System; oracle on the real System)."""
from props.parts import smc_lib as L

PART = dict(name='c04_totalpower', simulator='totalpower', ready=True,
            coq_targets=['Properties/C04_totalpower.vo', 'Corr/SmcTotalpowerCorr.vo',
                         'Properties/C04_totalpower_packet.vo', 'Corr/SmcTpPacketCorr.vo'])


def correspondence(ctx):
    L.run_corr(ctx, L.TPSim, 'general', 40, 600)
    L.tpp_corr(ctx)          # data packets: System._send_packet / _get_status(binary) against Model/SmcTpPacket.v


def oracle(ctx):
    L.oracle_c04(ctx, L.TPSim)
    L.tpp_oracle(ctx)        # decoded-packet facts of Properties/C04_totalpower_packet.v on the real System


def replay(ctx, obj):
    if str(obj.get('klass', '')).startswith('totalpower_packet_'):
        return L.tpp_replay(ctx, obj)
    return L.replay_generic(ctx, obj, L.TPSim)
