"""C02 part, active surface (tag Usd): the four read-only queries of the USD line protocol
(get_version 0x10, get_position 0x12, get_status 0x13, get_driver_type 0x14; both start bytes; every
unit of the line) are answered by exactly one well-formed reply in every reachable state, the silent
mode (response-delay multiplier 255) excepted.

Correspondence: lines of 2..4 real USDs behind the real System._parse, histories that drive the
positions negative and to both range limits (plus configuration / delayed-execution / reset noise),
queries interleaved; model and specification folded in Coq (Corr/UsdCorr.v, lok).
Oracle: after the events of such histories every unit is probed with every query through the real
byte-wise System.parse exactly as the connection handler does."""
from props import usd_common as UC

PART = dict(name='c02_as', simulator='active_surface', ready=True,
            coq_targets=['Properties/C02_as.vo', 'Properties/C02_as_bytes.vo', 'Corr/UsdCorr.vo',
                         'Corr/UsdBytesCorr.vo'])

GETTERS = (0x10, 0x12, 0x13, 0x14)
NPAYLOAD = {0x10: 1, 0x12: 4, 0x13: 3, 0x14: 1}
IMPORTS = 'From DS Require Import Model.UsdModel Spec.UsdSpec Corr.UsdCorr.'


def drive_plan(rng, j):
    """events that take unit j somewhere interesting: below zero, to a range limit, or nowhere"""
    start = rng.choice([0xFA, 0xFC])
    r = rng.random()
    if r < 0.25:      # below zero by velocity
        v = -rng.choice([10, 1000, 99999, 100000, rng.randrange(10, 100001)])
        return [('uni', j, 0x35, start, UC.be_signed(v, 3))]
    if r < 0.45:      # a negative target
        t = -rng.choice([1, 2, 255, 256, 65536, rng.randrange(1, 2688001)])
        return [('uni', j, 0x30, start, UC.be_signed(t, 4))]
    if r < 0.60:      # rotation to a limit
        return [('uni', j, 0x32, start, [rng.choice([1, 255, 255])])]
    if r < 0.70:      # exactly a limit / beyond
        t = rng.choice([UC.MINP, UC.MAXP, UC.MINP - 5, UC.MAXP + 5, UC.MINP + 1])
        return [('uni', j, 0x30, start, UC.be_signed(t, 4))]
    if r < 0.80:      # relative step down
        return [('uni', j, 0x31, start, UC.be_signed(-rng.randrange(1, 100000), 4))]
    if r < 0.88:      # queued, triggered later
        return [('uni', j, 0x29, start, [0x80]), ('uni', j, 0x30, start, UC.be_signed(-rng.randrange(1, 50000), 4)),
                ('uni', j, 0x02, start, [])]
    return []


def gen_history(rng, line):
    """list of events for `line` (probes are ordinary unicast query events)"""
    n = len(line.units)
    ev = []
    for j in range(n):
        ev += drive_plan(rng, j)
    rng.shuffle(ev)
    out = []
    for _ in range(rng.randrange(2, 7)):
        r = rng.random()
        if r < 0.55:
            out.append(('tick', rng.choice([1, 10, 100, 1000, 4300, 20000, 65535, rng.randrange(1, 65536)])))
        elif r < 0.75:
            j = rng.randrange(n)
            e = UC.pick_event(rng, UC._View(line.units[j]), rng.choice(['config', 'delayed', 'motion']))
            out.append(('uni', j, e[1], e[2], e[3]) if e[0] == 'cmd' else ('tick', e[1]))
        elif r < 0.85:
            out.append(('bcast', rng.choice([0x11, 0x01, 0x26, 0x28]), rng.choice([0xFA, 0xFC]),
                        rng.choice([[], [rng.choice([0, 3, 9, 255])]])))
        else:
            out += drive_plan(rng, rng.randrange(n))
    # interleave: drive first, then the rest
    return ev + out


def run(impl, rng, probe_hook=None, with_probe_events=True):
    n = rng.choice([2, 2, 3, 4])
    first = rng.randrange(0, 32 - n + 1)
    idxs = list(range(first, first + n))
    clock0 = rng.choice([1, 1024, rng.randrange(1, 1 << 28)])
    line = UC.Line(impl, idxs, clock0)
    events, obs = [], []
    plan = gen_history(rng, line)
    for e in plan:
        batch = [e]
        if with_probe_events and rng.random() < 0.6:
            batch.append(('uni', rng.randrange(n), rng.choice(GETTERS), rng.choice([0xFA, 0xFC]), []))
        for x in batch:
            o = UC.apply_levent(line, x)
            events.append(x)
            obs.append((o, line.snapshots()))
            if o is not None and o[0] in ('B', 'E'):
                return line, idxs, clock0, events, obs
        if probe_hook:
            probe_hook(line, idxs, clock0, events)
    if with_probe_events:
        for j in range(n):       # final sweep: every unit, every query, both start bytes
            for code in GETTERS:
                x = ('uni', j, code, rng.choice([0xFA, 0xFC]), [])
                o = UC.apply_levent(line, x)
                events.append(x)
                obs.append((o, line.snapshots()))
    return line, idxs, clock0, events, obs


def correspondence(ctx):
    rng = ctx.rng
    terms = []
    with UC.implementation() as impl:
        for _ in range(ctx.n(30, 500)):
            line, idxs, c0, ev, obs = run(impl, rng)
            terms.append(UC.coq_line_case(idxs, c0, ev, obs))
            ctx.count('c02_as:histories')
            ctx.count('c02_as:queries', sum(1 for e in ev if e[0] == 'uni' and e[2] in GETTERS))
            ctx.count('c02_as:queries_at_negative_position',
                      sum(1 for e, (o, ss) in zip(ev, obs)
                          if e[0] == 'uni' and e[2] in GETTERS and ss[e[1]]['current_position'] < 0))
            ctx.count('c02_as:queries_at_a_limit',
                      sum(1 for e, (o, ss) in zip(ev, obs)
                          if e[0] == 'uni' and e[2] in GETTERS
                          and ss[e[1]]['current_position'] in (UC.MINP, UC.MAXP)))
            ctx.nontriv(('c02_as', tuple(idxs), c0, tuple(map(repr, ev))))
    ctx.sample(terms[0][:500])
    ctx.run_cases('c02_as_queries', IMPORTS, 'line_case', 'lok', terms, show='lshow', shard=ctx.n(8, 25))
    byte_correspondence(ctx)


# ---------------------------------------------------------------------------------------------
# byte level: any sequence of bytes through the real System.parse, then resynchronisation, then
# the queries

def coq_aout(o):
    if o[0] == 'R':
        return '(OReply %s)' % UC.zlist(o[1])
    return {'F': 'OFalse', 'T': 'OTrue', 'V': 'OValueError', 'E': 'OException', 'B': 'OException'}[o[0]]


def byte_history(rng, line, tags=None):
    """garbage / traffic chunks, the resynchronisation sequence, then a sweep of queries"""
    bs = []
    for _ in range(rng.randrange(1, 7)):
        tag, chunk = UC.garbage_chunk(rng, line)
        if tags is not None:
            tags.append(tag)
        bs += chunk
    return bs


def byte_correspondence(ctx):
    rng = ctx.rng
    terms = []
    with UC.implementation() as impl:
        for _ in range(ctx.n(40, 600)):
            n = rng.choice([1, 2, 3, 4])
            first = rng.randrange(0, 32 - n + 1)
            idxs = list(range(first, first + n))
            line = UC.Line(impl, idxs, 1024)
            tags = []
            bs = byte_history(rng, line, tags)
            if rng.random() < 0.8:
                bs += UC.resync_bytes(rng)
                for _ in range(rng.randrange(1, 5)):
                    bs += UC.uni_frame(rng.choice([0xFA, 0xFC]), rng.choice(idxs), rng.choice(GETTERS), [])
                tags.append('resync+queries')
            outs = []
            for b in bs:
                o = line.parse_byte(b)
                outs.append(o)
                if o[0] in ('E', 'B'):
                    break
            bs = bs[:len(outs)]
            terms.append('(%s, %s, %s, [%s], [%s])' % (
                UC.zlit(first), UC.zlist(idxs), UC.zlist(bs), '; '.join(coq_aout(o) for o in outs),
                '; '.join(UC.coq_snapshot(x) for x in line.snapshots())))
            for t in tags:
                ctx.count('c02_as:bytes:' + t)
            ctx.nontriv(('c02_as_bytes', first, n, tuple(bs)))
    ctx.run_cases('c02_as_bytes', 'From DS Require Import Model.UsdModel Model.AslLine Corr.UsdBytesCorr.',
                  'bytes_case', 'bok', terms, show='bshow', shard=ctx.n(10, 40))


# ---------------------------------------------------------------------------------------------
# oracle: the theorem C02_as_queries_answered on the real System.parse

def probe_all(line, j, failures):
    """every query, both start bytes, to unit j; appends (klass, what, probe) to failures"""
    u = line.units[j]
    idx = line.idxs[j]
    n = 0
    for code in GETTERS:
        for start in (0xFA, 0xFC):
            n += 1
            before = line.snapshots()
            replies, errors = line.feed(j, code, start, [])
            after = line.snapshots()
            probe = dict(unit=j, code=code, start=start, position=before[j]['current_position'])
            if after != before:
                failures.append(('active_surface_query_changed_state',
                                 'query %#x changed the state of the line' % code, probe))
            if before[j]['delay_multiplier'] == 255:
                if replies:
                    failures.append(('active_surface_silent_mode_answered',
                                     'unit in silent mode (delay 255) answered query %#x' % code, probe))
                continue
            if len(replies) != 1:
                failures.append(('active_surface_query_unanswered',
                                 'query %#x (start %#x) to unit %d at position %d: %d replies, errors %r'
                                 % (code, start, idx, before[j]['current_position'], len(replies), errors[:2]),
                                 probe))
                continue
            bad, payload = UC.check_answer(replies[0], start, idx, NPAYLOAD[code])
            if bad:
                failures.append(('active_surface_query_malformed_reply',
                                 'query %#x (start %#x) to unit %d: %s: %r' % (code, start, idx, bad, replies[0]),
                                 probe))
                continue
            s = before[j]
            if code == 0x12:
                want = UC.be_signed(s['current_position'], 4)
            elif code == 0x10:
                want = [19]
            elif code == 0x14:
                want = [0x20]
            else:
                d, v = s['io_dir'], s['io_val']
                res = {1: 0, 2: 1, 4: 2, 8: 3, 16: 4, 32: 5, 64: 6, 128: 7}.get(s['resolution'])
                want = [0, d[2] * 64 + d[1] * 32 + d[0] * 16 + v[2] * 4 + v[1] * 2 + v[0],
                        s['running'] * 128 + s['delayed_execution'] * 64 + s['ready'] * 32
                        + s['full_current'] * 16 + s['auto_resolution'] * 8 + (res or 0)]
            if payload != want:
                failures.append(('active_surface_query_wrong_value',
                                 'query %#x to unit %d: payload %r, state says %r' % (code, idx, payload, want),
                                 probe))
    return n


def query_after_bytes(line, j, code, start, failures, witness):
    """C02_as_bytes_then_query on the real System.parse: the four bytes of a query sent to an idle
    parser give True, True, True and then exactly one well-formed reply (True in silent mode)"""
    idx = line.idxs[j]
    before = line.snapshots()
    outs = [line.parse_byte(b) for b in UC.uni_frame(start, idx, code, [])]
    probe = dict(unit=j, code=code, start=start, position=before[j]['current_position'], outcomes=repr(outs))
    if line.snapshots() != before:
        failures.append(('active_surface_query_changed_state', 'query %#x changed the state of the line' % code,
                         probe))
    if outs[:3] != [('T',)] * 3:
        failures.append(('active_surface_query_not_framed',
                         'query %#x to unit %d after resynchronisation: parse outcomes %r' % (code, idx, outs), probe))
        return
    if before[j]['delay_multiplier'] == 255:
        if outs[3] != ('T',):
            failures.append(('active_surface_silent_mode_answered',
                             'unit in silent mode (delay 255): last outcome %r' % (outs[3],), probe))
        return
    if outs[3][0] != 'R':
        failures.append(('active_surface_query_unanswered',
                         'query %#x (start %#x) to unit %d at position %d: outcomes %r'
                         % (code, start, idx, before[j]['current_position'], outs), probe))
        return
    bad, payload = UC.check_answer(outs[3][1], start, idx, NPAYLOAD[code])
    if bad:
        failures.append(('active_surface_query_malformed_reply',
                         'query %#x (start %#x) to unit %d: %s: %r' % (code, start, idx, bad, outs[3][1]), probe))
    elif code == 0x12 and payload != UC.be_signed(before[j]['current_position'], 4):
        failures.append(('active_surface_query_wrong_value',
                         'get_position of unit %d: payload %r at position %d'
                         % (idx, payload, before[j]['current_position']), probe))


def byte_oracle(ctx, impl, rng, reported):
    """byte histories (garbage of every shape, traffic, time steps), the resynchronisation sequence,
    then the query sweep.  returns the number of queries sent"""
    n = rng.choice([1, 2, 3, 3, 4])
    first = rng.randrange(0, 32 - n + 1)
    idxs = list(range(first, first + n))
    clock0 = rng.randrange(1, 1 << 24)
    line = UC.Line(impl, idxs, clock0)
    script = []            # ('bytes', [..]) | ('tick', k)
    sent = 0
    for _ in range(rng.randrange(1, 4)):
        bs = byte_history(rng, line)
        script.append(('bytes', bs))
        for b in bs:
            line.parse_byte(b)
        if rng.random() < 0.5:
            k = rng.choice([1, 10, 1000, 65535])
            script.append(('tick', k))
            line.tick(k)
        rs = UC.resync_bytes(rng)
        script.append(('bytes', rs))
        for b in rs:
            line.parse_byte(b)
        failures = []
        queries = [(j, code, start) for j in range(n) for code in GETTERS for start in (0xFA, 0xFC)]
        rng.shuffle(queries)
        for j, code, start in queries[:rng.choice([2, 4, len(queries)])]:
            k0 = len(failures)
            query_after_bytes(line, j, code, start, failures, None)
            for klass, what, probe in failures[k0:]:
                if klass not in reported:
                    reported.add(klass)
                    ctx.fail(klass, what, dict(part='c02_as', level='bytes', idxs=idxs, clock0=clock0,
                                               script=[list(x) for x in script], probe=probe))
            script.append(('bytes', UC.uni_frame(start, idxs[j], code, [])))
            sent += 1
        if failures:
            break
    return sent


def oracle(ctx):
    rng = ctx.rng
    probes = 0
    reported = set()
    with UC.implementation() as impl:
        def hook(line, idxs, clock0, events):
            nonlocal probes
            failures = []
            for j in range(len(line.units)):
                probes += probe_all(line, j, failures)
            for klass, what, probe in failures:
                if klass not in reported:
                    reported.add(klass)
                    ctx.fail(klass, what, dict(part='c02_as', idxs=idxs, clock0=clock0,
                                               events=[list(e) for e in events], probe=probe))
        # scripted: negative positions and both limits
        for plan in SCRIPTED:
            line = UC.Line(impl, [1, 2, 3], 1024)
            done = []
            for e in plan:
                UC.apply_levent(line, e)
                done.append(e)
                hook(line, [1, 2, 3], 1024, done)
        for _ in range(ctx.n(60, 1200)):
            run(impl, rng, probe_hook=hook, with_probe_events=False)
        # byte level: the recorded shapes first, then seeded histories
        for bs in BYTE_SCRIPTED:
            line = UC.Line(impl, [1, 2, 3], 1024)
            for b in bs + [0] * 10:
                line.parse_byte(b)
            failures = []
            for j in range(3):
                for code in GETTERS:
                    query_after_bytes(line, j, code, 0xFC, failures, None)
                    probes += 1
            for klass, what, probe in failures:
                if klass not in reported:
                    reported.add(klass)
                    ctx.fail(klass, what, dict(part='c02_as', level='bytes', idxs=[1, 2, 3], clock0=1024,
                                               script=[['bytes', bs + [0] * 10]], probe=probe))
        for _ in range(ctx.n(250, 5000)):
            probes += byte_oracle(ctx, impl, rng, reported)
    ctx.oracle_stats['c02_as'] = dict(probes=probes)
    ctx.evaluations += probes


SCRIPTED = [
    [('uni', 0, 0x30, 0xFC, UC.be_signed(-1, 4)), ('tick', 10), ('uni', 1, 0x35, 0xFA, UC.be_signed(-100000, 3)),
     ('tick', 100), ('tick', 65535), ('uni', 2, 0x32, 0xFC, [1]), ('tick', 65535), ('tick', 1)],
    [('uni', 1, 0x31, 0xFA, UC.be_signed(-256, 4)), ('tick', 1), ('tick', 1), ('bcast', 0x28, 0xFC, [255]),
     ('uni', 1, 0x28, 0xFC, [0])],
]


BYTE_SCRIPTED = [
    [0xFA, 0x01], [0xFC, 0x1F], [0xFA, 0x00, 0x00], [0xFC, 0x00, 0x08], [0xFA], [0xFC, 0x21],
    [0xFA, 0xFA, 0xFC, 0x05], [0xFC, 0x21, 0x12, 0x00], [0xFA, 0xE1, 0x30, 1, 2, 3], [0x00, 0x07, 0xFB],
]


def replay(ctx, obj):
    w = obj.get('witness') or {}
    if w.get('part') != 'c02_as':
        return False
    if w.get('level') == 'bytes':
        with UC.implementation() as impl:
            line = UC.Line(impl, w['idxs'], w['clock0'])
            for kind, x in w['script']:
                if kind == 'tick':
                    line.tick(x)
                else:
                    for b in x:
                        line.parse_byte(b)
            failures = []
            p = w['probe']
            query_after_bytes(line, p['unit'], p['code'], p['start'], failures, None)
        return any(k == obj.get('klass') for k, _, _ in failures)
    with UC.implementation() as impl:
        line = UC.replay_line(impl, w['idxs'], w['clock0'], [tuple(e) for e in w['events']])
        failures = []
        probe_all(line, w['probe']['unit'], failures)
    return any(k == obj.get('klass') for k, _, _ in failures)
