"""C03 part, active surface: framing automaton of System.parse (Model/AslLine.v fstep) —
correspondence on random / truncated / corrupted / nested-header streams followed by the
resynchronisation sequence and a probe query, and the resync oracle on the real System."""
from props import asl_lib as L

PART = dict(name='c03_as', simulator='active_surface', ready=True,
            coq_targets=['Properties/C03_as.vo', 'Corr/AslCorr.vo'])


def gen_stream(rng, lo, hi):
    """malformed-biased byte history"""
    bs, tags = [], []
    for _ in range(rng.randrange(1, 9)):
        if rng.random() < 0.6:
            g, t = L.gen_garbage(rng)
            tags.append('garbage:' + t)
        else:
            g, t = L.gen_message(rng, lo, hi)
            tags.append(t)
        bs += g
    return bs, tags


def resync_bytes(rng, n):
    nh = [b for b in range(256) if b not in (L.FA, L.FC)]
    return [rng.choice(nh) if rng.random() < 0.8 else rng.choice([0, 1, 7, 8, 0x20, 0xFB, 0xFD, 255])
            for _ in range(n)]


def correspondence(ctx):
    rng = ctx.rng
    cases = []
    n = ctx.n(220, 3000)
    while len(cases) < n:
        lo, hi = L.gen_config(rng)
        bs, tags = gen_stream(rng, lo, hi)
        r = rng.random()
        if r < 0.6:
            # resynchronisation sequence, then a probe query to a present unit
            bs += resync_bytes(rng, rng.choice([10, 10, 11, 12, 20]))
            bs += L.frame(rng.choice([L.FA, L.FC]), rng.randrange(lo, hi + 1), rng.choice(L.GETTERS), [])
            tags.append('resync+probe')
        elif r < 0.8:
            bs += resync_bytes(rng, rng.randrange(0, 10))       # too short to guarantee anything
            tags.append('short-resync')
        try:
            term, outs, units = L.run_history(lo, hi, [], bs)
        except L.UsdRaised:
            continue
        cases.append(term)
        for t in tags:
            ctx.count('c03_as:' + t)
        if any(o in ('V', 'E') or isinstance(o, list) for o in outs):
            ctx.nontriv(('c03_as', lo, hi, tuple(bs)))
    ctx.sample(cases[0][:500])
    ctx.run_cases('c03_as_streams', L.LINE_IMPORTS, 'lcase', 'ok_line', cases, show='show_line',
                  shard=ctx.n(40, 250))


# ---------------------------------------------------------------------------------------------

def check_one(w):
    """the resync property on the real System for one witness"""
    lo, hi = w['min'], w['max']
    hist = list(bytes.fromhex(w['history']))
    resync = list(bytes.fromhex(w['resync']))
    with L.frozen_time():
        s = L.make_line(lo, hi)
        # 1. never waits for more than 7 further bytes; buffer bounded; rejection is immediate
        for i, b in enumerate(hist):
            before = L.fstate_of(s)
            o = L.classify(s, b)
            msg, to_all, exp = L.fstate_of(s)
            if not 0 <= exp <= 7:
                return 'expected_bytes = %d after byte %d' % (exp, i)
            if len(msg) > 10:
                return 'buffer of %d bytes after byte %d' % (len(msg), i)
            if o in ('V', 'E', 'F') and (msg, to_all, exp) != ([], False, 0):
                return 'parser not idle after outcome %r at byte %d' % (o, i)
            if isinstance(o, list) and (msg, to_all, exp) != ([], False, 0):
                return 'parser not idle after a reply at byte %d' % i
            if len(before[0]) == 1 and 1 <= b <= 31 and o != 'V':
                return 'length nibble 0 not rejected at once (byte %d, outcome %r)' % (i, o)
            if len(before[0]) == 2 and before[1] and not 1 <= b <= 7 and o != 'V':
                return 'broadcast length %d not rejected at once (byte %d)' % (b, i)
            if before[0] == [] and b not in (L.FA, L.FC) and o != 'F':
                return 'idle parser did not discard non-header byte %d' % b
        # 2. resynchronisation: >= 10 non-header bytes leave the parser idle
        L.feed(s, resync)
        if L.fstate_of(s) != ([], False, 0):
            return 'parser not idle after %d non-header bytes: %r' % (len(resync), L.fstate_of(s),)
        # 3. idle discards without effect
        snap = L.snapshots(s)
        for b in (0x00, 0x01, 0xFB, 0x06, 0x15):
            if L.classify(s, b) != 'F' or L.fstate_of(s) != ([], False, 0):
                return 'idle parser did not discard byte %d' % b
        if L.snapshots(s) != snap:
            return 'discarded bytes changed a unit'
        # 4. the next well-formed command is framed and answered as on a fresh parser
        for u in s.drivers:
            u.delay_multiplier = 5
        j = w['probe_unit']
        probe = L.frame(L.FC, lo + j, 0x12, [])
        outs = L.feed(s, probe)
        pos = s.drivers[j].current_position
        body = [L.ACK, L.FC, (4 << 5) | (lo + j)] + list((pos % 2 ** 32).to_bytes(4, 'big'))
        expect = ['T'] * (len(probe) - 1) + [body + [L.checksum(body)]]
        if outs != expect:
            return 'probe query after resync: outcomes %r, expected %r' % (outs, expect)
    return None


def oracle(ctx):
    rng = ctx.rng
    checked = 0
    ws = [
        dict(min=1, max=3, history='fa01', resync='00' * 10, probe_unit=0),
        dict(min=1, max=3, history='fc0008', resync='00' * 10, probe_unit=1),
        dict(min=0, max=0, history='fc00073001', resync='01' * 10, probe_unit=0),
        dict(min=0, max=31, history='fae1', resync='07' * 10, probe_unit=31),
        dict(min=1, max=17, history='fc', resync='00' + '07' + '09' * 8, probe_unit=16),
    ]
    for _ in range(ctx.n(700, 12000)):
        lo, hi = L.gen_config(rng)
        hist, _ = gen_stream(rng, lo, hi)
        nh = [b for b in range(256) if b not in (L.FA, L.FC)]
        k = rng.choice([10, 10, 10, 11, 15])
        r = rng.random()
        if r < 0.3:
            resync = [rng.choice([0, 7])] + [rng.choice([7, 6, 1, 0])] + [rng.choice(nh) for _ in range(k - 2)]
        else:
            resync = [rng.choice(nh) for _ in range(k)]
        ws.append(dict(min=lo, max=hi, history=bytes(hist).hex(), resync=bytes(resync).hex(),
                       probe_unit=rng.randrange(hi - lo + 1)))
    seen = set()
    for w in ws:
        checked += 1
        bad = check_one(w)
        if bad:
            key = bad.split(' at byte')[0][:30]
            if key not in seen:
                seen.add(key)
                ctx.fail('active_surface-framing', bad, shrink(w))
    ctx.oracle_stats['c03_as'] = dict(checked=checked)
    ctx.evaluations += checked


def shrink(w):
    w = dict(w)
    h = bytes.fromhex(w['history'])
    # drop leading bytes while it still fails
    i = 0
    while i < len(h):
        t = dict(w, history=(h[:i] + h[i + 1:]).hex())
        if check_one(t):
            h = h[:i] + h[i + 1:]
            w = t
        else:
            i += 1
        if len(h) > 60:
            break
    return w


def replay(ctx, obj):
    w = obj.get('witness') or {}
    if 'history' not in w or 'resync' not in w:
        return False
    bad = check_one(w)
    if bad:
        print('  replay:', bad)
    return bool(bad)
