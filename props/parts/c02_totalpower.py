"""C02, totalpower part: from every reachable idle state each catalogue query yields exactly one reply (theorems in coq/Properties/C02_totalpower.v over
coq/Model/SmcTotalpower.v; correspondence of the model with the real System; oracle on the real System)."""
from props.parts import smc_lib as L

PART = dict(name='c02_totalpower', simulator='totalpower', ready=True,
            coq_targets=['Properties/C02_totalpower.vo', 'Corr/SmcTotalpowerCorr.vo'])


def correspondence(ctx):
    L.run_corr(ctx, L.TPSim, 'queries', 30, 500, maxlen=12)


def oracle(ctx):
    L.oracle_c02(ctx, L.TPSim)


def replay(ctx, obj):
    return L.replay_c02(ctx, obj, L.TPSim)
