"""C02 — backend part (generic backend, sardara, mistral): status/version/time/get-* queries answered once in every reachable state.
Theorems: coq/Properties/C02_backend.v over coq/Model/BckModel.v; harness: props/bck_common.py, props/bck_parts.py,
oracle: props/bck_oracle.py (classes C02_CLASSES)."""
from props import bck_parts, bck_oracle

PART = dict(name='c02_backend', simulator='backend', ready=True,
            coq_targets=['Properties/C02_backend.vo', 'Corr/BckCorr.vo'],
            what='status/version/time/get-* queries answered once in every reachable state')


def correspondence(ctx):
    bck_parts.part_correspondence(ctx, 'c02', ctx.n(150, 2500))


def oracle(ctx):
    bck_parts.part_oracle(ctx, 'C02', bck_oracle.C02_CLASSES, ctx.n(250, 4000))


def replay(ctx, obj):
    return bck_parts.part_replay(ctx, obj)
