"""C03, totalpower part: the framer of simulators/totalpower returns to idle (theorems in
coq/Properties/C03_totalpower.v over coq/Model/SmcTotalpower.v; correspondence on framing-heavy and general
byte histories; oracle = the three statements on the real System)."""
from props.parts import smc_lib as L

PART = dict(name='c03_totalpower', simulator='totalpower', ready=True,
            coq_targets=['Properties/C03_totalpower.vo', 'Corr/SmcTotalpowerCorr.vo'])


def correspondence(ctx):
    L.run_corr(ctx, L.TPSim, 'framing', 40, 600, maxlen=14)
    L.run_corr(ctx, L.TPSim, 'general', 30, 500)


def oracle(ctx):
    L.oracle_c03(ctx, L.TPSim)


def replay(ctx, obj):
    return L.replay_c03(ctx, obj, L.TPSim)
