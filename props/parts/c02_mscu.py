"""C02, mscu part: from every reachable idle state each catalogue query yields exactly one reply (theorems in coq/Properties/C02_mscu.v over
coq/Model/SmcMscu.v; correspondence of the model with the real System; oracle on the real System)."""
from props.parts import smc_lib as L

PART = dict(name='c02_mscu', simulator='mscu', ready=True,
            coq_targets=['Properties/C02_mscu.vo', 'Corr/SmcMscuCorr.vo'])


def correspondence(ctx):
    L.run_corr(ctx, L.MSSim, 'queries', 30, 500, maxlen=12)


def oracle(ctx):
    L.oracle_c02(ctx, L.MSSim)


def replay(ctx, obj):
    return L.replay_c02(ctx, obj, L.MSSim)
