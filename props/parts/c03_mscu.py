"""C03, mscu part: the framer of simulators/mscu returns to idle (theorems in
coq/Properties/C03_mscu.v over coq/Model/SmcMscu.v; correspondence on framing-heavy and general
byte histories; oracle = the three statements on the real System)."""
from props.parts import smc_lib as L

PART = dict(name='c03_mscu', simulator='mscu', ready=True,
            coq_targets=['Properties/C03_mscu.vo', 'Corr/SmcMscuCorr.vo'])


def correspondence(ctx):
    L.run_corr(ctx, L.MSSim, 'framing', 40, 600, maxlen=14)
    L.run_corr(ctx, L.MSSim, 'general', 30, 500)


def oracle(ctx):
    L.oracle_c03(ctx, L.MSSim)


def replay(ctx, obj):
    return L.replay_c03(ctx, obj, L.MSSim)
