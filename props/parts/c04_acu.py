"""C04 part for simulators/acu (tag Aax): the ACU's "reply" to a mode / parameter command is the axis block
of the status frame — received_mode_command_(counter, command, answer), executed_mode_command_(counter,
command, answer), parameter_command_(counter, command, answer).  The triples must name the request they
answer.  Model: coq/Model/AaxReply.v on top of the thread-ledger model coq/Model/AaxModel.v (C15); theorems
coq/Properties/C04_acu.v.  Harness: the per-thread virtual clock of props/c15.py (real command threads of the
real MasterAxisStatus objects, one loop iteration per step, no sleeping)."""
from vlib.core import zlit, zlist, optlit
from props import c15 as K

PART = dict(name='c04_acu', simulator='acu', ready=True,
            coq_targets=['Properties/C04_acu.vo', 'Corr/AaxReplyCorr.vo'])

KNOWN_MODES = set(K.Rig.MODES.values())          # 0 is '_ignore': answered like an unknown id
UNKNOWN_MODES = [0, 6, 9, 10, 13, 16, 49, 53, 100, 32767, -1, -32768]
C04_CLASSES = ('executed_triple_overwritten', 'executed_triple_wrong', 'received_triple', 'parameter_triple',
               'param_offset_overflow', 'thread_exception', 'refused_changed_state')


class RRig(K.Rig):
    """operations return terms of Model/AaxReply.revent (refused / unknown commands are events too)"""

    def raw_frame(self, cnt, mode, p1, p2):
        U = self.U
        return (U.uint_to_string(1, 2) + U.uint_to_string(self.axis_id, 2) + U.uint_to_string(cnt, 4)
                + U.int_to_string(mode, 2) + U.real_to_string(float(p1), 2) + U.real_to_string(float(p2), 2))

    def rcommand(self, cnt, mode, p1=0.0, p2=0.0):
        a = self.a
        h = K.spawn(a._mode_command, self.raw_frame(cnt, mode, p1, p2), self.stop)
        if h.exc is not None:
            self.exceptions.append(('mode %d' % mode, repr(h.exc)))
        ans = a.received_mode_command_answer
        if mode not in KNOWN_MODES:
            return 'RMode %s %s VUnknown' % (zlit(cnt), zlit(mode))
        if ans != 9 or a.received_mode_command_counter != cnt:
            return 'RMode %s %s (VRefused %s)' % (zlit(cnt), zlit(mode), zlit(ans))
        self.handles.append(h)
        ir = K.ir
        t = {1: 'CInactive', 2: 'CActive', 7: 'CStop', 14: 'CInterlock', 15: 'CReset', 50: 'CStow',
             51: 'CUnstow'}.get(mode)
        if mode == 3:
            t = 'CAbs %s %s' % (zlit(ir(p1 * 1000000)), zlit(ir(p2 * 1000000)))
        elif mode == 4:
            t = 'CRel %s %s' % (zlit(ir(p1 * 1000000)), zlit(ir(p2 * 1000000)))
        elif mode == 5:
            t = 'CSlew %s' % zlit(ir(p2 * 1000000 * p1))
        elif mode == 8:
            t = 'CTrack %s' % zlit(ir(p2 * 1000000))
        elif mode == 52:
            t = 'CDriveStow %s %s' % (zlit(int(p1)), zlit(ir(p2 * 1000000)))
        return 'RMode %s %s (VAccepted (%s)); RTick %d 0' % (zlit(cnt), zlit(mode), t, len(self.handles) - 1)

    def rparam(self, cnt, pid, deg):
        U = self.U
        cmd = (U.uint_to_string(2, 2) + U.uint_to_string(self.axis_id, 2) + U.uint_to_string(cnt, 4)
               + U.uint_to_string(pid, 2) + U.real_to_string(float(deg), 2) + U.real_to_string(0.0, 2))
        try:
            self.a._parameter_command(cmd, self.stop)
        except Exception:       # the command thread dies (INT32 setter)
            pass
        return 'RParam %s %s %s' % (zlit(cnt), zlit(pid), zlit(K.ir(deg * 1000000)))

    def robserve(self):
        a = self.a
        return self.observe() + [a.received_mode_command_counter, a.received_mode_command,
                                 a.received_mode_command_answer, a.parameter_command_counter,
                                 a.parameter_command, a.parameter_command_answer]


NAME_OF = {v: k for k, v in K.Rig.MODES.items()}
NONFATAL = ('param_offset_overflow',)       # known finding: keep the history going


class ReplyMonitor:
    """received / parameter triples (the executed triple is watched by props/c15.Monitor)"""

    def __init__(self, rig):
        self.r = rig
        self.failures = []
        self.pre = None

    def bad(self, klass, what, **d):
        self.failures.append((klass, what, d))

    def before(self, op):
        a = self.r.a
        self.pre = dict(active=a.axis_state == 3, off=a.p_Offset,
                        par=(a.parameter_command_counter, a.parameter_command, a.parameter_command_answer),
                        rec=(a.received_mode_command_counter, a.received_mode_command,
                             a.received_mode_command_answer))

    def after(self, op):
        a = self.r.a
        rec = (a.received_mode_command_counter, a.received_mode_command, a.received_mode_command_answer)
        par = (a.parameter_command_counter, a.parameter_command, a.parameter_command_answer)
        kind = op[0]
        if kind == 'mode':
            _, cnt, mode, _p1, _p2 = op
            known = mode in KNOWN_MODES
            ok = rec[0] == cnt and rec[1] == (mode if known else 0) and \
                (rec[2] in (9, 4, 5) if known else rec[2] == 0)
            if not ok:
                self.bad('received_triple', 'received-command triple does not name the mode command just received',
                         op=op, received=list(rec))
        elif rec != self.pre['rec']:
            self.bad('received_triple', 'received-command triple changed without a mode command', op=op,
                     received=list(rec))
        if kind == 'param':
            _, cnt, pid, deg = op
            z = K.ir(deg * 1000000)
            new = z if pid == 11 else self.pre['off'] + z
            fits = -2 ** 31 <= new < 2 ** 31
            want = 4 if not self.pre['active'] else (1 if fits else 5) if pid in (11, 12) else 5
            if par[:2] != (cnt, pid):
                self.bad('parameter_triple', 'parameter-command triple does not name the command just received',
                         op=op, parameter=list(par))
            elif par[2] != want:
                over = self.pre['active'] and pid in (11, 12) and not fits
                self.bad('param_offset_overflow' if over else 'parameter_triple',
                         'parameter-command answer is not the answer to the command it names'
                         + (' (offset beyond INT32: the handler raised, the previous answer stayed)' if over else ''),
                         op=op, parameter=list(par), expected_answer=want)
        elif par != self.pre['par']:
            self.bad('parameter_triple', 'parameter-command triple changed without a parameter command', op=op)


def apply_rop(rig, op, mon15=None, rmon=None):
    """['mode', cnt, mode_id, p1, p2] | ['param', cnt, pid, deg] | ['tick', id, k] | ['update'] |
    ['feed', next, ptState, p_Bahn]  ->  revent term"""
    kind = op[0]
    op15 = None
    if kind == 'mode' and op[2] in KNOWN_MODES:
        op15 = ['cmd', op[1], NAME_OF[op[2]], op[3], op[4]]
    elif kind in ('tick', 'update', 'feed'):
        op15 = op
    if rmon is not None:
        rmon.before(op)
    if mon15 is not None:
        mon15.before(op15 or ['update'])
    if kind == 'mode':
        term = rig.rcommand(op[1], op[2], op[3], op[4])
    elif kind == 'param':
        term = rig.rparam(op[1], op[2], op[3])
    elif kind == 'tick':
        rig.tick(op[1], op[2])
        term = 'RTick %s %s' % (zlit(op[1]), zlit(op[2]))
    elif kind == 'update':
        rig.update()
        term = 'RUpdate'
    elif kind == 'feed':
        rig.feed(op[1], op[2], op[3])
        term = 'RFeed %s %s %s' % (optlit(op[1]), zlit(op[2]), zlit(op[3]))
    else:
        raise ValueError(op)
    if mon15 is not None and op15 is not None:
        mon15.after(op15, 'VAccepted' in term)
    if rmon is not None:
        rmon.after(op)
    return term


class RScript(K.Script):
    """the C15 history generator with fresh counters only, unknown mode ids and arbitrary parameter ids"""

    def __init__(self, rng, rig, mon15=None, rmon=None, mode='soup'):
        K.Script.__init__(self, rng, rig, None, mode)
        self.mon15, self.rmon = mon15, rmon
        self.changed = False

    def next_counter(self):
        self.cnt += self.rng.choice([1, 1, 1, 2, 7, 1000])
        return self.cnt

    def do(self, op):
        if op[0] == 'cmd':
            op = ['mode', op[1], K.Rig.MODES[op[2]], op[3], op[4]]
        elif op[0] == 'offset':
            op = ['param', op[1], 12 if op[2] else 11, op[3]]
        self.ops.append(op)
        term = apply_rop(self.r, op, self.mon15, self.rmon)
        o = self.r.robserve()
        if self.hist and o[12:15] != self.hist[-1][1][12:15]:
            self.changed = True
        self.hist.append((term, o))

    def step(self):
        rng = self.rng
        x = rng.random()
        if x < 0.05:
            self.kinds.append('unknown_mode')
            self.do(['mode', self.next_counter(), rng.choice(UNKNOWN_MODES), rng.uniform(-5, 5), rng.uniform(-1, 1)])
        elif x < 0.10:
            self.kinds.append('param')
            self.do(['param', self.next_counter(), rng.choice([11, 12, 11, 12, 0, 13, 50, 61, 65535]),
                     rng.choice([0.0, 0.25, -1.5, rng.uniform(-3, 3), 3000.0, -2147.483649, 2147.483647])])
        else:
            K.Script.step(self)

    def quiesce(self):
        """advance every live command thread until it has ended or stopped making progress"""
        for _ in range(4):
            for mid in self.r.live():
                self.do(['tick', mid, 1 << 19])

    def run(self, n):
        try:
            for _ in range(n):
                self.step()
                if (self.mon15 is not None and self.mon15.failures) or \
                        (self.rmon is not None and any(f[0] not in NONFATAL for f in self.rmon.failures)):
                    return
            self.quiesce()
        finally:
            self.r.close()


def make_rig(AS, conf, start):
    axis = K.make_axis(AS, conf, start)
    axis.update_status()
    return RRig(axis, conf['axis_id'])


def pick_conf(rng, confs, i):
    conf = confs[i % 2] if rng.random() < 0.7 else rng.choice(K.EXTRA_CONFIGS)
    lo, hi = conf['op_range']
    start = None
    if rng.random() < 0.5:
        start = rng.choice([lo, hi, round(rng.uniform(lo, hi), 3)] + list(conf['stow_pos'] or []))
    return conf, start


def correspondence(ctx):
    AS = K.install_clock()
    _system, confs = K.system_config()
    rng = ctx.rng
    cases = []
    for i in range(ctx.n(60, 1200)):
        conf, start = pick_conf(rng, confs, i)
        rig = make_rig(AS, conf, start)
        o0 = rig.robserve()
        sc = RScript(rng, rig, mode='drive' if rng.random() < 0.5 else 'soup')
        sc.run(rng.choice([10, 20, 40]))
        cases.append('(%s, %s, %s, [%s])' % (
            rig.cfg_term(), zlit(rig.p0), zlist(o0),
            ';\n  '.join('([%s], %s)' % (t, zlist(o)) for t, o in sc.hist)))
        for k in sc.kinds:
            ctx.count('acu_' + k)
        if sc.changed:
            ctx.nontriv(('acu_reply', cases[-1]))
    ctx.sample(cases[0][:500])
    ctx.run_cases('acu_reply', 'From DS Require Import Model.AaxModel Model.AaxReply Corr.AaxReplyCorr.',
                  'aaxr_case', 'rok', cases, show='rshow', shard=ctx.n(8, 40))


def interrupted(confs):
    """every looping command interrupted in mid-flight by every kind of newer command; then all threads
    are advanced to quiescence (RScript.quiesce) and the triples must name the last command"""
    az, el = confs[0], confs[1]
    out = []
    first = {'abs': (3, 185.0, 0.5), 'rel': (4, 3.0, 0.5), 'slew': (5, 1.0, 0.4), 'track': (8, 0.0, 0.5)}
    second = {'stop': (7, 0.0, 0.0), 'abs': (3, 179.5, 0.85), 'rel': (4, -0.5, 0.3), 'slew': (5, -1.0, 0.2),
              'track': (8, 0.0, 0.2), 'interlock': (14, 0.0, 0.0), 'inactive': (1, 0.0, 0.0)}
    for f, (fm, f1, f2) in first.items():
        for s, (sm, s1, s2) in second.items():
            ops = [['mode', 101, 2, 0.0, 0.0], ['mode', 201, fm, f1, f2]]
            if f == 'track':
                ops.append(['feed', 183000000, 2, 183000000])
            ops += [['tick', 1, 1024], ['tick', 1, 512], ['mode', 301, sm, s1, s2], ['tick', 1, 1024],
                    ['tick', 2, 1024], ['tick', 1, 256], ['update']]
            out.append(('%s_interrupted_by_%s' % (f, s), az, None, ops))
    for s, (sm, s1, s2) in {'stow': (50, 0.0, 0.0), 'unstow': (51, 0.0, 0.0), 'drive': (52, 0.0, 0.2),
                            'stop': (7, 0.0, 0.0), 'abs': (3, 70.0, 0.5)}.items():
        for fm, f1, f2 in ((3, 60.0, 0.5), (5, -1.0, 0.5), (52, 0.0, 0.25)):
            ops = [['mode', 101, 2, 0.0, 0.0], ['mode', 201, fm, f1, f2], ['tick', 1, 2048],
                   ['mode', 301, sm, s1, s2], ['tick', 1, 1024], ['tick', 2, 1024], ['tick', 1, 10]]
            out.append(('el_%d_interrupted_by_%s' % (fm, s), el, 80.0, ops))
    out.append(('unknown_and_refused', az, None,
                [['mode', 5, 99, 1.0, 1.0], ['mode', 6, 0, 0.0, 0.0], ['mode', 7, 3, 181.0, 0.5],
                 ['mode', 8, 2, 0.0, 0.0], ['mode', 9, 3, 999.0, 0.5], ['mode', 10, -1, 0.0, 0.0],
                 ['param', 11, 11, 0.5], ['param', 12, 13, 0.5], ['param', 13, 12, -0.25]]))
    out.append(('offset_beyond_int32', az, None,
                [['mode', 1, 2, 0.0, 0.0], ['param', 2, 11, 0.001], ['param', 3, 11, 3000.0]]))
    return out


def run_rops(AS, conf, start, ops, quiesce=True):
    rig = make_rig(AS, conf, start)
    mon15 = K.Monitor(rig)
    rmon = ReplyMonitor(rig)
    import random
    sc = RScript(random.Random(0), rig, mon15, rmon)
    try:
        for op in ops:
            sc.do(op)
            if mon15.failures or any(f[0] not in NONFATAL for f in rmon.failures):
                break
        else:
            if quiesce:
                sc.quiesce()
    finally:
        rig.close()
    return sc, [f for f in mon15.failures if f[0] in C04_CLASSES] + rmon.failures


def oracle(ctx):
    AS = K.install_clock()
    _system, confs = K.system_config()
    rng = ctx.rng
    checked = 0
    stats = dict(directed=0, seeded=0)

    def report(fails, conf, start, ops, origin):
        fails = [f for f in fails if f[0] not in NONFATAL] or fails
        for klass, what, detail in fails[:1]:
            ctx.fail('acu_' + klass, 'acu: ' + what, dict(sim='acu', origin=origin, conf=conf, start=start,
                                                          ops=ops, detail=detail))

    for name, conf, start, ops in interrupted(confs):
        sc, fails = run_rops(AS, conf, start, ops)
        checked += len(sc.ops)
        stats['directed'] += 1
        report(fails, conf, start, sc.ops, 'directed:' + name)
    for i in range(ctx.n(80, 1500)):
        conf, start = pick_conf(rng, confs, i)
        rig = make_rig(AS, conf, start)
        mon15 = K.Monitor(rig)
        rmon = ReplyMonitor(rig)
        sc = RScript(rng, rig, mon15, rmon, mode='drive' if rng.random() < 0.7 else 'soup')
        sc.run(rng.choice([15, 30, 60]))
        checked += len(sc.ops)
        stats['seeded'] += 1
        fails = [f for f in mon15.failures if f[0] in C04_CLASSES] + rmon.failures
        report(fails, conf, start, sc.ops, 'seeded')
    ctx.oracle_stats['acu'] = dict(operations=checked, **stats)
    ctx.evaluations += checked


def replay(ctx, obj):
    w = obj.get('witness') or {}
    if w.get('sim') != 'acu':
        return False
    AS = K.install_clock()
    _sc, fails = run_rops(AS, w['conf'], w['start'], w['ops'], quiesce=False)
    return any('acu_' + f[0] == obj.get('klass') for f in fails)
