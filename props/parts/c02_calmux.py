"""C02 part for simulators/calmux (tag Sma): see props/parts/sma_lib.py"""
from props.parts import sma_lib

PART = dict(name='c02_calmux', simulator='calmux', ready=True,
            coq_targets=['Properties/C02_calmux.vo', 'Corr/SmaCalmuxCorr.vo'])


def correspondence(ctx):
    sma_lib.correspondence(ctx, 'calmux', 'c02')


def oracle(ctx):
    sma_lib.oracle(ctx, 'calmux', 'c02')


def replay(ctx, obj):
    return sma_lib.replay(ctx, obj, 'calmux', 'c02')
