"""C05 — backend part (generic backend, sardara, mistral): configuration, file name, integration time read back; refused requests change nothing.
Theorems: coq/Properties/C05_backend.v over coq/Model/BckModel.v; harness: props/bck_common.py, props/bck_parts.py,
oracle: props/bck_oracle.py (classes C05_CLASSES)."""
from props import bck_parts, bck_oracle

PART = dict(name='c05_backend', simulator='backend', ready=True,
            coq_targets=['Properties/C05_backend.vo', 'Corr/BckCorr.vo'],
            what='configuration, file name, integration time read back; refused requests change nothing')


def correspondence(ctx):
    bck_parts.part_correspondence(ctx, 'c05', ctx.n(150, 2500))


def oracle(ctx):
    bck_parts.part_oracle(ctx, 'C05', bck_oracle.C05_CLASSES, ctx.n(250, 4000))


def replay(ctx, obj):
    return bck_parts.part_replay(ctx, obj)
