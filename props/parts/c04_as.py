"""C04 part, active surface: every reply observed from the real System is pushed through the
independent Coq decoder (Spec/AslReplySpec.v, Corr/AslReplyCorr.v); the histories are also
compared with the line model; oracle = Python transcription of the decoder on the real line."""
from vlib.core import zlist
from props import asl_lib as L

PART = dict(name='c04_as', simulator='active_surface', ready=True,
            coq_targets=['Properties/C04_as.vo', 'Corr/AslReplyCorr.vo', 'Corr/AslCorr.vo'])


def gen_requests(rng, lo, hi, n):
    """reply-biased traffic: mostly unicast to present units, many getters, both start bytes"""
    out = []
    for _ in range(n):
        r = rng.random()
        if r < 0.45:
            out.append(L.frame(rng.choice([L.FA, L.FC]), rng.randrange(lo, hi + 1), rng.choice(L.GETTERS), []))
        elif r < 0.9:
            tgt = rng.randrange(lo, hi + 1) if rng.random() < 0.8 else L.gen_target(rng, lo, hi)[0]
            out.append(L.gen_message(rng, lo, hi, target=tgt, tkind='x')[0])
        else:
            out.append(L.gen_garbage(rng)[0])
    return out


def run_collect(lo, hi, pokes, chunks):
    """feed the chunks to a fresh real line; returns [(request frame, reply)] for every reply"""
    pairs = []
    with L.frozen_time():
        s = L.make_line(lo, hi)
        L.apply_pokes(s, pokes)
        for ch in chunks:
            for b in ch:
                pre = [ord(c) for c in s.msg]
                o = L.classify(s, b)
                if isinstance(o, list):
                    pairs.append((pre + [b], o))
    return pairs


def correspondence(ctx):
    rng = ctx.rng
    rcases, lcases = [], []
    n = ctx.n(200, 2500)
    for k in range(n):
        lo, hi = L.gen_config(rng)
        pokes = L.gen_pokes(rng, hi - lo + 1, soft=True, p=0.7)
        chunks = gen_requests(rng, lo, hi, rng.randrange(2, 12))
        pairs = run_collect(lo, hi, pokes, chunks)
        for req, rep in pairs:
            rcases.append('RCase %s %s' % (zlist(req), zlist(rep)))
            ctx.count('c04_as:reply:%s' % ('data' if len(rep) > 1 else 'ack/nak'))
            ctx.nontriv(('c04_as', tuple(req), tuple(rep)))
        if k % 3 == 0:
            try:
                term, outs, units = L.run_history(lo, hi, pokes, [b for ch in chunks for b in ch])
                lcases.append(term)
            except L.UsdRaised:
                pass
    if rcases:
        ctx.sample(rcases[0])
    ctx.run_cases('c04_as_replies', 'From DS Require Import Spec.AslReplySpec Corr.AslReplyCorr.', 'rcase',
                  'ok_reply', rcases, show='show_reply', shard=ctx.n(600, 3000))
    ctx.run_cases('c04_as_line', L.LINE_IMPORTS, 'lcase', 'ok_line', lcases, show='show_line',
                  shard=ctx.n(40, 250))


# ---------------------------------------------------------------------------------------------

def py_decode(reply):
    """Python twin of usd_decode; returns (kind, start, addr, payload) or None"""
    if any(not 0 <= b <= 255 for b in reply):
        return None
    if reply == [L.ACK]:
        return ('ack', None, None, [])
    if reply == [L.NAK]:
        return ('nak', None, None, [])
    if len(reply) < 4 or reply[0] != L.ACK or sum(reply) % 256 != 255:
        return None
    if reply[1] == L.FA:
        return ('data', L.FA, None, reply[2:-1])
    if reply[1] == L.FC and len(reply) >= 5:
        hdr, payload = reply[2], reply[3:-1]
        if hdr >> 5 != len(payload) or len(payload) < 1:
            return None
        return ('data', L.FC, hdr & 31, payload)
    return None


def check_one(w):
    lo, hi = w['min'], w['max']
    pokes = [tuple(p) for p in w['pokes']]
    chunks = [list(bytes.fromhex(h)) for h in w['chunks']]
    for req, rep in run_collect(lo, hi, pokes, chunks):
        d = py_decode(rep)
        if d is None:
            return 'reply %s to request %s does not decode' % (bytes(b % 256 for b in rep).hex(), bytes(req).hex())
        kind, start, addr, payload = d
        if kind == 'data':
            if start != req[0]:
                return 'reply %s does not echo the start byte of %s' % (bytes(rep).hex(), bytes(req).hex())
            if req[0] == L.FC and addr != (req[1] & 31):
                return 'reply %s carries address %r, request %s' % (bytes(rep).hex(), addr, bytes(req).hex())
            code = req[2]
            want = {0x10: 1, 0x12: 4, 0x13: 3, 0x14: 1}.get(code)
            if want != len(payload):
                return 'reply %s to command %#x has %d payload bytes' % (bytes(rep).hex(), code, len(payload))
    return None


def oracle(ctx):
    rng = ctx.rng
    checked = 0
    seen = set()
    for k in range(ctx.n(500, 10000)):
        lo, hi = L.gen_config(rng)
        pokes = L.gen_pokes(rng, hi - lo + 1, soft=True, p=0.7)
        if k % 5 == 0:      # range boundaries of the actuator position
            j = rng.randrange(hi - lo + 1)
            pokes.append((j, 'current_position', rng.choice([-21000 * 128, 21000 * 128, -1, 0, 1, -256, 255, 65535, -65536])))
        chunks = gen_requests(rng, lo, hi, rng.randrange(2, 10))
        w = dict(min=lo, max=hi, pokes=[list(p) for p in pokes], chunks=[bytes(c).hex() for c in chunks])
        checked += 1
        bad = check_one(w)
        if bad and bad[:30] not in seen:
            seen.add(bad[:30])
            ctx.fail('active_surface-reply', bad, shrink(w))
    ctx.oracle_stats['c04_as'] = dict(checked=checked)
    ctx.evaluations += checked


def shrink(w):
    w = dict(w)
    ch = list(w['chunks'])
    i = 0
    while i < len(ch) and len(ch) > 1:
        t = dict(w, chunks=ch[:i] + ch[i + 1:])
        if check_one(t):
            ch = ch[:i] + ch[i + 1:]
            w = t
        else:
            i += 1
    return w


def replay(ctx, obj):
    w = obj.get('witness') or {}
    if 'chunks' not in w:
        return False
    bad = check_one(w)
    if bad:
        print('  replay:', bad)
    return bool(bad)
