"""C04, receiver part: every reply decodes under the independent decoder and names its request.

correspondence: (1) the shared model correspondence on seeded histories (Corr/RcvCorr.v), so that the
                theorems about the model's replies apply to the code; (2) every reply the
                implementation produced to a well-framed request is pushed through the Coq decoder
                Spec/RcvSpec.v (Corr/RcvDecCorr.v): decodes, echoes master / command / id, slave is an
                addressed board, all bytes
oracle:         the same statement with the independent Python decoder of the harness, plus latin-1
                encodability of the reply string
"""
from vlib.core import zlit, zlist
from props import rcv_harness as H

PART = dict(name='c04_receiver', simulator='receiver', ready=True,
            coq_targets=['Properties/C04_receiver.vo', 'Corr/RcvCorr.vo', 'Corr/RcvDecCorr.vo'])


def gen(ctx):
    from gen import rcv_tables
    rcv_tables.run(ctx)


def histories(ctx, n, per):
    """yield (config, history so far, request bytes, keys before, outcome tag, reply)"""
    from simulators.receiver import DEFINITIONS as DEF
    rng = ctx.rng
    for h in range(n):
        rec = H.Recorder(rng)
        H.install(rec)
        cfg = H.pick_config(rng, small=(h % 6 != 0))
        system = H.make_system(*cfg)
        g = H.Gen(rng, DEF, cfg[0])
        stream = []
        for _ in range(6 if cfg[2] - cfg[1] > 8 else per):
            keys = [H.one(k) for k in system.slaves]
            m, desc = g.request(keys)
            outs = H.feed(system, m)
            yield cfg, [list(x) for x in stream], m, keys, outs
            stream.append(m)


def correspondence(ctx):
    rng = ctx.rng
    cases = []
    for i in range(ctx.n(30, 400)):
        tag, amin, amax, feeds = H.pick_config(rng)
        term, executed = H.run_history(ctx, rng, rng.randrange(20, 35), tag, amin, amax, feeds, p_garbage=0.05)
        cases.append(term)
    ctx.run_cases('c04_receiver_model', 'From DS Require Import Corr.RcvCorr.', 'rcase', 'ok', cases,
                  show='show', shard=ctx.n(8, 30))
    dcases = []
    for cfg, hist, m, keys, outs in histories(ctx, ctx.n(80, 1200), 25):
        tag, reply = outs[-1]
        if tag != 2 or any(t != 1 for t, _ in outs[:-1]):
            continue
        boards = keys if m[1] in (0, 0x7F) else [m[1]]
        dcases.append('DC %s %s %s %s %s' % (zlit(m[2]), zlit(m[3]), zlit(m[4]), zlist(boards), zlist(reply)))
        ctx.nontriv((m[3], len(reply)))
    ctx.run_cases('c04_receiver_decoder', 'From DS Require Import Corr.RcvDecCorr.', 'dcase', 'dok', dcases,
                  shard=ctx.n(400, 1500))


def check_reply(ctx, DEF, cfg, hist, m, keys, outs):
    def bad(klass, what, **w):
        ctx.fail(klass, what, dict(w, config=list(cfg), history=hist, request=list(m)))
    tag, reply = outs[-1]
    if tag != 2:
        return
    if any(b < 0 or b > 255 for b in reply):
        bad('receiver_reply_not_bytes', 'the reply contains a code point above 255', reply=reply)
        return
    fr = H.decode_answer(DEF, reply)
    if not fr:
        bad('receiver_reply_undecodable', 'the reply does not decode (start byte, length field, checksum, EOT)',
            reply=reply)
        return
    boards = keys if m[1] in [ord(c) for c in DEF.SLAVE_ADDR_BROADCAST] else [m[1]]
    for f in fr:
        if (f['master'], f['cmd'], f['id']) != (m[2], m[3], m[4]) or f['slave'] not in boards:
            bad('receiver_reply_identity', 'a reply frame does not echo the identity of its request', reply=reply)
            return


def oracle(ctx):
    from simulators.receiver import DEFINITIONS as DEF
    n = 0
    for cfg, hist, m, keys, outs in histories(ctx, ctx.n(60, 1000), 25):
        if any(t != 1 for t, _ in outs[:-1]):
            continue
        check_reply(ctx, DEF, cfg, hist, m, keys, outs)
        n += 1
        if len(ctx.failures) > 20:
            break
    ctx.oracle_stats['c04_receiver_replies'] = n
    ctx.evaluations += n


def replay(ctx, obj):
    if not str(obj.get('klass', '')).startswith('receiver_reply'):
        return False
    from simulators.receiver import DEFINITIONS as DEF
    w = obj['witness']
    H.install(H.Recorder(frozen=H.NOW0))
    system = H.make_system(*w['config'])
    for seg in w['history']:
        H.feed(system, seg)
    keys = [H.one(k) for k in system.slaves]
    outs = H.feed(system, w['request'])
    n0 = len(ctx.failures)
    check_reply(ctx, DEF, tuple(w['config']), w['history'], w['request'], keys, outs)
    return len(ctx.failures) > n0
