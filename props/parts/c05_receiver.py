"""C05, receiver part: acknowledged writes read back exactly; refused writes change nothing.

Register catalogue: frame size, board address, port map (set_port/get_port), data map (set_data/get_data),
DIO bits of Dewar/Switch.
correspondence: histories of write / interleaved commands / read-back on every board type compared with
                Model/RcvModel.v inside Coq (Corr/RcvCorr.v)
oracle:         on the implementation: write (in or out of domain, either form); refused -> every register
                of every board unchanged (inquiry record excepted); acknowledged -> after an interleaving of
                other commands (no acknowledged write of the same quantity) the read-back returns the value
Known findings (known/C05_receiver.txt): receiver_set_data_ack_ignored, receiver_dio_alias_11_12,
receiver_lna_special_key.
"""
import copy

from props import rcv_harness as H

PART = dict(name='c05_receiver', simulator='receiver', ready=True,
            coq_targets=['Properties/C05_receiver.vo', 'Corr/RcvCorr.vo'])

DEWAR_W = [0, 4, 5, 7, 8, 11, 12, 13, 14]
SWITCH_W = [0, 1, 2, 4, 5, 7, 8, 11, 12, 13, 14]


def gen(ctx):
    from gen import rcv_tables
    rcv_tables.run(ctx)


def pick_write(rng, DEF, g, tag, keys):
    """(register kind, write kind, params, read kind, read params)"""
    r = rng.random()
    if r < 0.15:
        f = rng.choice([rng.randrange(1, 0x7F), g.byte(), 0, 0x7F])
        return 'frame', 'SET_FRAME', [f], 'GET_FRAME', []
    if r < 0.3:
        return 'addr', 'SET_ADDR', g.params('SET_ADDR', keys), 'GET_ADDR', []
    if r < 0.5:
        k = g.key()
        return 'port', 'SET_PORT', k + [g.byte()], 'GET_PORT', k
    if r < 0.75 and tag in (1, 2):
        w = DEWAR_W if tag == 1 else SWITCH_W
        pn = rng.choice(w) if rng.random() < 0.85 else rng.randrange(0, 32)
        x = rng.randrange(2) if rng.random() < 0.8 else g.byte()
        k = [g.B01, g.DIO, pn]
        return 'dio', 'SET_DATA', k + [x], 'GET_DATA', k
    k = g.key()
    return 'data', 'SET_DATA', k + g.value(), 'GET_DATA', k


def acked_alias_write(DEF, g, tag, sa, wp, m, outcome):
    """is m an ACKNOWLEDGED write, executed by board sa, of the DIO bit that shares its register with the bit
    under test (ports 11 / 12 of Dewar and Switch)?  This is the `alias` disjunct of `writes_bit` in
    C05_receiver_dewar_bit_readback / _switch_bit_readback: such a write ends the read-back guarantee."""
    if tag not in (1, 2) or list(wp[:2]) != [g.B01, g.DIO] or wp[2] not in (11, 12):
        return False
    if len(m) < 10 or m[3] not in (ord(DEF.CMD_EXT_SET_DATA), ord(DEF.CMD_ABBR_SET_DATA)):
        return False
    if list(m[6:9]) != [g.B01, g.DIO, 23 - wp[2]]:
        return False
    bro = [ord(c) for c in DEF.SLAVE_ADDR_BROADCAST]
    if m[1] != sa and m[1] not in bro:
        return False
    tagr, reply = outcome
    if tagr == 2:
        fr = H.decode_answer(DEF, reply) or []
        return any(f['slave'] == sa and f['code'] == ord(DEF.CMD_ACK) for f in fr)
    # no reply (broadcast without answer): acknowledged iff well formed: one value byte 0/1, right checksum
    ext = m[3] == ord(DEF.CMD_EXT_SET_DATA)
    if m[5] != 4 or m[9] not in (0, 1) or len(m) != (12 if ext else 10):
        return False
    return (not ext) or m[10] == H.xor(m[:10])


def mismatch_class(g, tag, reg, wp, alias_written):
    """class of a read-back mismatch: the three known findings have exact input classes, anything else is
    `receiver_readback` (a violation)"""
    dio_key = list(wp[:2]) == [g.B01, g.DIO]
    writable = dio_key and wp[2] in (DEWAR_W if tag == 1 else SWITCH_W)
    if reg in ('dio', 'data') and tag in (1, 2):
        if not writable:
            return 'receiver_set_data_ack_ignored'
        if alias_written:
            return 'receiver_dio_alias_11_12'
        return 'receiver_readback'
    if reg == 'data' and tag == 3 and ((wp[1] == g.DIO and wp[0] in (g.B01, g.U08)) or wp[0] == g.F32):
        return 'receiver_lna_special_key'
    return 'receiver_readback'


def excluded(reg, wp, desc_kind, m):
    """is the interleaved request m a write of the quantity under test (or a re-addressing)?"""
    if desc_kind == 'SET_ADDR':
        return True
    if reg == 'frame':
        return desc_kind == 'SET_FRAME'
    if reg in ('port', 'data', 'dio'):
        return desc_kind in ('SET_PORT', 'SET_DATA') and list(m[6:9]) == list(wp[:3])
    return False


def one_test(ctx, rng, DEF, S, cfg, record=None):
    """returns the stream fed (for the correspondence) -- reports failures through ctx.fail"""
    tag = cfg[0]
    system = H.make_system(*cfg)
    g = H.Gen(rng, DEF, tag)
    bro = [ord(c) for c in DEF.SLAVE_ADDR_BROADCAST]
    stream = []

    def send(m):
        stream.append(list(m))
        return H.feed(system, m)[-1]

    def bad(klass, what, **w):
        ctx.fail(klass, what, dict(w, config=list(cfg), stream=[list(x) for x in stream]))
    for _ in range(rng.randrange(0, 8)):
        keys = [H.one(k) for k in system.slaves]
        m, _ = g.request(keys)
        send(m)
    H.feed(system, [0x55] * 263)
    stream.append([0x55] * 263)
    keys = [H.one(k) for k in system.slaves]
    good = [k for k in keys if k not in bro]
    if not good:
        return stream
    sa = rng.choice(good)
    reg, wk, wp, rk, rp = pick_write(rng, DEF, g, tag, keys)
    ext = rng.random() < 0.5
    before = H.regs_snapshot(S, system, with_last=False)
    tagw, reply = send(H.build(DEF, wk, ext, sa, g.byte(), g.byte(), wp))
    fr = H.decode_answer(DEF, reply) if tagw == 2 else None
    if not fr or len(fr) != 1:
        return stream        # C02 / C18 matter
    acked = fr[0]['code'] == ord(DEF.CMD_ACK)
    if not acked:
        if H.regs_snapshot(S, system, with_last=False) != before:
            bad('receiver_refused_write_changed', 'a refused write changed a register', write=[wk, ext, sa, wp],
                code=fr[0]['code'])
        return stream
    if reg == 'addr':
        sa = wp[0]
    alias_written = False
    for _ in range(rng.randrange(0, 10)):
        keys = [H.one(k) for k in system.slaves]
        if reg == 'dio' and wp[2] in (11, 12) and rng.random() < 0.25:
            other = 23 - wp[2]
            m = H.build(DEF, 'SET_DATA', rng.random() < 0.5, sa, g.byte(), g.byte(),
                        [g.B01, g.DIO, other, 1 - wp[3] if wp[3] in (0, 1) else 0])
            alias_written = acked_alias_write(DEF, g, tag, sa, wp, m, send(m)) or alias_written
            continue
        if reg == 'port' and rng.random() < 0.3:
            # the same port written under ANOTHER data type is another register of the board (the key is the
            # triple data type / port type / port number): it must not disturb the one under test
            # (seeded change C05-r5m3)
            others = [d for d in g.dts if d != wp[0]]
            if others:
                send(H.build(DEF, 'SET_PORT', rng.random() < 0.5, sa, g.byte(), g.byte(),
                             [rng.choice(others), wp[1], wp[2], g.byte()]))
                continue
        m, desc = g.request(keys)
        if excluded(reg, wp, desc[0], m):
            continue
        # a random request may itself be an acknowledged write of the aliased bit (Gen.special draws DIO
        # writes): the theorem's history excludes it, so it is tracked exactly like the injected ones
        alias_written = acked_alias_write(DEF, g, tag, sa, wp, m, send(m)) or alias_written
    H.feed(system, [0x55] * 263)
    stream.append([0x55] * 263)
    tagr, reply = send(H.build(DEF, rk, rng.random() < 0.5, sa, g.byte(), g.byte(), rp))
    fr = H.decode_answer(DEF, reply) if tagr == 2 else None
    if not fr or len(fr) != 1 or fr[0]['data'] is None:
        return stream
    want = {'frame': wp, 'addr': wp, 'port': wp, 'data': wp, 'dio': wp}[reg]
    if fr[0]['data'] != want:
        bad(mismatch_class(g, tag, reg, wp, alias_written), 'an acknowledged write does not read back',
            write=[wk, ext, wp], read=[rk, rp], got=fr[0]['data'], board_type=tag, sa=sa)
    return stream


def scripted(ctx, DEF, S, e):
    """corpus entry (corpus/C05/receiver-*.json): config, sa, reg, write [kind, ext, params], inter (segments),
    read [kind, params]: the same verdict logic as one_test on a fixed scenario; runs first on every run"""
    cfg = tuple(e['config'])
    tag = cfg[0]
    system = H.make_system(*cfg)
    g = H.Gen(ctx.rng, DEF, tag)
    sa, reg = e['sa'], e['reg']
    wk, ext, wp = e['write']
    stream = []

    def send(m):
        stream.append(list(m))
        return H.feed(system, m)[-1]
    tagw, reply = send(H.build(DEF, wk, ext, sa, 7, 9, wp))
    fr = H.decode_answer(DEF, reply) if tagw == 2 else None
    if not fr or len(fr) != 1 or fr[0]['code'] != ord(DEF.CMD_ACK):
        return
    alias_written = False
    for m in e['inter']:
        alias_written = acked_alias_write(DEF, g, tag, sa, wp, m, send(m)) or alias_written
    rk, rp = e['read']
    tagr, reply = send(H.build(DEF, rk, False, sa, 7, 10, rp))
    fr = H.decode_answer(DEF, reply) if tagr == 2 else None
    if fr and len(fr) == 1 and fr[0]['data'] is not None and fr[0]['data'] != wp:
        ctx.fail(mismatch_class(g, tag, reg, wp, alias_written), 'an acknowledged write does not read back',
                 dict(config=list(cfg), stream=stream, write=[wk, ext, wp], read=[rk, rp], got=fr[0]['data'],
                      board_type=tag, sa=sa, corpus=e.get('name')))


def corpus_entries():
    import json
    import os
    from vlib.core import VERIF
    d = os.path.join(VERIF, 'corpus', 'C05')
    out = []
    if os.path.isdir(d):
        for f in sorted(os.listdir(d)):
            if f.startswith('receiver-') and f.endswith('.json'):
                e = json.load(open(os.path.join(d, f)))
                e['name'] = f
                out.append(e)
    return out


def correspondence(ctx):
    from simulators.receiver import DEFINITIONS as DEF
    rng = ctx.rng

    class Quiet:
        failures = []

        def fail(self, *a):
            pass
    cases = []
    for i in range(ctx.n(40, 600)):
        cfg = H.pick_config(rng)
        S = H.install(H.Recorder(frozen=H.NOW0))
        stream = one_test(Quiet(), rng, DEF, S, cfg)
        term, _ = H.run_history(ctx, rng, len(stream), cfg[0], cfg[1], cfg[2], cfg[3], stream=stream)
        cases.append(term)
        ctx.nontriv(term)
    ctx.run_cases('c05_receiver', 'From DS Require Import Corr.RcvCorr.', 'rcase', 'ok', cases,
                  show='show', shard=ctx.n(6, 20))


def oracle(ctx):
    from simulators.receiver import DEFINITIONS as DEF
    rng = ctx.rng
    n = 0
    for e in corpus_entries():
        scripted(ctx, DEF, H.install(H.Recorder(frozen=H.NOW0)), e)
    for i in range(ctx.n(500, 8000)):
        S = H.install(H.Recorder(frozen=H.NOW0 + i))
        one_test(ctx, rng, DEF, S, H.pick_config(rng))
        n += 1
    ctx.oracle_stats['c05_receiver_tests'] = n
    ctx.evaluations += n


def replay(ctx, obj):
    """re-feed the recorded stream: the last request is the read-back, the write is recorded in the witness"""
    if not str(obj.get('klass', '')).startswith('receiver_re') and \
            obj.get('klass') not in ('receiver_set_data_ack_ignored', 'receiver_dio_alias_11_12',
                                     'receiver_lna_special_key'):
        return False
    from simulators.receiver import DEFINITIONS as DEF
    w = obj['witness']
    S = H.install(H.Recorder(frozen=H.NOW0))
    system = H.make_system(*w['config'])
    last = None
    snaps = []
    for seg in w['stream']:
        snaps.append(H.regs_snapshot(S, system, with_last=False))
        last = H.feed(system, seg)[-1]
    if obj['klass'] == 'receiver_refused_write_changed':
        return H.regs_snapshot(S, system, with_last=False) != snaps[-1]
    fr = H.decode_answer(DEF, last[1]) if last and last[0] == 2 else None
    return bool(fr) and fr[0]['data'] != w['write'][2]
