"""C03 — backend part (generic backend, sardara, mistral): CR LF line assembly returns to idle; garbage lines discarded with one undefined reply.
Theorems: coq/Properties/C03_backend.v over coq/Model/BckModel.v; harness: props/bck_common.py, props/bck_parts.py,
oracle: props/bck_oracle.py (classes C03_CLASSES)."""
from props import bck_parts, bck_oracle

PART = dict(name='c03_backend', simulator='backend', ready=True,
            coq_targets=['Properties/C03_backend.vo', 'Corr/BckCorr.vo'],
            what='CR LF line assembly returns to idle; garbage lines discarded with one undefined reply')


def correspondence(ctx):
    bck_parts.part_correspondence(ctx, 'c03', ctx.n(150, 2500))


def oracle(ctx):
    bck_parts.part_oracle(ctx, 'C03', bck_oracle.C03_CLASSES, ctx.n(250, 4000))


def replay(ctx, obj):
    return bck_parts.part_replay(ctx, obj)
