"""C05 part, active surface (tag Usd): the register catalogue of a USD seen through the line
protocol.  Acknowledged writes are stored exactly and kept until the next acknowledged write to the
same register or a reset; refused writes (NAK: wrong parameter count, out-of-range frequency or
velocity, busy refusal while the unit is travelling) and rejected codes change nothing - no
register, no read-back, not the motion target.

Correspondence: lines of real USDs behind the real System._parse; histories in which units travel a
long way in position mode toward an acknowledged target while writes - valid, malformed, out of
range, and positioning/rotation commands that must be refused mid-flight - are sent; full snapshots
of every unit after every event; model and specification folded in Coq (Corr/UsdCorr.v, lok).
Oracle: a shadow copy of every register, updated only from acknowledged writes and resets, is
compared with every unit after every event; every refused command must leave the complete snapshot
of the line unchanged; readable registers are read back with get_status through the real byte-wise
System.parse."""
from props import usd_common as UC
from props import c13 as P

PART = dict(name='c05_as', simulator='active_surface', ready=True,
            coq_targets=['Properties/C05_as.vo', 'Corr/UsdCorr.vo'])

IMPORTS = 'From DS Require Import Model.UsdModel Spec.UsdSpec Corr.UsdCorr.'

# register -> (write command, attributes holding it)
REGISTERS = {
    'min_frequency': (0x20, ['min_frequency']),
    'max_frequency': (0x21, ['max_frequency']),
    'slope_delayer': (0x22, ['slope_delayer']),
    'reference_position': (0x23, ['reference_position']),
    'io_pins': (0x25, ['io_dir', 'io_val']),
    'resolution': (0x26, ['auto_resolution', 'resolution']),
    'current_reduction': (0x27, ['standby_mode', 'standby_delay_multiplier']),
    'response_delay': (0x28, ['delay_multiplier']),
    'delayed_execution': (0x29, ['delayed_execution', 'trigger_io_enable', 'trigger_io_level']),
    'stop_io': (0x2A, ['stop_io_enable', 'stop_io_level']),
    'positioning_io': (0x2B, ['pos_io_enable', 'pos_io_level']),
    'home_io': (0x2C, ['home_io_enable', 'home_io_level']),
    'working_mode': (0x2D, ['baud_rate']),
}
WRITER = {code: name for name, (code, attrs) in REGISTERS.items()}
REG_ATTRS = [a for name, (code, attrs) in REGISTERS.items() for a in attrs]
WRITES = sorted(WRITER)


def refused_candidates(rng, u):
    """commands that must be refused in the present state of unit u (or are malformed)"""
    start = rng.choice([0xFA, 0xFC])
    out = [
        (0x20, UC.be_signed(rng.choice([19, 0, -1, 10001, 32767, u.max_frequency + 1]), 2)),
        (0x21, UC.be_signed(rng.choice([19, 10001, -32768, u.min_frequency - 1]), 2)),
        (0x35, UC.be_signed(rng.choice([100001, -100001, 8388607, -8388608]), 3)),
    ]
    if not u.auto_resolution:
        out.append((0x35, UC.be_signed(rng.choice([1, 9, -9, -1]), 3)))
    if u.running:
        out += [(0x32, [rng.choice([1, 255, 0])])] * 2
        if not u.delayed_execution:
            out += [(0x30, UC.be_signed(rng.randrange(-2000000, 2000000), 4)),
                    (0x30, UC.be_signed(u.current_position - u.reference_position, 4)),
                    (0x31, UC.be_signed(rng.randrange(-100000, 100000), 4)),
                    (0x30, UC.be_signed(rng.randrange(-2000000, 2000000), 4))]
    code = rng.choice(UC.CODES)
    n = rng.choice([k for k in range(0, 7) if k != UC.NPARAMS[code]])
    out.append((code, [rng.randrange(256) for _ in range(n)]))
    out.append((rng.choice([c for c in range(256) if c not in UC.NPARAMS]),
                [rng.randrange(256) for _ in range(rng.randrange(0, 4))]))
    code, params = rng.choice(out)
    return (code, start, params)


def run(impl, rng, on_step=None):
    """one history: every unit is sent on a long journey in position mode, then writes and refusals
    arrive while it travels"""
    n = rng.choice([1, 2, 2, 3])
    first = rng.randrange(0, 32 - n + 1)
    idxs = list(range(first, first + n))
    clock0 = rng.choice([1, 1024, rng.randrange(1, 1 << 28)])
    line = UC.Line(impl, idxs, clock0)
    events, obs = [], []
    before = line.snapshots()

    def do(e):
        nonlocal before
        o = UC.apply_levent(line, e)
        after = line.snapshots()
        events.append(e)
        obs.append((o, after))
        if on_step:
            on_step(line, e, o, before, after, idxs, clock0, events)
        before = after
        return o

    start = rng.choice([0xFA, 0xFC])
    for j in range(n):
        if rng.random() < 0.3:      # slower, so that the journey lasts
            do(('uni', j, 0x21, start, UC.be_signed(rng.choice([20, 50, 200, 1000]), 2)))
        if rng.random() < 0.85:
            far = rng.choice([-1, 1]) * rng.choice([rng.randrange(400000, 2688000), rng.randrange(400000, 2688000),
                                                    rng.randrange(1, 20000)])
            do(('uni', j, rng.choice([0x30, 0x30, 0x31]), start, UC.be_signed(far, 4)))
    do(('tick', rng.choice([1, 2, 5, 10])))          # running is now set, the targets are far away
    for _ in range(rng.randrange(6, 22)):
        j = rng.randrange(n)
        u = line.units[j]
        r = rng.random()
        if r < 0.40:
            code, st, params = refused_candidates(rng, u)
            e = ('uni', j, code, st, params)
        elif r < 0.70:
            code = rng.choice(WRITES)
            e = ('uni', j, code, rng.choice([0xFA, 0xFC]), UC.valid_params(rng, code, u))
        elif r < 0.78:
            code = rng.choice(WRITES + [0x01, 0x11])
            params = UC.valid_params(rng, code, u) if code in UC.NPARAMS and UC.NPARAMS[code] else []
            e = ('bcast', code, rng.choice([0xFA, 0xFC]), params)
        elif r < 0.86:
            e = ('uni', j, rng.choice([0x13, 0x12, 0x13, 0x01, 0x11, 0x02]), rng.choice([0xFA, 0xFC]), [])
        else:
            e = ('tick', rng.choice([0, 1, 3, 10, 50, rng.randrange(1, 400)]))
        o = do(e)
        if o is not None and o[0] in ('B', 'E'):
            return idxs, clock0, events, obs
    if rng.random() < 0.5:          # let the journeys end: the registers must survive the arrival
        for _ in range(rng.randrange(1, 4)):
            do(('tick', rng.choice([5000, 65535])))
        do(('uni', rng.randrange(n), 0x13, rng.choice([0xFA, 0xFC]), []))
    return idxs, clock0, events, obs


def correspondence(ctx):
    rng = ctx.rng
    terms = []
    with UC.implementation() as impl:
        for _ in range(ctx.n(30, 500)):
            idxs, c0, ev, obs = run(impl, rng)
            terms.append(UC.coq_line_case(idxs, c0, ev, obs))
            ctx.count('c05_as:histories')
            ctx.count('c05_as:refused', sum(1 for o, _ in obs if o in (('R', UC.NAK), ('V',))))
            ctx.count('c05_as:acknowledged', sum(1 for o, _ in obs if o == ('R', UC.ACK)))
            ctx.count('c05_as:refused_mid_flight',
                      sum(1 for e, (o, ss) in zip(ev, obs)
                          if e[0] == 'uni' and e[2] in (0x30, 0x31, 0x32) and o == ('R', UC.NAK)
                          and ss[e[1]]['cmd_position'] is not None))
            ctx.nontriv(('c05_as', tuple(idxs), c0, tuple(map(repr, ev))))
    ctx.sample(terms[0][:500])
    ctx.run_cases('c05_as_catalogue', IMPORTS, 'line_case', 'lok', terms, show='lshow', shard=ctx.n(8, 25))


# ---------------------------------------------------------------------------------------------
# oracle

class CatalogueOracle:
    def __init__(self):
        self.shadow = None         # per unit: attribute -> value, changed by acknowledged writes only
        self.failures = []
        self.checked = 0

    def fail(self, klass, what, **kw):
        self.failures.append((klass, what, kw))

    def expected_write(self, j, before_j, code, start, params):
        """the protocol's view of a well-formed write to unit j, evaluated on the shadow registers:
        (accepted, {attribute: value})"""
        pseudo = dict(before_j)
        pseudo.update(self.shadow[j])
        rule, o, s2 = P.protocol_handler(pseudo, code, start, params)
        return o == ('R', UC.ACK), s2

    def on_step(self, line, e, o, before, after, idxs, clock0, events):
        n = len(before)
        if self.shadow is None:
            self.shadow = [{a: before[j][a] for a in REG_ATTRS} for j in range(n)]
        self.checked += 1
        written = {}          # unit -> register name touched by an accepted write in this event
        if e[0] in ('uni', 'bcast'):
            if e[0] == 'uni':
                targets, code, start, params = [e[1]], e[2], e[3], e[4]
            else:
                targets, code, start, params = list(range(n)), e[1], e[2], e[3]
            # refused = unchanged: the complete snapshot of every unit
            if e[0] == 'uni' and o in (('R', UC.NAK), ('V',)) and after != before:
                j = e[1]
                diff = sorted(k for k in after[j] if after[j][k] != before[j][k])
                self.fail('active_surface_refused_write_changed_state',
                          'command %#x %r answered %s but changed %r of unit %d (running=%r, target was %r)'
                          % (code, params, 'NAK' if o[0] == 'R' else 'ValueError', diff, idxs[j],
                             before[j]['running'], before[j]['cmd_position']))
            well_formed = UC.NPARAMS.get(code) == len(params)
            for j in targets:
                if well_formed and code == 0x01:
                    self.shadow[j] = {a: P.defaults(idxs[j], None)[a] for a in REG_ATTRS}
                    written[j] = 'reset'
                elif well_formed and code in WRITER:
                    accepted, s2 = self.expected_write(j, before[j], code, start, params)
                    if e[0] == 'uni' and o[0] == 'R' and (o == ('R', UC.ACK)) != accepted:
                        self.fail('active_surface_write_wrong_reply',
                                  'write %#x %r to unit %d: reply %r, protocol says %s'
                                  % (code, params, idxs[j], o, 'ACK' if accepted else 'NAK'))
                    if accepted:
                        for a in REGISTERS[WRITER[code]][1]:
                            self.shadow[j][a] = s2[a]
                        written[j] = WRITER[code]
        # every register of every unit equals its shadow
        for j in range(n):
            for name, (wcode, attrs) in REGISTERS.items():
                got = {a: after[j][a] for a in attrs}
                want = {a: self.shadow[j][a] for a in attrs}
                if got != want:
                    if written.get(j) in (name, 'reset'):
                        self.fail('active_surface_write_not_stored',
                                  'acknowledged write to %s of unit %d: stored %r, written %r'
                                  % (name, idxs[j], got, want))
                    else:
                        self.fail('active_surface_register_changed',
                                  'register %s of unit %d changed to %r (last written %r) by event %r'
                                  % (name, idxs[j], got, want, list(e)))
                    self.shadow[j].update(got)      # report once
        # read-back through the protocol (get_status), after writes to the readable registers
        for j, name in written.items():
            if name in ('io_pins', 'resolution', 'delayed_execution', 'reset'):
                self.read_back(line, j, idxs)

    def read_back(self, line, j, idxs):
        if line.units[j].delay_multiplier == 255:
            return
        before = line.snapshots()
        replies, errors = line.feed(j, 0x13, 0xFC, [])
        if line.snapshots() != before:
            self.fail('active_surface_query_changed_state', 'get_status changed the state')
        if len(replies) != 1:
            self.fail('active_surface_readback_unanswered',
                      'get_status to unit %d: %d replies, errors %r' % (idxs[j], len(replies), errors[:2]))
            return
        bad, payload = UC.check_answer(replies[0], 0xFC, idxs[j], 3)
        if bad:
            self.fail('active_surface_readback_malformed', 'get_status reply: %s' % bad)
            return
        sh = self.shadow[j]
        s1, s2 = payload[1], payload[2]
        got = dict(io_dir=((s1 >> 4) & 1, (s1 >> 5) & 1, (s1 >> 6) & 1),
                   io_val=(s1 & 1, (s1 >> 1) & 1, (s1 >> 2) & 1),
                   auto_resolution=bool((s2 >> 3) & 1), resolution=2 ** (s2 & 7),
                   delayed_execution=bool((s2 >> 6) & 1))
        want = {a: sh[a] for a in got}
        if got != want:
            self.fail('active_surface_readback_mismatch',
                      'get_status of unit %d reads %r, last acknowledged writes say %r' % (idxs[j], got, want))


SCRIPTED = [
    # travelling toward an acknowledged far target; positioning, rotation refused mid-flight
    ([3, 4], 1024,
     [('uni', 0, 0x30, 0xFC, UC.be_signed(2000000, 4)), ('uni', 1, 0x31, 0xFA, UC.be_signed(-1500000, 4)),
      ('tick', 10), ('uni', 0, 0x30, 0xFC, UC.be_signed(5, 4)), ('uni', 0, 0x31, 0xFA, UC.be_signed(-7, 4)),
      ('uni', 0, 0x32, 0xFC, [255]), ('uni', 1, 0x30, 0xFC, UC.be_signed(123456, 4)), ('tick', 10),
      ('uni', 0, 0x20, 0xFC, UC.be_signed(10001, 2)), ('uni', 0, 0x35, 0xFC, UC.be_signed(100001, 3)),
      ('uni', 1, 0x26, 0xFC, [3]), ('uni', 1, 0x26, 0xFC, [3, 3]), ('uni', 1, 0x25, 0xFA, [0x77]),
      ('uni', 1, 0x25, 0xFA, []), ('uni', 1, 0x29, 0xFA, [0x80]), ('uni', 1, 0x29, 0xFA, [0x00]),
      ('tick', 4000), ('tick', 4000), ('uni', 1, 0x13, 0xFC, []), ('tick', 65535), ('tick', 65535),
      ('uni', 0, 0x13, 0xFA, []), ('uni', 1, 0x13, 0xFC, [])]),
]


def oracle(ctx):
    rng = ctx.rng
    checked = 0
    reported = set()

    def collect(orc, idxs, clock0, events):
        nonlocal checked
        checked += orc.checked
        for klass, what, kw in orc.failures:
            if klass not in reported:
                reported.add(klass)
                ctx.fail(klass, what, dict(part='c05_as', idxs=idxs, clock0=clock0,
                                           events=[list(e) for e in events], **kw))

    with UC.implementation() as impl:
        for idxs, c0, plan in SCRIPTED:
            orc = CatalogueOracle()
            line = UC.Line(impl, idxs, c0)
            before = line.snapshots()
            done = []
            for e in plan:
                o = UC.apply_levent(line, e)
                after = line.snapshots()
                done.append(e)
                orc.on_step(line, e, o, before, after, idxs, c0, done)
                before = after
            collect(orc, idxs, c0, plan)
        for _ in range(ctx.n(250, 5000)):
            orc = CatalogueOracle()
            idxs, c0, ev, obs = run(impl, rng, orc.on_step)
            collect(orc, idxs, c0, ev)
    ctx.oracle_stats['c05_as'] = dict(events_checked=checked)
    ctx.evaluations += checked


def replay(ctx, obj):
    w = obj.get('witness') or {}
    if w.get('part') != 'c05_as':
        return False
    idxs, c0 = w['idxs'], w['clock0']
    orc = CatalogueOracle()
    with UC.implementation() as impl:
        line = UC.Line(impl, idxs, c0)
        before = line.snapshots()
        done = []
        for e in w['events']:
            e = tuple(e)
            o = UC.apply_levent(line, e)
            after = line.snapshots()
            done.append(e)
            orc.on_step(line, e, o, before, after, idxs, c0, done)
            before = after
            if o is not None and o[0] in ('B', 'E'):
                break
    return any(k == obj.get('klass') for k, _, _ in orc.failures)
