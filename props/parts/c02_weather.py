"""C02 part for the weather simulator (tag Smb): see props/parts/smb_lib.py, coq/Properties/C02_weather.v."""
from props.parts import smb_lib

PART, correspondence, oracle, replay = smb_lib.part('c02', 'weather')
