"""C04 part for simulators/minor_servos (tag Msv): see props/parts/msv_lib.py"""
from props.parts import msv_lib

PART = dict(name='c04_ms', simulator='minor_servos', ready=True, coq_targets=['Properties/C04_ms.vo', 'Corr/MsvCorr.vo'])


def gen(ctx):
    msv_lib.gen(ctx)


def correspondence(ctx):
    n, nops, malformed, catalogue = (12, 200), [10, 25], 0.3, False
    msv_lib.corr_suite(ctx, 'msv-c04', ctx.n(*n), nops, malformed, catalogue)


def oracle(ctx):
    msv_lib.c04_oracle(ctx)


def replay(ctx, obj):
    return msv_lib.replay_trace(ctx, obj, msv_lib.c04_check)
