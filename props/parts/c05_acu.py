"""C05 part, ACU (agent Acmd): the settable quantities of the ACU that have a read-back in the
status blocks —
  axis position offset      parameter ids 11 (absolute) / 12 (relative), AZ and EL  -> p_Offset [udeg]
  program-track time corr.  parameter id 60, PS                                      -> actPtTimeOffset [ms]
  time source               parameter id 50, PS                                      -> timeSource
  time offset               parameter id 51, PS                                      -> actTimeOffset [day fraction]
An acknowledged write (parameter-command answer 1) is read back as the protocol's encoding of
the value (round-half-even of v*10^6 udeg, of v*1000 ms; the integer source; the day fraction of
the offset at microsecond resolution) until the next acknowledged write; a refused one (answer 4 /
5, a malformed message) leaves the field unchanged.

Correspondence: Model/AcmdAxis.v [parameter_command] and Model/AcmdParam.v against the real
System (one-command messages through System.parse, command threads synchronous, clock frozen).
Oracle: the statement above on the real System with exact rational arithmetic."""
import contextlib
import datetime as _dt
import math
import struct
from fractions import Fraction

from vlib.core import zlit, zlist, blit
from props import acmd_lib as L
from props import c14

PART = dict(name='c05_acu', simulator='acu', ready=True,
            coq_targets=['Properties/C05_acu.vo', 'Corr/AcmdParamCorr.vo'])

NAN, PINF, NINF = c14.NAN, c14.PINF, c14.NINF
NOW = (2026, 10, 1, 13, 37, 21, 250000)


def gen(ctx):
    c14.gen(ctx)


@contextlib.contextmanager
def frozen_clock():
    """datetime.utcnow() of pointing_status and utils returns a fixed instant"""
    import simulators.acu.pointing_status as P
    import simulators.utils as U

    class Frozen(_dt.datetime):
        @classmethod
        def utcnow(cls):
            return cls(*NOW)
    saved = (P.datetime, U.datetime)
    P.datetime = Frozen
    U.datetime = Frozen
    try:
        yield U.day_percentage(Frozen.utcnow())
    finally:
        P.datetime, U.datetime = saved


def nb(x):
    """x and its neighbours (bit patterns)"""
    return c14.ulp_neighbours(x)


def value_pool(rng, scale):
    """doubles near the rounding boundaries of v*scale -> integer"""
    out = [NAN, PINF, NINF, 0, 1 << 63]
    for _ in range(6):
        k = rng.choice([0, 1, 2, 3, 7, 1000, 1001, 1004, 4602, 86399999, rng.randrange(0, 10 ** 7)])
        s = rng.choice([1, -1])
        out += nb(s * (k + 0.5) / scale) + [L.bits_of(s * k / scale), L.bits_of(s * (k + 0.25) / scale),
                                            L.bits_of(s * (k + 0.75) / scale)]
    lim = (2 ** 31 - 1) / scale
    out += nb(lim) + nb(-lim) + nb((2 ** 31) / scale) + nb(-(2 ** 31 + 1) / scale) + nb((2 ** 31 - 0.5) / scale)
    out += [L.bits_of(x) for x in (1.001, 1.005, -1.001, 0.007, -0.029, 2.5, 5.0, -3.0, rng.uniform(-100, 100),
                                   rng.uniform(-3000, 3000), 1e300, -1e300, 5e-324)]
    return out


def gen_ops(ctx):
    """a history of parameter commands (and axis activations); each op is
    ('poke', which, state) | ('cmd', sub, pid, b1, b2)"""
    rng = ctx.rng
    ops = []
    for which in (0, 1):
        if rng.random() < 0.85:
            ops.append(('poke', which, 3))
    for _ in range(rng.randrange(3, 10)):
        r = rng.random()
        if r < 0.35:
            sub = rng.choice([1, 2])
            pid = rng.choice([11, 11, 12, 12, 12, 13, 0])
            ops.append(('cmd', sub, pid, rng.choice(value_pool(rng, 10 ** 6)), c14.rnd_double(ctx, T_CACHE[0], POOL_CACHE[0])))
            if rng.random() < 0.1:
                ops.append(('poke', sub - 1, rng.choice([0, 1, 2, 3])))
        elif r < 0.65:
            v = rng.choice(value_pool(rng, 1000) + nb(86400000.0) + nb(-86400000.0) + nb(2147483.647) + nb(2147483.648))
            ops.append(('cmd', 5, 60, v, 0))
        elif r < 0.8:
            p1 = rng.choice([L.bits_of(x) for x in (0.0, 1.0, 2.0, 3.0, 4.0, 1.9, 3.99, -0.5, 0.99, 2.5, 1e10, -1.0)]
                            + [NAN, PINF, NINF])
            p2 = rng.choice([L.bits_of(x) for x in (60000.5, 61314.567, 0.0, -1.0, 1e9, 1e300, 5373484.5, 5373485.5)]
                            + [NAN, PINF])
            ops.append(('cmd', 5, 50, p1, p2))
        else:
            p1 = rng.choice([L.bits_of(x) for x in (1.0, 2.0, 3.0, 3.0, 4.0, 4.0, 0.0, 5.0, 1.5, 3.9, 4.99, -1.0)]
                            + [NAN, PINF])
            p2 = rng.choice([L.bits_of(x) for x in (0.0, -0.0, 1e-7, 0.5e-6, 1.5e-6, 2.5e-6, -0.5e-6, 1.0000005,
                                                    1.0, -1.0, 0.1, 12.345678, 12.3456785, 86399.9999995,
                                                    rng.uniform(-90000, 90000), rng.uniform(-2, 2))]
                            + nb(86400000.0) + nb(-86400000.0) + [NAN, PINF, NINF]
                            + nb((rng.randrange(10 ** 6) + 0.5) / 10 ** 6))
            ops.append(('cmd', 5, 51, p1, p2))
    return ops


T_CACHE, POOL_CACHE = [None], [None]


def prepare(ctx):
    T_CACHE[0] = c14.tables(ctx)
    POOL_CACHE[0] = c14.double_pool(T_CACHE[0], ctx.rng)


def mjd_ok(bits):
    from simulators import utils
    try:
        utils.mjd_to_date(L.float_of(bits))
        return True
    except Exception:
        return False


def snapshot(s, sub):
    if sub == 5:
        ps = s.PS
        return [ps.parameter_command_counter, ps.parameter_command, ps.parameter_command_answer,
                ps.actPtTimeOffset, ps.timeSource, L.bits_of(ps.actTimeOffset)]
    ax = s.AZ if sub == 1 else s.EL
    return [ax.parameter_command_counter, ax.parameter_command, ax.parameter_command_answer, ax.p_Offset]


def run_ops(A, ops):
    """execute a history on a fresh System; per op a record (None for pokes)"""
    s = L.new_system(A)
    saved = L.SyncThread.skip_ps
    L.SyncThread.skip_ps = False
    recs = []
    counter = 100
    try:
        for op in ops:
            if op[0] == 'poke':
                L.poke(s, op[1], 0, op[2])
                recs.append(None)
                continue
            _, sub, pid, b1, b2 = op
            counter += 3
            cmd = L.cmd26(2, sub, counter + 1, pid, b1, b2)
            before = {k: snapshot(s, k) for k in (1, 2, 5)}
            outs = L.feed(s, L.frame(counter, [cmd]))
            ev = L.take_events()
            after = {k: snapshot(s, k) for k in (1, 2, 5)}
            recs.append(dict(sub=sub, pid=pid, b1=b1, b2=b2, cmd=cmd, counter=counter + 1, outs=outs, events=ev,
                             before=before, after=after, idle=(s.msg == ''), mjd_ok=mjd_ok(b2),
                             axis_state=(None if sub == 5 else (s.AZ if sub == 1 else s.EL).axis_state)))
    finally:
        L.SyncThread.skip_ps = saved
    return recs


def coq_case(now_frac, ops, recs):
    terms = []
    for op, r in zip(ops, recs):
        if r is None:
            terms.append('PPoke %d %d' % (op[1], op[2]))
        else:
            t = r['events'][0][3] if r['events'] else 3
            terms.append('PCmd %d %s %s %d %s' % (r['sub'], zlist(r['cmd']), blit(r['mjd_ok']), t,
                                                  zlist(r['after'][r['sub']])))
    return 'PCase %s [%s]' % (zlit(L.bits_of(now_frac)), ';\n '.join(terms))


def correspondence(ctx):
    prepare(ctx)
    cases = []
    with L.patched() as A, frozen_clock() as now_frac:
        for _ in range(ctx.n(90, 1500)):
            ops = gen_ops(ctx)
            recs = run_ops(A, ops)
            if any(r is not None and (len(r['events']) != 1 or not r['idle']) for r in recs):
                ctx.count('c05_acu:not-dispatched')
                continue            # a framing problem: reported by the oracle / by C14
            cases.append(coq_case(now_frac, ops, recs))
            for r in recs:
                if r is not None:
                    ctx.count('c05_acu:id%d-answer%d-%s' % (r['pid'], r['after'][r['sub']][2],
                                                            ['done', 'parked', 'died'][r['events'][0][3]]))
                    ctx.nontriv(('c05_acu', r['sub'], r['pid'], r['b1'], r['b2'], tuple(r['after'][r['sub']])))
    ctx.run_cases('c05_acu_parameters', 'From DS Require Import Corr.AcmdParamCorr.', 'pcase', 'pok', cases,
                  shard=ctx.n(12, 60))


# ---------------------------------------------------------------------------
# oracle: C05 on the real System

def rne_scaled(bits, scale):
    """round-half-even of (the double nearest to v*scale), exactly; None when v is not finite"""
    v = L.float_of(bits)
    if not math.isfinite(v):
        return None
    prod = Fraction(v) * scale
    try:
        d = float(prod)            # correctly rounded: the IEEE product
    except OverflowError:
        return None
    if not math.isfinite(d):
        return None
    return round(Fraction(d))      # Fraction.__round__ is exact round-half-even


def check_history(A, ops):
    """returns [(klass, what, op index)]"""
    bad = []
    recs = run_ops(A, ops)
    for k, r in enumerate(recs):
        if r is None:
            continue
        sub, pid = r['sub'], r['pid']
        b, a = r['before'], r['after']
        if any(o != L.O_TRUE for o in r['outs']) or not r['idle'] or len(r['events']) != 1:
            bad.append(('acu_parameter_message_not_executed', 'a well-formed parameter message was not executed', k))
            continue
        tout, exn = r['events'][0][3], r['events'][0][4]
        for other in (1, 2, 5):
            if other != sub and a[other] != b[other]:
                bad.append(('acu_parameter_touched_other_subsystem', 'a parameter command changed another subsystem', k))
        cnt, cmd_id, ans = a[sub][0], a[sub][1], a[sub][2]
        fields_b, fields_a = b[sub][3:], a[sub][3:]
        if tout == L.T_DIED:
            # the client sees the counter of this command next to the answer of an earlier one
            if fields_a != fields_b:
                bad.append(('acu_died_command_changed_field', 'a command whose thread died changed a read-back field', k))
            bad.append(('acu_parameter_thread_died_stale_answer',
                        'parameter command %d (%s): the handler raised %s after the counter was written; the answer '
                        'field keeps the previous command\'s value (%d)' % (pid, hex(r['b1']), exn, ans), k))
            continue
        if cnt != r['counter'] or cmd_id != pid:
            bad.append(('acu_parameter_counter_not_echoed', 'counter / parameter id not echoed', k))
            continue
        if ans != 1:
            if fields_a != fields_b:
                bad.append(('acu_refused_write_changed_field', 'a refused write (answer %d) changed a read-back field: '
                            '%r -> %r' % (ans, fields_b, fields_a), k))
            # was the refusal justified?  (the acknowledged domain of each quantity)
            v1 = L.float_of(r['b1'])
            if sub in (1, 2) and pid in (11, 12) and r['axis_state'] == 3 and ans == 5:
                bad.append(('acu_offset_refused_on_active_axis', 'offset refused on an active axis', k))
            if sub == 5 and pid == 60 and math.isfinite(v1) and abs(Fraction(v1)) <= 86400000 and \
                    abs(rne_scaled(r['b1'], 1000)) < 2 ** 31:
                bad.append(('acu_track_correction_refused_in_range', 'in-range program-track time correction refused', k))
            continue
        # acknowledged: the field holds the encoding of the value
        if sub in (1, 2):
            want = rne_scaled(r['b1'], 10 ** 6)
            if pid == 12 and want is not None:
                want += fields_b[0]
            if pid not in (11, 12) or want is None or fields_a[0] != want:
                bad.append(('acu_offset_readback', 'acknowledged position offset %r (id %d, previous %d) reads back as '
                            '%d udeg, expected %r' % (L.float_of(r['b1']), pid, fields_b[0], fields_a[0], want), k))
        elif pid == 60:
            want = rne_scaled(r['b1'], 1000)
            if want is None or fields_a[0] != want:
                bad.append(('acu_track_time_correction_readback', 'acknowledged program-track time correction %r s reads '
                            'back as %d ms, expected %r' % (L.float_of(r['b1']), fields_a[0], want), k))
            if fields_a[1:] != fields_b[1:]:
                bad.append(('acu_write_changed_other_field', 'id 60 changed another read-back field', k))
        elif pid == 50:
            v1 = L.float_of(r['b1'])
            if not math.isfinite(v1) or fields_a[1] != math.trunc(v1) or math.trunc(v1) not in (1, 2, 3):
                bad.append(('acu_time_source_readback', 'acknowledged time source %r reads back as %d' % (v1, fields_a[1]), k))
            if fields_a[0] != fields_b[0] or fields_a[2] != fields_b[2]:
                bad.append(('acu_write_changed_other_field', 'id 50 changed another read-back field', k))
        elif pid == 51:
            mode = math.trunc(L.float_of(r['b1']))
            v2 = L.float_of(r['b2'])
            old = Fraction(L.float_of(fields_b[2]))
            new = L.float_of(fields_a[2])
            # the offset at the protocol's microsecond resolution: what the builtin timedelta makes
            # of the value (round-half-even; a builtin, not repository code).  Acknowledged modes
            # 3 / 4 imply a finite value.
            us = None
            if mode in (3, 4):
                us = _dt.timedelta(seconds=v2) // _dt.timedelta(microseconds=1)
                if abs(Fraction(us, 10 ** 6) - Fraction(v2)) > Fraction(1, 2 * 10 ** 6) + Fraction(1, 10 ** 9):
                    bad.append(('acu_harness_timedelta_resolution', 'timedelta does not round to the nearest '
                                'microsecond (harness assumption)', k))
            if mode == 1:
                want = old + Fraction(1, 86400)
            elif mode == 2:
                want = old - Fraction(1, 86400)
            elif mode == 3:
                want = Fraction(us, 10 ** 6) / 86400
            else:
                want = old + Fraction(us, 10 ** 6) / 86400
            # binary64 rounding of the day-fraction arithmetic (a handful of operations)
            tol = (abs(want) + abs(old)) * Fraction(1, 10 ** 12) + Fraction(1, 10 ** 18)
            if not math.isfinite(new) or abs(Fraction(new) - want) > tol:
                klass = 'acu_time_offset_readback'
                if mode in (3, 4) and us == 0:
                    klass = 'acu_time_offset_zero_reads_clock'
                bad.append((klass, 'acknowledged time offset (mode %d, %r s, previous fraction %r) reads back as day '
                            'fraction %r, expected %r' % (mode, v2, float(old), new, float(want)), k))
            if fields_a[:2] != fields_b[:2]:
                bad.append(('acu_write_changed_other_field', 'id 51 changed another read-back field', k))
        else:
            bad.append(('acu_unknown_parameter_acknowledged', 'parameter id %d acknowledged' % pid, k))
    return bad


CORPUS = [
    # the demo of mutant C05/m3: whole milliseconds must read back exactly
    [('cmd', 5, 60, L.bits_of(x), 0) for x in (5.0, 2.5, -3.0, 1.001, -1.001, 0.007, 4.602, -0.029, 1.005, 86399.999)]
    + [('cmd', 5, 60, L.bits_of(86400000.5), 0)],
    [('poke', 0, 3), ('poke', 1, 3)] + [('cmd', s, 11, L.bits_of(x), 0) for s in (1, 2)
                                         for x in (5.0, -5.0, 0.0000005, 0.0000015, 0.0000025, -0.0000025, 1.0000005)]
    + [('cmd', 1, 12, L.bits_of(0.0000005), 0), ('cmd', 1, 12, L.bits_of(-7.25), 0)],
    [('cmd', 5, 50, L.bits_of(x), L.bits_of(60000.5)) for x in (1.0, 2.0, 3.0, 0.0, 4.0, 2.9)]
    + [('cmd', 5, 51, L.bits_of(m), L.bits_of(x)) for m, x in ((3.0, 12.5), (1.0, 0.0), (2.0, 0.0), (4.0, -2.25),
                                                               (3.0, 86400000.0), (5.0, 1.0), (3.0, 86400001.0))],
]


def oracle(ctx):
    prepare(ctx)
    n = 0
    seen = {}
    with L.patched() as A, frozen_clock():
        hist = [list(c) for c in CORPUS]
        hist += [[tuple(o) for o in js['ops']] for _, js in c14.corpus_files('C05') if 'ops' in js]
        hist += [gen_ops(ctx) for _ in range(ctx.n(250, 4000))]
        for ops in hist:
            for klass, what, k in check_history(A, ops):
                if seen.get(klass, 0) < 1:
                    ctx.fail(klass, what, dict(ops=[list(o) for o in ops], op=k))
                seen[klass] = seen.get(klass, 0) + 1
            n += sum(1 for o in ops if o[0] == 'cmd')
    ctx.oracle_stats['c05_acu'] = dict(commands=n, classes=seen)
    ctx.evaluations += n


def replay(ctx, obj):
    w = obj.get('witness') or {}
    if not str(obj.get('klass', '')).startswith('acu_') or 'ops' not in w:
        return False
    prepare(ctx)
    with L.patched() as A, frozen_clock():
        return any(k == obj['klass'] for k, _, _ in check_history(A, [tuple(o) for o in w['ops']]))
