"""C05 part for simulators/calmux (tag Sma): see props/parts/sma_lib.py"""
from props.parts import sma_lib

PART = dict(name='c05_calmux', simulator='calmux', ready=True,
            coq_targets=['Properties/C05_calmux.vo', 'Corr/SmaCalmuxCorr.vo'])


def correspondence(ctx):
    sma_lib.correspondence(ctx, 'calmux', 'c05')


def oracle(ctx):
    sma_lib.oracle(ctx, 'calmux', 'c05')


def replay(ctx, obj):
    return sma_lib.replay(ctx, obj, 'calmux', 'c05')
