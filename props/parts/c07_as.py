"""C07 part, active surface (tag Usd): no command handler blocks inside System.parse, so no
connection-handler thread is left alive (and non-daemon) after system_stop.

The only blocking primitive of the active-surface code is Queue.get() on a unit's position queue
(USD.soft_trigger).  The harness replaces usd.Queue by a stand-in whose get() on an empty queue
raises instead of blocking, so the check itself can never hang; a would-block is outcome 'B'.
Correspondence: trigger-heavy line histories (delayed execution, velocity, queued positions,
repeated triggers, unicast and broadcast) against model and specification (Corr/UsdCorr.v, lok).
Oracle: the same kind of histories sent byte by byte through the real System.parse."""
from props import usd_common as UC

PART = dict(name='c07_as', simulator='active_surface', ready=True,
            coq_targets=['Properties/C07_as.vo', 'Corr/UsdCorr.vo'],
            what='no USD command handler blocks inside System.parse in any reachable state')

IMPORTS = 'From DS Require Import Model.UsdModel Spec.UsdSpec Corr.UsdCorr.'


def pick(rng, line):
    """one event biased to the delayed-execution / trigger machinery"""
    n = len(line.units)
    j = rng.randrange(n)
    start = rng.choice([0xFA, 0xFC])
    r = rng.random()
    if r < 0.30:
        code, params = 0x02, []
    elif r < 0.42:
        code, params = 0x29, [rng.choice([0x80, 0x80, 0x00, 0xFF, rng.randrange(256)])]
    elif r < 0.62:
        code = rng.choice([0x30, 0x31])
        params = UC.be_signed(rng.randrange(-50000, 50000), 4)
    elif r < 0.74:
        code, params = 0x35, UC.be_signed(rng.choice([0, 0, 1000, -1000, 100000, 10, rng.randrange(-100000, 100001)]), 3)
    elif r < 0.80:
        code, params = rng.choice([(0x11, []), (0x01, []), (0x13, []), (0x32, [1])])
    elif r < 0.90:
        return ('tick', rng.choice([0, 1, 10, 100, 3000]))
    else:
        e = UC.pick_event(rng, UC._View(line.units[j]), rng.choice(['delayed', 'motion', 'config']))
        if e[0] != 'cmd':
            return ('tick', e[1])
        code, params = e[1], e[3]
    if rng.random() < 0.3:
        return ('bcast', code, start, params)
    return ('uni', j, code, start, params)


def new_line(impl, rng):
    n = rng.choice([1, 2, 2, 3])
    first = rng.randrange(0, 32 - n + 1)
    idxs = list(range(first, first + n))
    clock0 = rng.choice([1, 1024, rng.randrange(1, 1 << 28)])
    return UC.Line(impl, idxs, clock0), idxs, clock0


def correspondence(ctx):
    rng = ctx.rng
    terms = []
    with UC.implementation() as impl:
        for _ in range(ctx.n(25, 400)):
            line, idxs, c0 = new_line(impl, rng)
            events, obs = [], []
            for _ in range(rng.randrange(8, 40)):
                e = pick(rng, line)
                o = UC.apply_levent(line, e)
                events.append(e)
                obs.append((o, line.snapshots()))
                if o is not None and o[0] in ('B', 'E'):
                    break
            terms.append(UC.coq_line_case(idxs, c0, events, obs))
            ctx.count('c07_as:histories')
            ctx.count('c07_as:triggers', sum(1 for e in events if e[0] != 'tick' and e[-3] == 0x02))
            ctx.nontriv(('c07_as', tuple(idxs), c0, tuple(map(repr, events))))
    ctx.run_cases('c07_as_triggers', IMPORTS, 'line_case', 'lok', terms, show='lshow', shard=ctx.n(7, 25))


def frame_of(line, e):
    if e[0] == 'uni':
        return UC.uni_frame(e[3], line.idxs[e[1]], e[2], e[4])
    return UC.bcast_frame(e[2], e[1], e[3])


def run_events(line, events):
    """send the events byte by byte through the real System.parse; returns the index of the first
    event during which parse would block, or None"""
    for i, e in enumerate(events):
        e = tuple(e)
        if e[0] == 'tick':
            line.tick(e[1])
            continue
        for b in frame_of(line, e):
            if line.parse_byte(b) == ('B',):
                return i
    return None


SCRIPTED = [
    # the velocity-mode scenario: queued positions, repeated triggers
    ([1, 2], [('uni', 0, 0x35, 0xFC, [0, 3, 232]), ('uni', 0, 0x29, 0xFC, [0x80]), ('uni', 0, 0x30, 0xFC, [0, 0, 0, 9]),
              ('uni', 0, 0x02, 0xFC, []), ('uni', 0, 0x02, 0xFC, []), ('uni', 0, 0x02, 0xFA, []),
              ('bcast', 0x02, 0xFC, [])]),
    ([3], [('uni', 0, 0x29, 0xFC, [0x80]), ('uni', 0, 0x31, 0xFC, [0, 0, 0, 5]), ('uni', 0, 0x29, 0xFC, [0x80]),
           ('uni', 0, 0x02, 0xFC, []), ('uni', 0, 0x29, 0xFC, [0x00]), ('bcast', 0x02, 0xFA, [])]),
    ([0, 1, 2], [('bcast', 0x29, 0xFC, [0xFF]), ('bcast', 0x30, 0xFC, [0, 0, 1, 0]), ('bcast', 0x35, 0xFA, [1, 134, 160]),
                 ('tick', 10), ('bcast', 0x02, 0xFC, []), ('bcast', 0x02, 0xFC, []), ('uni', 1, 0x02, 0xFC, []),
                 ('bcast', 0x01, 0xFC, []), ('bcast', 0x02, 0xFC, [])]),
]


def oracle(ctx):
    rng = ctx.rng
    sent = 0
    reported = False
    with UC.implementation() as impl:
        def report(idxs, c0, events, i):
            nonlocal reported
            if not reported:
                reported = True
                e = events[i]
                ctx.fail('active_surface_parse_would_block',
                         'System.parse would block for ever in Queue.get() (soft_trigger with ready set and an '
                         'empty position queue) on event %r' % (list(e),),
                         dict(part='c07_as', idxs=idxs, clock0=c0, events=[list(x) for x in events[:i + 1]]))

        for idxs, events in SCRIPTED:
            line = UC.Line(impl, idxs, 1024)
            i = run_events(line, events)
            sent += len(events)
            if i is not None:
                report(idxs, 1024, events, i)
        for _ in range(ctx.n(300, 6000)):
            line, idxs, c0 = new_line(impl, rng)
            events = []
            for _ in range(rng.randrange(8, 50)):
                e = pick(rng, line)
                events.append(e)
                sent += 1
                if run_events(line, [e]) is not None:
                    report(idxs, c0, events, len(events) - 1)
                    break
    ctx.oracle_stats['c07_as'] = dict(events_sent=sent)
    ctx.evaluations += sent


def replay(ctx, obj):
    w = obj.get('witness') or {}
    if w.get('part') != 'c07_as':
        return False
    with UC.implementation() as impl:
        line = UC.Line(impl, w['idxs'], w['clock0'])
        return run_events(line, w['events']) is not None
