"""Shared harness of the `Sma` parts (IFD, IFD_14_channels, calmux, gaia): drivers of the real System
classes, stream generators, Coq case printers, and the implementation-level oracles for the
per-simulator parts of C02, C03, C04, C05.  Not a part itself (file name does not start with cNN_)."""
import math

from vlib.core import zlit, zlist

# ---------------------------------------------------------------------------
# outcome classification (as ListenHandler._handle sees it)


def call_parse(system, ch):
    """-> (tag, payload): tag in False True reply empty none ValueError Exception"""
    try:
        r = system.parse(ch)
    except ValueError:
        return ('ValueError', None)
    except Exception:          # noqa: any other exception class
        return ('Exception', None)
    if r is True:
        return ('True', None)
    if r is False:
        return ('False', None)
    if r is None:
        return ('none', None)
    if isinstance(r, str):
        return ('reply', r) if r else ('empty', None)
    raise RuntimeError('parse returned an object the model has no class for: %r' % (r,))


def coq_outcome(o):
    tag, pay = o
    if tag == 'reply':
        return '(OReply %s)' % zlist([ord(c) for c in pay])
    return {'True': 'OTrue', 'False': 'OFalse', 'empty': 'OEmpty', 'none': 'ONone',
            'ValueError': 'OValueError', 'Exception': 'OException'}[tag]


def feed(system, data):
    """data: str (code points < 256).  -> list of outcomes, one per character"""
    return [call_parse(system, ch) for ch in data]


def replies(outs):
    return [p for t, p in outs if t == 'reply']


def one_reply_shape(outs):
    """True ... True, reply"""
    return len(outs) >= 1 and all(t == 'True' for t, _ in outs[:-1]) and outs[-1][0] == 'reply'


# ---------------------------------------------------------------------------
# generic mutation of a protocol line / stream

def rand_byte(rng, alphabet):
    r = rng.random()
    if r < 0.55:
        return rng.choice(alphabet)
    if r < 0.8:
        return chr(rng.randrange(32, 127))
    return chr(rng.randrange(256))


def mutate(rng, line, alphabet):
    """one random corruption of a line (str)"""
    k = rng.randrange(9)
    if not line:
        return rand_byte(rng, alphabet)
    i = rng.randrange(len(line))
    if k == 0:      # truncate (loses the terminator)
        return line[:i]
    if k == 1:      # drop one character
        return line[:i] + line[i + 1:]
    if k == 2:      # replace one character
        return line[:i] + rand_byte(rng, alphabet) + line[i + 1:]
    if k == 3:      # insert one character
        return line[:i] + rand_byte(rng, alphabet) + line[i:]
    if k == 4:      # nested header: the line's first character again inside
        return line[:i] + line[0] + line[i:]
    if k == 5:      # doubled space / whitespace variant
        j = line.find(' ')
        if j < 0:
            return line
        return line[:j] + rng.choice(['  ', '\t ', ' \t', ' \x1f', '\xa0 ', ' \x0b']) + line[j + 1:]
    if k == 6:      # overlong: pad before the terminator
        return line[:-1] + ''.join(rand_byte(rng, alphabet) for _ in range(rng.randrange(1, 20))) + line[-1:]
    if k == 7:      # terminator replaced by a non terminator
        return line[:-1] + rng.choice('x0 ;')
    return line + line[-1]     # doubled terminator


def garbage(rng, alphabet, n):
    return ''.join(rand_byte(rng, alphabet) for _ in range(n))


class Driver:
    """one per simulator; subclasses fill in the protocol"""
    name = ''
    alphabet = ''
    terminators = '\n'
    maxlen = None            # bounded protocols: max_msg_length
    corr_import = ''
    ctype = ''
    okfun = 'ok'
    idle_discard_outcome = 'False'

    def new(self):
        raise NotImplementedError

    def valid_line(self, rng):
        raise NotImplementedError

    def odd_line(self, rng):
        """a line from the protocol grammar with out-of-domain / malformed arguments"""
        raise NotImplementedError

    def snapshot(self, system):
        """Coq text of the observed final attributes (fields after the outcome list)"""
        raise NotImplementedError

    def is_header(self, ch):
        raise NotImplementedError

    def case_prefix(self, system):
        """Coq text of per-case oracle tables (before the byte list); default none"""
        return ''

    def echo_ok(self, q, r):
        """does reply r name the request q the way the protocol does"""
        return True

    # -- streams ---------------------------------------------------------------
    def stream(self, rng, kind):
        n = rng.choice([1, 1, 2, 3, 5, 8, 13])
        parts = []
        for _ in range(n):
            r = rng.random()
            if kind == 'valid':
                parts.append(self.valid_line(rng) if r < 0.85 else self.odd_line(rng))
            elif kind == 'odd':
                parts.append(self.odd_line(rng) if r < 0.7 else self.valid_line(rng))
            elif kind == 'mutated':
                ln = self.valid_line(rng) if r < 0.6 else self.odd_line(rng)
                for _ in range(rng.choice([1, 1, 2])):
                    ln = mutate(rng, ln, self.alphabet)
                parts.append(ln if rng.random() < 0.6 else self.valid_line(rng))
            elif kind == 'garbage':
                parts.append(garbage(rng, self.alphabet, rng.randrange(1, 30)))
                if r < 0.5:
                    parts.append(rng.choice(self.terminators))
                if r < 0.3:
                    parts.append(self.valid_line(rng))
            else:
                raise ValueError(kind)
        return ''.join(parts)

    def case(self, data):
        """run a fresh instance on data; -> (coq term, outcomes, system)"""
        system = self.new()
        outs = feed(system, data)
        term = '(%s %s %s [%s] %s)' % (self.ctor, self.case_prefix(system), zlist([ord(c) for c in data]),
                                       '; '.join(coq_outcome(o) for o in outs), self.snapshot(system))
        return term, outs, system


# ---------------------------------------------------------------------------
# calmux

class _NoSleep:
    @staticmethod
    def sleep(_):
        return None


class Calmux(Driver):
    name = 'calmux'
    alphabet = 'IC?F 0123456789\n\r-+_.'
    terminators = '\n\r'
    maxlen = 7
    corr_import = 'From DS Require Import Model.SmaCommon Corr.SmaCalmuxCorr.'
    ctype = 'cm_case'
    ctor = 'Build_cm_case'

    def new(self):
        import simulators.calmux as m
        m.time = _NoSleep          # _get_frequency sleeps period/1000 s: no state, no reply content
        return m.System()

    def is_header(self, ch):
        return ch in 'IC?F'

    def valid_line(self, rng):
        t = rng.choice('\n\n\n\r')
        k = rng.randrange(7)
        if k < 3:
            return 'I %d %d%s' % (rng.randrange(17), rng.randrange(2), t)
        if k == 3:
            return 'C %d%s' % (rng.randrange(2), t)
        if k < 6:
            return '?' + t
        return 'F %d%s' % (rng.choice([0, 1, 7, 50, 999, 5000]), t)

    def odd_line(self, rng):
        t = rng.choice('\n\r')
        return rng.choice([
            'I %d %d' % (rng.choice([17, 18, 99, -1, 16]), rng.randrange(2)),
            'I %d %d' % (rng.randrange(17), rng.choice([2, -1, 9])),
            'I %d' % rng.randrange(17), 'I', 'I 1 1 1', 'I  1 1', 'I 1  1', 'I +1 1', 'I 1_0 1', 'I 1_ 1', 'I x 1',
            'I 01 01', 'I -0 1', 'I 1.0 1', 'I\t1 1', 'I \t1 1', 'II 1 1', 'I1 1', 'IC 1',
            'C %d' % rng.choice([2, -1, 5]), 'C', 'C 1 1', 'C x', 'C +1', 'C 00', 'CC 1', 'C1',
            '? 1', '? ', '?  ', '??', '?x', '?\t', '? x',
            'F', 'F -1', 'F 5001', 'F 9999', 'F 1 1', 'F x', 'F +50', 'F 5_0', 'FF 1', 'F1', 'F 0',
        ]) + t

    def snapshot(self, s):
        return '%s %s %s %s' % (zlist([ord(c) for c in s.msg]), zlit(s.current_channel),
                                zlist(s.polarities), zlist(s.calon))

    # C02 catalogue
    def queries(self):
        return ['?\n', '?\r'] + ['F %d\n' % p for p in (0, 1, 50, 5000)]

    # C04 reply shape (transcription of cm_wf_reply)
    def wf_reply(self, r):
        if r in ('ack\n', 'nak\n', '0 0 0'):
            return True
        if not r.endswith('\n'):
            return False
        f = r[:-1].split(' ')
        return len(f) == 3 and all(x.isdigit() and x.isascii() for x in f)


    # C05 register catalogue: name -> (sampler, reader)
    registers = ('input', 'cal')

    def sample_write(self, rng, reg):
        """-> (line, kind, value) kind in in/out/malformed"""
        t = rng.choice('\n\r')
        r = rng.random()
        if reg == 'input':
            if r < 0.5:
                ch, p = rng.randrange(17), rng.randrange(2)
                return 'I %d %d%s' % (ch, p, t), 'in', (ch, p)
            if r < 0.75:
                ch, p = rng.choice([(17, 0), (-1, 1), (99, 1), (3, 2), (16, -1), (0, 7)])
                return 'I %d %d%s' % (ch, p, t), 'out', None
            return rng.choice(['I 3', 'I', 'I 3 1 0', 'I x 1', 'I 3 y', 'I 1. 1', 'I 1_ 0', 'I  3 1']) + t, 'malformed', None
        if r < 0.5:
            v = rng.randrange(2)
            return 'C %d%s' % (v, t), 'in', v
        if r < 0.75:
            return 'C %d%s' % (rng.choice([2, -1, 9]), t), 'out', None
        return rng.choice(['C', 'C 1 1', 'C x', 'C 1.', 'C  1']) + t, 'malformed', None

    def is_ack(self, outs):
        return bool(outs) and outs[-1] == ('reply', 'ack\n')

    def is_acked_write(self, reg, line, outs, value=None):
        """may this chunk contain an acknowledged write of reg (conservative; ends the quiet history)"""
        return ('reply', 'ack\n') in outs and {'input': 'I', 'cal': 'C'}[reg] in line

    def readback(self, system, reg, value):
        """-> (expected, observed) as comparable values; may send non-writing commands"""
        if reg == 'input':
            o = feed(system, '?\n')
            return '%d %d' % value, ' '.join((replies(o) or ['?'])[-1].split(' ')[:2])
        feed(system, 'I 16 0\n')
        o = feed(system, '?\n')
        return '16 0 %d\n' % value, (replies(o) or ['?'])[-1]



# ---------------------------------------------------------------------------
# IFD

def fl_term(x):
    """Coq oracle entry for x = float(tok) (None: ValueError)"""
    if x is None:
        return 'None'
    fin = math.isfinite(x)
    integral = fin and x == int(x)
    return '(F %s %s %s %s %s)' % (
        '(Some %s)' % zlit(int(x)) if integral else 'None',
        'true' if x < 0 else 'false', 'true' if x > 31.5 else 'false',
        zlit(int(x * 2)) if fin else '0', zlist([ord(c) for c in str(x)]))


class Ifd(Driver):
    name = 'ifd'
    alphabet = '?BSAI 0123456789.\n\r-+_e'
    terminators = '\n\r'
    maxlen = 15
    corr_import = 'From DS Require Import Model.SmaCommon Corr.SmaIfdCorr.'
    ctype = 'ifd_case'
    ctor = 'Build_ifd_case'
    modname = 'simulators.if_distributor.IFD'
    corr_scale = 0.5          # 21 board strings per case: heavier cases

    def new(self):
        import importlib
        m = importlib.import_module(self.modname)
        table = {}

        def rec_float(tok):          # module-level name shadowing the builtin: records the oracle graph
            try:
                x = float(tok)
            except ValueError:
                table[tok] = None
                raise
            table[tok] = x
            return x
        m.float = rec_float
        s = m.System()
        s._sma_floats = table
        return s

    def case_prefix(self, system):
        t = system._sma_floats
        return '[' + '; '.join('(%s, %s)' % (zlist([ord(c) for c in k]), fl_term(v))
                               for k, v in sorted(t.items(), key=lambda kv: kv[0])) + ']'

    def is_header(self, ch):
        return ch in '?BSAI'

    def snapshot(self, s):
        return '%s [%s]' % (zlist([ord(c) for c in s.msg]),
                            '; '.join(zlist([ord(c) for c in ', '.join(str(x) for x in s.boards[i])])
                                      for i in range(len(s.boards))))

    def att_text(self, rng):
        r = rng.random()
        if r < 0.35:
            return '%d' % rng.randrange(32)
        if r < 0.7:
            return rng.choice(['%d.5', '%d.0', '%d.', '%d.50'][:3]) % rng.randrange(31)
        return rng.choice(['0.3', '12.25', '31.49', '7.9', '.7', '3.14', '0.49', '1.e1', '2_0.5'])

    def valid_line(self, rng):
        t = rng.choice('\n\n\n\r')
        k = rng.randrange(10)
        if k < 3:
            return '? %d%s' % (rng.randrange(21), t)
        if k == 3:
            return 'B %d %d%s' % (rng.choice([1, 2]), rng.randrange(4), t)
        if k == 4:
            return 'I 2 %d%s' % (rng.randrange(2), t)
        if k < 7:
            return 'S 0 10 %d %d%s' % (rng.choice([0, 5, 2300, 9999, 123, 70]), rng.randrange(2), t)
        return 'A %d %d %s%s' % (rng.randrange(5, 21), rng.randrange(4), self.att_text(rng), t)

    def odd_line(self, rng):
        t = rng.choice('\n\r')
        b = rng.randrange(21)
        return rng.choice([
            '? 21', '? -1', '?', '? ', '? x', '? 5.0', '? 5.', '? 2.5', '? 1 2', '?? 1', '?1', '? +3', '? 0_1', '? 1_',
            '? %d.' % b, '?  %d' % b, '?\t%d' % b, '? %d ' % b, '? 1e1', '? 9.e9', '? -0.',
            'B %d %d' % (b, rng.randrange(4)), 'B 1 4', 'B 1 -1', 'B 1 2.', 'B 1. 2', 'B 5 2.', 'B 1', 'B 1 1 1', 'B 1 x',
            'BB 1 1', 'B 2 3', 'B 2 0',
            'I %d %d' % (b, rng.randrange(2)), 'I 2 2', 'I 2 -1', 'I 2 1.', 'I 2. 1', 'I 2', 'I 2 1 1', 'I 1 1', 'I 2 0.',
            'S %d 10 50 1' % b, 'S 0 11 50 1', 'S 0 10 50 2', 'S 0 10. 50 1', 'S 0 10 50 1.', 'S 0 10 5.5 0', 'S 0 10 50 0.',
            'S 0 10 50', 'S 0 10 50 1 1', 'S 0 10 -5 1', 'S 0. 10 7 1', 'S 0 10 1.e9 1', 'S 0 9.9 5 1', 'S 0 10 x 1',
            'S 0 10 .5 1', 'S 0 10 5 -0',
            'A %d %d %d' % (b, rng.randrange(4), rng.randrange(32)), 'A 5 4 1', 'A 5 -1 1', 'A 5 0 -1', 'A 5 0 32',
            'A 5 0 31.6', 'A 5 0 -0.5', 'A 5 0 -0.', 'A 5 1. 3', 'A 5. 1 3', 'A 5 0', 'A 5 0 1 1', 'A 5 0 x', 'A 5 0 ..',
            'A 5 0 1.2.3', 'A 5 0 1e1', 'A 5 0 1.e1', 'A 5 0 9.e9', 'A 4 0 1', 'A 21 0 1', 'A 5 3. 1.5', 'AA 5 0 1',
            'A', 'A ', 'A  ', 'A x', 'A 5 0 0.3', 'A 20 3 31.5', 'A 5 0 31.50', 'A 5 0 +1.5', 'A 5 0 1_0.5',
        ]) + t

    def queries(self):
        return ['? %d\n' % b for b in range(21)]

    num_re = None

    def wf_reply(self, r):
        import re
        if r in ('ack\n', 'nak\n'):
            return True
        if not (r.startswith('ack\n') and r.endswith('\n')):
            return False
        body = r[4:-1]
        f = body.split(', ')
        if '\n' in body or len(f) != 12:
            return False
        ints = [f[i] for i in (0, 1, 2, 5, 6, 7, 8, 9, 10, 11)]
        return all(re.fullmatch(r'-?[0-9]+', x) for x in ints) and \
            all(re.fullmatch(r'-?[0-9]+|-?[0-9.]+(e[+-][0-9]+)?|-?inf|nan', x) for x in (f[3], f[4]))

    def echo_ok(self, q, r):
        f = r[4:-1].split(', ')
        return f[0] == f[1] == q[2:-1]

    registers = ('bw', 'input', 'lo', 'att')
    letters = dict(bw='B', input='I', lo='S', att='A')

    def sample_write(self, rng, reg):
        t = rng.choice('\n\r')
        r = rng.random()
        if reg == 'bw':
            if r < 0.5:
                b, v = rng.choice([1, 2]), rng.randrange(4)
                return 'B %d %d%s' % (b, v, t), 'in', (b, v)
            return rng.choice(['B 1 4', 'B 2 -1', 'B 0 1', 'B 7 2', 'B 1 2.', 'B 1', 'B 1 x', 'B 21 1', 'B 1 1 1', 'B 5 2.']) + t, 'out', None
        if reg == 'input':
            if r < 0.5:
                v = rng.randrange(2)
                return 'I 2 %d%s' % (v, t), 'in', (2, v)
            return rng.choice(['I 2 2', 'I 1 1', 'I 0 0', 'I 2 1.', 'I 2', 'I 2 x', 'I 9 1', 'I 2 -1', 'I 2 0 0']) + t, 'out', None
        if reg == 'lo':
            if r < 0.5:
                f, e = rng.choice([0, 1, 50, 2300, 9999, 777]), rng.randrange(2)
                return 'S 0 10 %d %d%s' % (f, e, t), 'in', (f, e)
            return rng.choice(['S 0 11 50 1', 'S 0 10 50 2', 'S 1 10 50 1', 'S 5 10 50 1', 'S 0 10 50', 'S 0 10 x 1',
                               'S 0 10 50 1.', 'S 0 10 77 0.', 'S 0 10 50 1 1', 'S 0 9 50 1', 'S 21 10 5 1']) + t, 'out', None
        if r < 0.6:
            b, c = rng.randrange(5, 21), rng.randrange(4)
            txt = self.att_text(rng)
            return 'A %d %d %s%s' % (b, c, txt, t), 'in', (b, c, float(txt.replace('_', '')))
        return rng.choice(['A 5 0 32', 'A 5 0 -1', 'A 5 0 31.6', 'A 5 4 1', 'A 4 0 1', 'A 0 0 1', 'A 5 0', 'A 5 0 x',
                           'A 5 1. 3', 'A 21 0 1', 'A 5 0 -0.5', 'A 5 0 1 1', 'A 5 0 9.e9']) + t, 'out', None

    def is_ack(self, outs):
        return bool(outs) and outs[-1] == ('reply', 'ack\n')

    def is_acked_write(self, reg, line, outs, value=None):
        if reg == 'lo' and 'S' in line and ('ValueError', None) in outs:
            return True      # the float-enable S line stores before it raises (known finding): not quiet
        if not (('reply', 'ack\n') in outs and self.letters[reg] in line):
            return False
        if reg == 'att' and value is not None:
            # per-channel theorem: a clean single `A b c v` line to another (board, channel) is quiet
            import re
            m = re.fullmatch(r'A (\d+) (\d) [0-9.]+[\n\r]', line)
            if m and (int(m.group(1)), int(m.group(2))) != (value[0], value[1]):
                return False
        return True

    def status(self, system, b):
        o = feed(system, '? %d\n' % b)
        r = (replies(o) or ['ack\n' + ', '.join(['?'] * 12) + '\n'])[-1]
        return r[4:-1].split(', ')

    def readback(self, system, reg, value):
        if reg == 'bw':
            b, v = value
            f = self.status(system, b)
            return v, (int(f[9]) >> 3) & 3
        if reg == 'input':
            b, v = value
            f = self.status(system, b)
            return v + 1, (int(f[9]) >> 1) & 3
        if reg == 'lo':
            fr, e = value
            f = self.status(system, 0)
            return ['10', str(fr), e, str(e ^ 1), str(e)], [f[3], f[4], (int(f[9]) >> 3) & 1, f[10], f[11]]
        b, c, x = value
        f = self.status(system, b)
        return x, int(f[5 + c]) / 2          # protocol encoding: half-dB steps

    def classify(self, klass, args):
        if klass == 'readback_att' and (args[5][2] * 2) != int(args[5][2] * 2):
            return 'readback_att_offgrid'
        if klass == 'refused_changed_lo':
            toks = args[3].strip().split(' ')
            if len(toks) == 5 and '.' in toks[4]:
                return 'refused_changed_lo_float_enable'
        return klass

    witnesses = dict(c05=[
        ('write', ['', '\n', 'att', 'A 5 0 0.3\n', 'in', (5, 0, 0.3), []]),
        ('write', ['', '\n', 'lo', 'S 0 10 50 1.\n', 'out', None, []]),
    ])


# ---------------------------------------------------------------------------
# IFD_14_channels

class Ifd14(Driver):
    name = 'ifd14'
    alphabet = '#ATSW *IDNR?0123456789\n-+_.\t'
    terminators = '\n'
    maxlen = 12
    corr_import = 'From DS Require Import Model.SmaCommon Corr.SmaIfd14Corr.'
    ctype = 'i14_case'
    ctor = 'Build_i14_case'
    corr_scale = 0.5          # 96 channel strings per case

    def new(self):
        import simulators.if_distributor.IFD_14_channels as m
        return m.System()

    def is_header(self, ch):
        return ch == '#'

    def snapshot(self, s):
        return '%s [%s] %s' % (zlist([ord(c) for c in s.msg]),
                               '; '.join(zlist([ord(c) for c in str(x * s.att_step)]) for x in s.channels),
                               'true' if s.switched else 'false')

    def valid_line(self, rng):
        k = rng.randrange(10)
        ch = rng.choice([0, 1, 5, 9, 10, 42, 95, rng.randrange(96)])
        if k < 3:
            return '#ATT %d %d\n' % (ch, rng.choice([0, 1, 2, 3, 126, 100, rng.randrange(127)]))
        if k < 5:
            return '#ATT %d?\n' % ch
        if k == 5:
            return '#SWT %d %d\n' % (ch, rng.randrange(2))
        if k == 6:
            return '#SWT %d?\n' % ch
        if k == 7:
            return '#*IDN?\n'
        if k == 8:
            return '#*RST\n'
        return '#ATT %d %d\n' % (rng.randrange(96), rng.randrange(127))

    def odd_line(self, rng):
        return rng.choice([
            '#ATT 96 1', '#ATT -1 1', '#ATT 5 127', '#ATT 5 -1', '#ATT 5 200', '#ATT 5', '#ATT', '#ATT 5 1 1', '#ATT x 1',
            '#ATT 5 x', '#ATT 5 1.0', '#ATT 5.0 1', '#ATT +5 +1', '#ATT 0_5 1_0', '#ATT 5_ 1', '#ATT  5  1', '#ATT\t5 1',
            '#ATT\t5\t1', '#att 5 1', '#ATX 5 1', '#ATT 05 01', '#ATT -0 0', '# ATT 5 1', '#ATT 5 1 ',
            '#SWT 5 2', '#SWT 5 -1', '#SWT 96 1', '#SWT 5', '#SWT x 1', '#SWT 5 01', '#SWT 5 x',
            '#ATT 5?', '#ATT 96?', '#ATT -1?', '#ATT?', '#ATT ?', '#ATT 5 ?', '#ATT 5??', '#ATT? 5', '#?ATT 5', '#ATT x?',
            '#ATT 5 1?', '#SWT 96?', '#SWX 5?', '#att 5?', '#ATT  5?', '#ATT 5 ? ?', '#ATT ?5',
            '#*IDN?', '#*IDN', '#*IDN? ', '#*RST', '#*RST ', '#*RST?', '#RST', '#', '##', '#?', '# ', '#  ', '# ?', '#X',
            '#AT#T 5 1', '#ATT 5#1', '#\x85 1', '#A\xa0B 1', '#ATT\x1f5 1',
        ]) + '\n'

    def queries(self):
        return ['#ATT %d?\n' % c for c in range(96)] + ['#SWT %d?\n' % c for c in (0, 17, 95)] + ['#*IDN?\n']

    def wf_reply(self, r):
        import re
        return r in ('#0\n', '#1\n', 'SRT IF Distributor Simulator 1.0', '#COMMAND UNKNOWN\n') or \
            bool(re.fullmatch(r'#[0-9]+\.(0|25|5|75)\n', r))

    registers = ('att', 'swt')

    def sample_write(self, rng, reg):
        r = rng.random()
        if reg == 'att':
            if r < 0.55:
                ch, v = rng.randrange(96), rng.randrange(127)
                return '#ATT %d %d\n' % (ch, v), 'in', (ch, v)
            return rng.choice(['#ATT 5 127', '#ATT 5 -1', '#ATT 96 1', '#ATT -1 5', '#ATT 5', '#ATT 5 x', '#ATT x 5',
                               '#ATT 5 1.5', '#ATX 5 1', '#ATT 5 1 1', '#ATT 5 999']) + '\n', 'out', None
        if r < 0.55:
            ch, v = rng.randrange(96), rng.randrange(2)
            return '#SWT %d %d\n' % (ch, v), 'in', (ch, v)
        return rng.choice(['#SWT 5 2', '#SWT 5 -1', '#SWT 96 1', '#SWT 5', '#SWT 5 x', '#SWT x 1', '#SWT 5 1 1']) + '\n', 'out', None

    def is_ack(self, outs):       # no acknowledgement on the wire: a set is accepted when parse returns ''
        return bool(outs) and outs[-1] == ('empty', None)

    def is_acked_write(self, reg, line, outs, value=None):
        return (('empty', None) in outs and {'att': 'ATT', 'swt': 'SWT'}[reg] in line) or ('none', None) in outs

    def readback(self, system, reg, value):
        ch, v = value
        if reg == 'att':
            o = feed(system, '#ATT %d?\n' % ch)
            return '#%s\n' % (v * 0.25), (replies(o) or ['?'])[-1]
        o = feed(system, '#SWT %d?\n' % ((ch + 7) % 96))
        return '#%d\n' % v, (replies(o) or ['?'])[-1]


# ---------------------------------------------------------------------------
# gaia

GAIA_ECHO = ['SETSG', 'SETSD', 'SETSGZ', 'SETSDZ', 'SAVECPU', 'RESETD', 'RESETG', 'SAVE', 'SETDF', 'SETGF',
             'GETEF', 'ENABLE', 'DISABLE']


class Gaia(Driver):
    name = 'gaia'
    alphabet = '#*IDN?LOADCONFSETGVRMP 0123456789\n-+_.\t'
    terminators = '\n'
    maxlen = None
    corr_import = 'From DS Require Import Model.SmaCommon Corr.SmaGaiaCorr.'
    ctype = 'gaia_case'
    ctor = 'Build_gaia_case'
    idle_discard_outcome = 'True'       # gaia answers True while discarding (quirk of its parse)
    temp = 33

    def new(self):
        import simulators.gaia as m
        t = self.temp
        m.randint = lambda a, b: t      # GETEMP: randint(30, 36) fixed per case
        return m.System()

    def case_prefix(self, system):
        return zlit(self.temp)

    def case(self, data):
        self.temp = 30 + (len(data) * 7 + sum(map(ord, data[:5]))) % 7
        return Driver.case(self, data)

    def is_header(self, ch):
        return ch == '#'

    def snapshot(self, s):
        return '%s %s %s %s %s' % (zlist([ord(c) for c in s.msg]), zlist(s.VD), zlist(s.VG), zlit(s.conf),
                                   zlist([ord(c) for c in s.cmd_id]))

    def rid(self, rng):
        return rng.choice(['1', '42', 'id7', 'abc', '0', 'X_9', '77'])

    def valid_line(self, rng):
        k = rng.randrange(12)
        i = self.rid(rng)
        ch = rng.randrange(1, 11)
        if k < 2:
            return '#SETD %d %d %s\n' % (ch, rng.choice([0, 1, 512, 1023, rng.randrange(1024)]), i)
        if k < 4:
            return '#SETG %d %d %s\n' % (ch, rng.randrange(1024), i)
        if k == 4:
            return '#GETVD %d %s\n' % (ch, i)
        if k == 5:
            return '#GETVG %d %s\n' % (ch, i)
        if k == 6:
            return '#LOADCONF %d %s\n' % (ch, i)
        if k == 7:
            return rng.choice(['#CONF? %s\n', '#*IDN? %s\n', '#NAME? %s\n']) % i
        if k == 8:
            return '#%s %d %s\n' % (rng.choice(GAIA_ECHO), ch, i)
        if k == 9:
            return '#%s %d %s\n' % (rng.choice(['GETREF', 'GETEMP']), rng.choice([1, 2]), i)
        if k == 10:
            return '#GETID %d %s\n' % (ch, i)
        return '#GETVD %d %s\n' % (ch, i)

    def odd_line(self, rng):
        i = self.rid(rng)
        return rng.choice([
            '#', '##', '# ', '#  \t', '#FOO 1 %s', '#FOO', '#setd 1 1 %s', '#SETD', '#SETD %s', '#SETD 1 %s', '#SETD 1',
            '#SETD 0 1 %s', '#SETD 11 1 %s', '#SETD -1 1 %s', '#SETD x 1 %s', '#SETD 1 x %s', '#SETD 1 1024 %s',
            '#SETD 1 -1 %s', '#SETD 1 1 1 %s', '#SETD 1 1', '#SETD +1 +1 %s', '#SETD 1_0 1_0 %s', '#SETD 1. 1 %s',
            '#SETD  2   7  %s', '##SETD 3 9 %s', '#\tSETD 4 5 %s', '#SETD\t4\t6\t%s', '# SETD 5 5 %s ', '#SETD 01 007 %s',
            '#SETG 11 1 %s', '#SETG 1 9999 %s', '#SETG 1 %s', '#GETVD %s', '#GETVD', '#GETVD 0 %s', '#GETVD 11 %s',
            '#GETVD x %s', '#GETVD 1 2 %s', '#GETVD 1', '#GETREF 3 %s', '#GETREF 0 %s', '#GETEMP 3 %s', '#GETEMP %s',
            '#*IDN?', '#*IDN? 1 %s', '#CONF?', '#CONF? 1 2', '#NAME?', '#NAME? a b', '#LOADCONF 11 %s', '#LOADCONF %s',
            '#LOADCONF 0 %s', '#LOADCONF', '#GETID 99 %s', '#ENABLE %s', '#ENABLE 1 2 %s', '#SETD#1 1 %s', '#SETD 1#1 %s',
            '#SETD 1 1 #%s', '#SAVE 5', '#GETVG -3 %s', '#\x85SETD\xa01 1 %s', '#SETD\x1f1\x1c2 %s',
        ]).replace('%s', i) + '\n'

    def queries(self):
        i = 'q1'
        return ['#*IDN? %s\n' % i, '#NAME? %s\n' % i, '#CONF? %s\n' % i] + \
            ['#GETVD %d %s\n' % (c, i) for c in range(1, 11)] + ['#GETVG %d %s\n' % (c, i) for c in range(1, 11)] + \
            ['#GETID %d %s\n' % (c, i) for c in (1, 10)] + ['#GETREF %d %s\n' % (c, i) for c in (1, 2)] + \
            ['#GETEMP %d %s\n' % (c, i) for c in (1, 2)] + ['#GETEF 3 %s\n' % i]

    def wf_reply(self, r):
        import re
        return bool(re.fullmatch(r"#(ERROR\(\d{4}\)\[[A-Z_]+\]\(b'[0-9a-f]+'\)|[^\n]*) [^\s]*\n", r))

    def echo_ok(self, q, r):
        return r.endswith(' ' + q.split()[-1] + '\n')

    KNOWN_CMDS = ['*IDN?', 'LOADCONF', 'CONF?', 'SETD', 'SETG', 'GETVG', 'GETVD', 'GETID', 'GETREF', 'GETEMP',
                  'NAME?'] + GAIA_ECHO

    def echo_pair(self, rng):
        """[line1, line2]: line2 any request (valid, refused for a missing / non-integer / out-of-range argument
        or for too many arguments) whose command word is known, so that self.cmd_id is set from it; different ids"""
        while True:
            l2 = self.valid_line(rng) if rng.random() < 0.4 else self.odd_line(rng)
            toks = l2.lstrip('#').split()
            if len(toks) >= 2 and toks[0] in self.KNOWN_CMDS:
                break
        id1 = rng.choice([x for x in ['A1', 'prev', '9', 'zz'] if x != toks[-1]])
        l1 = rng.choice(['#GETVD 1 %s\n', '#*IDN? %s\n', '#SETD 2 5 %s\n', '#FOO 1 %s\n', '#GETVD 99 %s\n']) % id1
        return [l1, l2]

    witnesses = dict(c04=[('echo', ['', '\n', '#GETVD 1 A\n', '#GETVD 1 2 B\n']),
                          ('echo', ['', '\n', '#*IDN? A\n', '#NAME? 7 B\n']),
                          ('echo', ['', '\n', '#SETD 1 1 A\n', '#SETD 1 1 1 B\n'])])

    registers = ('vd', 'vg', 'conf')

    def sample_write(self, rng, reg):
        r = rng.random()
        i = self.rid(rng)
        cmd = dict(vd='SETD', vg='SETG', conf='LOADCONF')[reg]
        if reg == 'conf':
            if r < 0.55:
                x = rng.randrange(1, 11)
                return '#LOADCONF %d %s\n' % (x, i), 'in', (x,)
            return rng.choice(['#LOADCONF 0 %s', '#LOADCONF 11 %s', '#LOADCONF x %s', '#LOADCONF %s', '#LOADCONF 1 2 %s',
                               '#LOADCONF -1 %s']).replace('%s', i) + '\n', 'out', None
        if r < 0.55:
            x, y = rng.randrange(1, 11), rng.randrange(1024)
            return '#%s %d %d %s\n' % (cmd, x, y, i), 'in', (x, y)
        return rng.choice(['#C 0 1 %s', '#C 11 1 %s', '#C 1 1024 %s', '#C 1 -1 %s', '#C x 1 %s', '#C 1 x %s', '#C 1 %s',
                           '#C %s', '#C 1 1 1 %s', '#C 1.0 1 %s']).replace('C', cmd).replace('%s', i) + '\n', 'out', None

    def is_ack(self, outs):       # acknowledged = a non-error reply echoing the first argument
        return bool(outs) and outs[-1][0] == 'reply' and not outs[-1][1].startswith('#ERROR')

    def is_acked_write(self, reg, line, outs, value=None):
        cmd = dict(vd='SETD', vg='SETG', conf='LOADCONF')[reg]
        return cmd in line and any(t == 'reply' and not p.startswith('#ERROR') for t, p in outs)

    def readback(self, system, reg, value):
        if reg == 'conf':
            o = feed(system, '#CONF? rb\n')
            return '#%d rb\n' % value[0], (replies(o) or ['?'])[-1]
        x, y = value
        o = feed(system, '#GET%s %d rb\n' % (reg.upper(), x))
        return '#%d rb\n' % y, (replies(o) or ['?'])[-1]

DRIVERS = {}


def driver(name):
    if name not in DRIVERS:
        DRIVERS[name] = {'calmux': Calmux, 'ifd': Ifd, 'ifd14': Ifd14, 'gaia': Gaia}[name]()
    return DRIVERS[name]


# ---------------------------------------------------------------------------
# correspondence (shared by the four properties; the mix differs)

MIX = {
    'c03': dict(valid=1, odd=1, mutated=4, garbage=4),
    'c05': dict(valid=5, odd=4, mutated=1, garbage=0),
    'c02': dict(valid=4, odd=2, mutated=2, garbage=1),
    'c04': dict(valid=3, odd=3, mutated=2, garbage=1),
}


def corpus_streams(drv):
    return list(getattr(drv, 'corpus', []))


def correspondence(ctx, sim, prop):
    drv = driver(sim)
    rng = ctx.rng
    mix = MIX[prop]
    kinds = [k for k, w in mix.items() for _ in range(w)]
    total = int(ctx.n(300, 6000) * getattr(drv, 'corr_scale', 1.0))
    cases = []
    streams = corpus_streams(drv)
    if prop == 'c02':       # history, resync, whole catalogue
        for _ in range(total // 4):
            qs = drv.queries()
            streams.append(drv.stream(rng, rng.choice(kinds)) + drv.terminators[0]
                           + ''.join(qs if len(qs) <= 12 else rng.sample(qs, 12)))
    while len(streams) < total:
        streams.append(drv.stream(rng, rng.choice(kinds)))
    for data in streams:
        term, outs, _ = drv.case(data)
        cases.append(term)
        tags = set(t for t, _ in outs)
        for t in tags:
            ctx.count('%s:%s' % (sim, t))
        if tags - {'True', 'False'}:
            ctx.nontriv((sim, data))
    for c in cases[:2]:
        ctx.sample(c[:300])
    ctx.run_cases('%s_%s' % (prop, sim), drv.corr_import, drv.ctype, drv.okfun, cases,
                  show='show', shard=ctx.n(100, 400))


# ---------------------------------------------------------------------------
# implementation-level oracles (the theorem statements transcribed over the real classes)

def hx(s):
    return s.encode('latin-1').hex()


def unhx(h):
    return bytes.fromhex(h).decode('latin-1')


def history(rng, drv):
    kind = rng.choice(['valid', 'valid', 'odd', 'mutated', 'mutated', 'garbage'])
    return drv.stream(rng, kind)


def is_idle(system):
    return system.msg == ''


def catalogue_snapshot(drv, system):
    return [feed(system, q) for q in drv.queries()]


def chk_resync(drv, hist, term, probe):
    """after any history a terminator makes the framer idle and a probe query is answered"""
    s = drv.new()
    feed(s, hist)
    feed(s, term)
    if not is_idle(s):
        return 'resync', 'framer not idle after history + terminator'
    o = feed(s, probe)
    if not one_reply_shape(o):
        return 'resync_probe', 'probe query after resync not answered by exactly one reply'
    if not is_idle(s):
        return 'resync', 'framer not idle after the probe'
    return None


def chk_overflow(drv, hist, filler):
    """bounded protocols: within max_msg_length further bytes the framer is idle at least once"""
    s = drv.new()
    feed(s, hist)
    seen = False
    for ch in filler[:drv.maxlen]:
        call_parse(s, ch)
        if len(s.msg) >= drv.maxlen:
            return 'overflow', 'buffer reached max_msg_length without reset'
        seen = seen or is_idle(s)
    if not seen:
        return 'overflow', 'framer not idle within max_msg_length bytes'
    return None


def chk_idle_discard(drv, hist, term, b):
    s = drv.new()
    feed(s, hist)
    feed(s, term)
    before = drv.snapshot(s)
    o = call_parse(s, b)
    if o[0] != drv.idle_discard_outcome or drv.snapshot(s) != before:
        return 'idle_discard', 'idle framer did not discard a non-header byte'
    return None


def chk_fresh(drv, hist, term, data):
    """after idle the framing behaviour equals that of a fresh instance: same outcome classes
    for True/False/ValueError and the same idle pattern, byte per byte"""
    s = drv.new()
    feed(s, hist)
    feed(s, term)
    f = drv.new()
    for ch in data:
        a, b = call_parse(s, ch), call_parse(f, ch)
        fa = a[0] if a[0] in ('True', 'False') else 'exec'
        fb = b[0] if b[0] in ('True', 'False') else 'exec'
        if fa != fb or s.msg != f.msg:
            return 'fresh', 'framing after idle differs from a fresh instance'
    return None


def chk_query(drv, hist, term, q):
    s = drv.new()
    feed(s, hist)
    feed(s, term)
    o = feed(s, q)
    if not one_reply_shape(o):
        return 'query_unanswered', 'catalogue query not answered by exactly one reply'
    if not drv.wf_reply(o[-1][1]):
        return 'query_reply_shape', 'reply to a catalogue query is not of the protocol shape'
    if not drv.echo_ok(q, o[-1][1]):
        return 'query_reply_echo', 'reply does not name the request it answers'
    return None


def chk_replies(drv, data):
    s = drv.new()
    bad = drv.check_stream_replies(s, data) if hasattr(drv, 'check_stream_replies') else None
    if bad:
        return bad
    s = drv.new()
    for r in replies(feed(s, data)):
        if not drv.wf_reply(r):
            return 'reply_shape', 'a reply is not of the protocol shape'
    return None


def chk_write(drv, hist, term, reg, line, kind, value, quiet):
    """quiet: list of lines fed between the write and the read-back"""
    s = drv.new()
    feed(s, hist)
    feed(s, term)
    before = catalogue_snapshot(drv, s)
    o = feed(s, line)
    acked = drv.is_ack(o)
    if kind == 'in' and not acked:
        return 'indomain_refused_' + reg, 'in-domain write not acknowledged'
    if not acked:
        if catalogue_snapshot(drv, s) != before:
            return 'refused_changed_' + reg, 'refused write changed a read-back'
        return None
    if kind != 'in':
        return None if getattr(drv, 'lenient_ok', lambda *a: True)(reg, line) else \
            ('outdomain_acked_' + reg, 'out-of-domain write acknowledged')
    for ln in quiet:
        oo = feed(s, ln)
        if drv.is_acked_write(reg, ln, oo, value):
            return None          # not a quiet history after all: nothing to check
    feed(s, term)
    exp, obs = drv.readback(s, reg, value)
    if exp != obs:
        return 'readback_' + reg, 'acknowledged write does not read back (expected %r, got %r)' % (exp, obs)
    return None


def chk_echo(drv, hist, term, line1, line2):
    """two requests with different ids: the reply to the second names the second"""
    s = drv.new()
    feed(s, hist)
    feed(s, term)
    feed(s, line1)
    o = feed(s, line2)
    if not one_reply_shape(o):
        return 'echo_unanswered', 'request not answered by exactly one reply'
    if not drv.echo_ok(line2, o[-1][1]):
        return 'reply_echo', 'reply does not carry the id of the request it answers'
    return None


CHECKS = dict(echo=chk_echo, resync=chk_resync, overflow=chk_overflow, idle_discard=chk_idle_discard, fresh=chk_fresh,
              query=chk_query, replies=chk_replies, write=chk_write)


def run_check(ctx, drv, prop, check, args):
    """args: list of str / other json values; report a failure with a replayable witness"""
    ctx.evaluations += 1
    try:
        res = CHECKS[check](drv, *args)
    except Exception as ex:     # the probe itself broke on what the implementation returned: report the input
        res = ('probe_crash', 'oracle probe raised %s: %s' % (type(ex).__name__, str(ex)[:120]))
    if res:
        klass, what = res
        klass = getattr(drv, 'classify', lambda k, a: k)(klass, args)
        ctx.fail('%s_%s' % (drv.name, klass), '%s: %s' % (drv.name, what),
                 dict(sim=drv.name, check=check,
                      args=[hx(a) if isinstance(a, str) else a for a in args],
                      strs=[isinstance(a, str) for a in args]))
    return res


def nonheader_bytes(drv):
    return [chr(b) for b in range(256) if not drv.is_header(chr(b))]


def oracle(ctx, sim, prop):
    drv = driver(sim)
    rng = ctx.rng
    n = ctx.n(150, 4000)
    term = drv.terminators[0]
    for w in getattr(drv, 'witnesses', {}).get(prop, []):      # refuted-theorem witnesses first
        run_check(ctx, drv, prop, w[0], list(w[1]))
    for w in corpus_cases(prop, sim):                           # minimised past (false) alarms: run first, every run
        run_check(ctx, drv, prop, w['check'], [tuple(a) if isinstance(a, list) and w['check'] == 'write' and i == 5
                                               else a for i, a in enumerate(w['args'])])
    if prop == 'c03':
        nh = nonheader_bytes(drv)
        for i in range(n):
            h = history(rng, drv)
            t = rng.choice(drv.terminators)
            run_check(ctx, drv, prop, 'resync', [h, t, rng.choice(drv.queries())])
            if drv.maxlen is not None:
                filler = ''.join(rng.choice('x0 ;?#IA') if rng.random() < 0.8 else rand_byte(rng, drv.alphabet)
                                 for _ in range(drv.maxlen))
                run_check(ctx, drv, prop, 'overflow', [h, filler])
            run_check(ctx, drv, prop, 'idle_discard', [h, t, nh[i % len(nh)]])
            run_check(ctx, drv, prop, 'fresh', [h, t, history(rng, drv)])
    elif prop == 'c02':
        qs = drv.queries()
        for i in range(n):
            h = history(rng, drv)
            if i % 2:       # end the history with a boundary / out-of-domain / malformed write of a register
                h += term + ''.join(drv.sample_write(rng, rng.choice(drv.registers))[0]
                                    for _ in range(rng.choice([1, 1, 2])))
            for q in (qs if len(qs) <= 8 else rng.sample(qs, 8)):
                run_check(ctx, drv, prop, 'query', [h, term, q])
    elif prop == 'c04':
        for i in range(n if hasattr(drv, 'echo_pair') else 0):
            run_check(ctx, drv, prop, 'echo', [history(rng, drv) if i % 3 == 0 else '', term] + drv.echo_pair(rng))
        for i in range(n):
            run_check(ctx, drv, prop, 'replies', [history(rng, drv) + term + ''.join(
                rng.sample(drv.queries(), min(3, len(drv.queries()))))])
    elif prop == 'c05':
        for i in range(n):
            h = history(rng, drv)
            reg = rng.choice(drv.registers)
            line, kind, value = drv.sample_write(rng, reg)
            quiet = []
            for _ in range(rng.randrange(0, 5)):
                r = rng.random()
                if r < 0.4:
                    quiet.append(drv.valid_line(rng))
                elif r < 0.7:
                    quiet.append(drv.odd_line(rng))
                elif r < 0.85:
                    quiet.append(mutate(rng, drv.valid_line(rng), drv.alphabet) + term)
                else:
                    quiet.append(rng.choice(drv.queries()))
            run_check(ctx, drv, prop, 'write', [h, term, reg, line, kind, value, quiet])
    ctx.oracle_stats['%s_%s' % (prop, sim)] = n


def corpus_cases(prop, sim):
    """/verif/corpus/<CXX>/sma_*.json : {"sim": ..., "check": ..., "args": [...], "note": ...}"""
    import json
    import os
    d = os.path.join(os.path.dirname(os.path.dirname(os.path.dirname(os.path.abspath(__file__)))), 'corpus', prop.upper())
    out = []
    if os.path.isdir(d):
        for f in sorted(os.listdir(d)):
            if f.startswith('sma_') and f.endswith('.json'):
                w = json.load(open(os.path.join(d, f)))
                if w.get('sim') == sim and w.get('check') in CHECKS:
                    out.append(w)
    return out


def replay(ctx, obj, sim, prop):
    w = obj.get('witness', {})
    if w.get('sim') != sim or w.get('check') not in CHECKS:
        return False
    drv = driver(sim)
    args = [unhx(a) if st else a for a, st in zip(w['args'], w['strs'])]
    if w['check'] == 'write':       # json turned tuples into lists
        args[5] = tuple(args[5]) if isinstance(args[5], list) else args[5]
        args[6] = [unhx(x) for x in w.get('quiet_hex', [])] if 'quiet_hex' in w else args[6]
    try:
        return CHECKS[w['check']](drv, *args) is not None
    except Exception:
        return True
