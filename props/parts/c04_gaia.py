"""C04 part for simulators/gaia (tag Sma): see props/parts/sma_lib.py"""
from props.parts import sma_lib

PART = dict(name='c04_gaia', simulator='gaia', ready=True,
            coq_targets=['Properties/C04_gaia.vo', 'Corr/SmaGaiaCorr.vo'])


def correspondence(ctx):
    sma_lib.correspondence(ctx, 'gaia', 'c04')


def oracle(ctx):
    sma_lib.oracle(ctx, 'gaia', 'c04')


def replay(ctx, obj):
    return sma_lib.replay(ctx, obj, 'gaia', 'c04')
