"""C04 part for the genlo simulator (tag Smb): see props/parts/smb_lib.py, coq/Properties/C04_genlo.v."""
from props.parts import smb_lib

PART, correspondence, oracle, replay = smb_lib.part('c04', 'genlo')
