"""C03, dbesm part: the framer of simulators/dbesm returns to idle (theorems in
coq/Properties/C03_dbesm.v over coq/Model/SmcDbesm.v; correspondence on framing-heavy and general
byte histories; oracle = the three statements on the real System)."""
from props.parts import smc_lib as L

PART = dict(name='c03_dbesm', simulator='dbesm', ready=True,
            coq_targets=['Properties/C03_dbesm.vo', 'Corr/SmcDbesmCorr.vo'])


def correspondence(ctx):
    L.run_corr(ctx, L.DBSim, 'framing', 40, 600, maxlen=14)
    L.run_corr(ctx, L.DBSim, 'general', 30, 500)


def oracle(ctx):
    L.oracle_c03(ctx, L.DBSim)


def replay(ctx, obj):
    return L.replay_c03(ctx, obj, L.DBSim)
