"""C02 part for simulators/minor_servos (tag Msv): see props/parts/msv_lib.py"""
from props.parts import msv_lib

PART = dict(name='c02_ms', simulator='minor_servos', ready=True, coq_targets=['Properties/C02_ms.vo', 'Corr/MsvCorr.vo'])


def gen(ctx):
    msv_lib.gen(ctx)


def correspondence(ctx):
    n, nops, malformed, catalogue = (18, 300), [6, 15, 30], 0.25, True
    import random
    fam = msv_lib.family_traces(random.Random(ctx.rng.randrange(1 << 30)), full=False, sample=ctx.n(10, 60))
    msv_lib.corr_suite(ctx, 'msv-c02', ctx.n(*n), nops, malformed, catalogue, scripted=fam)


def oracle(ctx):
    msv_lib.c02_oracle(ctx)


def replay(ctx, obj):
    return msv_lib.replay_trace(ctx, obj, msv_lib.c02_check)
