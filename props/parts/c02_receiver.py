"""C02, receiver part: every well-formed query is answered exactly once in every reachable state.

correspondence: random history (accepted, refused, garbage) -> resynchronisation -> every kind of query of
                the catalogue, both forms, to a board that exists; compared with Model/RcvModel.v inside
                Coq (Corr/RcvCorr.v)
oracle:         the same on the implementation alone: outcome of the last byte is a reply that decodes as
                exactly one frame from the addressed board with answer code ACK and data
"""
from props import rcv_harness as H

PART = dict(name='c02_receiver', simulator='receiver', ready=True,
            coq_targets=['Properties/C02_receiver.vo', 'Corr/RcvCorr.vo'])


def gen(ctx):
    from gen import rcv_tables
    rcv_tables.run(ctx)


def catalogue(rng, DEF, g, tag, sa):
    """all seven queries in both forms; get_port / get_data with in-domain keys biased to the special ones"""
    qs = []
    for kind in H.QUERIES:
        for ext in (False, True):
            reps = 1
            if kind in ('GET_PORT', 'GET_DATA'):
                reps = 3
            for _ in range(reps):
                p = []
                if kind in ('GET_PORT', 'GET_DATA'):
                    while True:
                        p = g.key()
                        if p[0] in g.dts and p[1] in g.pts and p[2] in g.pns:
                            break
                qs.append((kind, ext, H.build(DEF, kind, ext, sa, g.byte(), g.byte(), p,
                                              eot=None if rng.random() < 0.8 else g.byte())))
    return qs


def history(rng, DEF, g, keys, n):
    segs = []
    for _ in range(n):
        if rng.random() < 0.15:
            segs.append(g.garbage())
        else:
            # set_address excluded so that the probe address stays valid; it is exercised by C18
            while True:
                m, desc = g.request(keys)
                if desc[0] != 'SET_ADDR':
                    break
            segs.append(m)
    soh = ord(DEF.CMD_SOH)
    segs.append([(5 * i + 3) % 256 if (5 * i + 3) % 256 != soh else 0 for i in range(263)])
    return segs


def correspondence(ctx):
    from simulators.receiver import DEFINITIONS as DEF
    rng = ctx.rng
    cases = []
    bro = [ord(c) for c in DEF.SLAVE_ADDR_BROADCAST]
    for i in range(ctx.n(30, 500)):
        tag, amin, amax, feeds = H.pick_config(rng)
        keys = [a for a in range(amin, amax + 1)]
        good = [a for a in keys if a not in bro and a < 256]
        if not good:
            continue
        g = H.Gen(rng, DEF, tag)
        stream = history(rng, DEF, g, keys, rng.randrange(5, 20))
        stream += [m for _, _, m in catalogue(rng, DEF, g, tag, rng.choice(good))]
        term, _ = H.run_history(ctx, rng, len(stream), tag, amin, amax, feeds, stream=stream)
        cases.append(term)
        ctx.nontriv(term)
    ctx.run_cases('c02_receiver', 'From DS Require Import Corr.RcvCorr.', 'rcase', 'ok', cases,
                  show='show', shard=ctx.n(5, 20))


def check_queries(ctx, DEF, cfg, stream, queries=None, rng=None, g=None):
    """feed the history, then the catalogue addressed to a board that exists NOW (garbage completed by the
    resynchronisation bytes may have re-addressed a board); `queries` given: replay of recorded ones"""
    system = H.make_system(*cfg)
    for seg in stream:
        H.feed(system, seg)
    if queries is None:
        bro = [ord(c) for c in DEF.SLAVE_ADDR_BROADCAST]
        good = [k for k in (H.one(k) for k in system.slaves) if k not in bro]
        if not good:
            return 0
        queries = catalogue(rng, DEF, g, cfg[0], rng.choice(good))
    for kind, ext, m in queries:
        if chr(m[1]) not in system.slaves:
            continue
        outs = H.feed(system, m)
        tag, reply = outs[-1]
        fr = H.decode_answer(DEF, reply) if tag == 2 else None
        ok = all(t == 1 for t, _ in outs[:-1]) and fr is not None and len(fr) == 1 and \
            fr[0]['slave'] == m[1] and fr[0]['code'] == ord(DEF.CMD_ACK) and fr[0]['data'] is not None and \
            (fr[0]['master'], fr[0]['cmd'], fr[0]['id']) == (m[2], m[3], m[4])
        if not ok:
            klass = 'receiver_query_exception' if tag == 3 else 'receiver_query_unanswered'
            ctx.fail(klass, 'a well-formed %s query (%s form) to an existing board was not answered by exactly one '
                     'well-formed ACK frame' % (kind.lower(), 'extended' if ext else 'abbreviated'),
                     dict(config=list(cfg), stream=[list(x) for x in stream], query=[kind, ext, list(m)],
                          outcome=tag, reply=reply))
            break
    return len(queries)


def oracle(ctx):
    from simulators.receiver import DEFINITIONS as DEF
    rng = ctx.rng
    n = 0
    for i in range(ctx.n(60, 1200)):
        H.install(H.Recorder(frozen=H.NOW0 + i))
        cfg = H.pick_config(rng)
        keys = [a for a in range(cfg[1], cfg[2] + 1)]
        g = H.Gen(rng, DEF, cfg[0])
        stream = history(rng, DEF, g, keys, rng.randrange(3, 25))
        n += check_queries(ctx, DEF, cfg, stream, rng=rng, g=g)
        if len(ctx.failures) > 10:
            break
    ctx.oracle_stats['c02_receiver_queries'] = n
    ctx.evaluations += n


def replay(ctx, obj):
    if not str(obj.get('klass', '')).startswith('receiver_query'):
        return False
    from simulators.receiver import DEFINITIONS as DEF
    w = obj['witness']
    H.install(H.Recorder(frozen=H.NOW0))
    n0 = len(ctx.failures)
    k, e, m = w['query']
    check_queries(ctx, DEF, tuple(w['config']), w['stream'], queries=[(k, e, m)])
    return len(ctx.failures) > n0
