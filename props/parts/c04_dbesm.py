"""C04, dbesm part: every reply has the protocol terminator / charset shape and echoes what the protocol echoes (theorems in coq/Properties/C04_dbesm.v over
coq/Model/SmcDbesm.v; correspondence of the model with the real System; oracle on the real System)."""
from props.parts import smc_lib as L

PART = dict(name='c04_dbesm', simulator='dbesm', ready=True,
            coq_targets=['Properties/C04_dbesm.vo', 'Corr/SmcDbesmCorr.vo'])


def correspondence(ctx):
    L.run_corr(ctx, L.DBSim, 'general', 40, 600)


def oracle(ctx):
    L.oracle_c04(ctx, L.DBSim)


def replay(ctx, obj):
    return L.replay_generic(ctx, obj, L.DBSim)
