"""C05 part for simulators/minor_servos (tag Msv): see props/parts/msv_lib.py"""
from props.parts import msv_lib

PART = dict(name='c05_ms', simulator='minor_servos', ready=True, coq_targets=['Properties/C05_ms.vo', 'Corr/MsvCorr.vo'])


def gen(ctx):
    msv_lib.gen(ctx)


def correspondence(ctx):
    n, nops, malformed, catalogue = (15, 250), [8, 16, 30], 0.05, True
    msv_lib.corr_suite(ctx, 'msv-c05', ctx.n(*n), nops, malformed, catalogue,
                       scripted=msv_lib.prefix_traces())


def oracle(ctx):
    msv_lib.c05_oracle(ctx)


def replay(ctx, obj):
    return msv_lib.replay_trace(ctx, obj, msv_lib.c05_check)
