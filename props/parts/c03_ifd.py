"""C03 part for simulators/ifd (tag Sma): see props/parts/sma_lib.py"""
from props.parts import sma_lib

PART = dict(name='c03_ifd', simulator='ifd', ready=True,
            coq_targets=['Properties/C03_ifd.vo', 'Corr/SmaIfdCorr.vo'])


def correspondence(ctx):
    sma_lib.correspondence(ctx, 'ifd', 'c03')


def oracle(ctx):
    sma_lib.oracle(ctx, 'ifd', 'c03')


def replay(ctx, obj):
    return sma_lib.replay(ctx, obj, 'ifd', 'c03')
