"""C10 part c10_usd (tag Usd): the arguments given to the encoders of command_library.py reach the
state of the addressed USD with the meaning the protocol gives them, bit for bit.

The bytes returned by the REAL encoders are fed one by one to the real System.parse of a thread-less
System with real USD objects; after every message the complete snapshots of all units are compared
(a) in Coq with the byte-level line model instantiated with the USD model
    (Corr/UsdBytesCorr.v: AslLine.lrun usd_sem; theorem C10_usd_args_reach_state), and
(b) in the oracle with the value the ARGUMENTS denote under the protocol specification, restated in
    Python in terms of the arguments (meaning()).
All 256 values of the byte-sized arguments (eleven encoders), boundary and random values of the
wider ones, unicast to every unit and broadcast, both start bytes, int and one-character str
arguments."""
import copy

from props import usd_common as UC

PART = dict(name='c10_usd', simulator='active_surface', ready=True,
            coq_targets=['Properties/C10_usd.vo', 'Corr/UsdBytesCorr.vo'])

IMPORTS = 'From DS Require Import Model.UsdModel Model.AslLine Corr.UsdBytesCorr.'

# encoder name -> (command code, kind of its argument)
ENCODERS = {
    'set_min_frequency': (0x20, 'i16'), 'set_max_frequency': (0x21, 'i16'),
    'set_slope_multiplier': (0x22, 'i8'), 'set_reference_position': (0x23, 'i32'),
    'set_io_pins': (0x25, 'byte'), 'set_resolution': (0x26, 'byte'), 'reduce_current': (0x27, 'byte'),
    'set_response_delay': (0x28, 'u8'), 'toggle_delayed_execution': (0x29, 'byte'),
    'set_absolute_position': (0x30, 'i32'), 'set_relative_position': (0x31, 'i32'),
    'rotate': (0x32, 'i8'), 'set_velocity': (0x35, 'i24'),
    'set_stop_io': (0x2A, 'byte'), 'set_positioning_io': (0x2B, 'byte'), 'set_home_io': (0x2C, 'byte'),
    'set_working_mode': (0x2D, 'byte'),
}
NOARG = {'soft_reset': 0x01, 'soft_trigger': 0x02, 'get_version': 0x10, 'soft_stop': 0x11,
         'get_position': 0x12, 'get_status': 0x13, 'get_driver_type': 0x14}
BYTE_SIZED = [n for n, (c, k) in ENCODERS.items() if k in ('byte', 'u8', 'i8')]
WIDE = [n for n, (c, k) in ENCODERS.items() if k not in ('byte', 'u8', 'i8')]


def grid(kind):
    if kind in ('byte', 'u8'):
        return list(range(256))
    return list(range(-128, 128))


def wide_values(rng, name, u):
    kind = ENCODERS[name][1]
    if kind == 'i16':
        return [19, 20, 21, 9999, 10000, 10001, -32768, 32767, 0, -1, u.min_frequency, u.max_frequency,
                u.min_frequency - 1, u.max_frequency + 1, rng.randrange(20, 10001), rng.randrange(-32768, 32768)]
    if kind == 'i24':
        return [0, 1, -1, 9, -9, 10, -10, 100000, -100000, 100001, -100001, 8388607, -8388608,
                rng.randrange(-100000, 100001), rng.randrange(-8388608, 8388608), 255, 256, 65536, -65536]
    return [0, 1, -1, 255, 256, -256, 65535, 65536, -65537, 2147483647, -2147483648, 2688000, -2688000,
            2688001, rng.randrange(-3000000, 3000000), rng.randrange(-2147483648, 2147483648)]


# ---------------------------------------------------------------------------------------------
# the meaning of the arguments (Spec/UsdSpec.v exec, restated on snapshots in terms of arguments)

def bit(b, i):
    return (b >> i) & 1


def sgn(x):
    return (x > 0) - (x < 0)


def levels(b):
    return (bit(b, 0) * bit(b, 3), bit(b, 1) * bit(b, 4), bit(b, 2) * bit(b, 5))


def enables(b):
    return (bit(b, 0), bit(b, 1), bit(b, 2))


def meaning(s, name, a):
    """state of a unit after the command `name(a)`; a is the encoder's argument (str -> code point)"""
    s = copy.deepcopy(s)
    if isinstance(a, str):
        a = ord(a)
    if name == 'set_min_frequency':
        if 20 <= a <= 10000 and a <= s['max_frequency']:
            s['min_frequency'] = a
    elif name == 'set_max_frequency':
        if 20 <= a <= 10000 and s['min_frequency'] <= a:
            s['max_frequency'] = a
    elif name == 'set_slope_multiplier':
        s['slope_delayer'] = a % 256 + 1
    elif name == 'set_reference_position':
        s['reference_position'] = a
    elif name == 'set_io_pins':
        s['io_dir'] = (bit(a, 4), bit(a, 5), bit(a, 6))
        s['io_val'] = (bit(a, 4) * bit(a, 0), bit(a, 5) * bit(a, 1), bit(a, 6) * bit(a, 2))
    elif name == 'set_resolution':
        s['auto_resolution'], s['resolution'] = (True, 1) if a >= 8 else (False, 2 ** a)
    elif name == 'reduce_current':
        s['standby_mode'], s['standby_delay_multiplier'] = (0, 0, 1, 2)[a >> 6], a & 63
    elif name == 'set_response_delay':
        s['delay_multiplier'] = a
    elif name == 'toggle_delayed_execution':
        s['delayed_execution'] = bool(bit(a, 7))
        s['trigger_io_enable'], s['trigger_io_level'] = enables(a), levels(a)
        s['position_queue'], s['ready'] = [], False
    elif name in ('set_absolute_position', 'set_relative_position'):
        absolute = name == 'set_absolute_position'
        if s['delayed_execution']:
            s['position_queue'].append((s['reference_position'] + a, True) if absolute else (a, False))
            s['ready'] = True
        elif not s['running']:
            s['cmd_position'] = (s['reference_position'] if absolute else s['current_position']) + a
    elif name == 'rotate':
        if not s['running']:
            s['cmd_position'] = sgn(a) * (UC.MAXP + 1)
    elif name == 'set_velocity':
        if -100000 <= a <= 100000 and (s['auto_resolution'] or abs(a) >= 10 or a == 0):
            s['velocity'] = a if a else None
            s['cmd_position'] = None
    elif name in ('set_stop_io', 'set_positioning_io', 'set_home_io'):
        key = {'set_stop_io': 'stop_io', 'set_positioning_io': 'pos_io', 'set_home_io': 'home_io'}[name]
        s[key + '_enable'], s[key + '_level'] = enables(a), levels(a)
    elif name == 'set_working_mode':
        s['baud_rate'] = 19200 if bit(a, 0) else 9600
    else:
        raise AssertionError(name)
    return s


# ---------------------------------------------------------------------------------------------

def encode(name, arg, idx, aor):
    """the REAL encoder; returns the list of byte values"""
    from simulators.active_surface import command_library as cl
    f = getattr(cl, name)
    msg = f(usd_index=idx, address_on_response=aor) if arg is None else f(arg, usd_index=idx,
                                                                         address_on_response=aor)
    return [ord(c) for c in msg]


def send(line, bs):
    return [line.parse_byte(b) for b in bs]


def coq_aout(o):
    if o[0] == 'R':
        return '(OReply %s)' % UC.zlist(o[1])
    return {'F': 'OFalse', 'T': 'OTrue', 'V': 'OValueError', 'E': 'OException', 'B': 'OException'}[o[0]]


def targets(n):
    """(unit position or None for broadcast, address_on_response)"""
    return [(j, aor) for j in list(range(n)) + [None] for aor in (True, False)]


def message_plan(ctx, rng, full):
    """[(name, arg)]: the whole grid of the byte-sized arguments, boundary/random values of the rest"""
    plan = []
    for name in BYTE_SIZED:
        for a in grid(ENCODERS[name][1]):
            plan.append((name, a))
    return plan


def correspondence(ctx):
    rng = ctx.rng
    terms = []
    nmsg = 0
    with UC.implementation() as impl:
        def new_line():
            n = 2
            first = rng.randrange(0, 31)
            return UC.Line(impl, [first, first + 1], 1024), first

        plan = message_plan(ctx, rng, not ctx.quick())
        rng.shuffle(plan)
        tg = targets(2)
        k = 0
        per_case = 48
        for i in range(0, len(plan), per_case):
            line, first = new_line()
            chunks = []
            batch = list(plan[i:i + per_case])
            # the wide encoders and a few commands without arguments, steered by the present state
            for _ in range(8):
                name = rng.choice(WIDE)
                batch.insert(rng.randrange(len(batch) + 1), (name, rng.choice(wide_values(rng, name, line.units[0]))))
            for _ in range(3):
                batch.insert(rng.randrange(len(batch) + 1), (rng.choice(list(NOARG)), None))
            for name, a in batch:
                reps = tg if not ctx.quick() else [tg[k % len(tg)]]
                k += 1
                for j, aor in reps:
                    arg = a
                    if a is not None and name in ENCODERS and ENCODERS[name][1] == 'byte' and rng.random() < 0.25:
                        arg = chr(a)            # the one-character str flavour of the argument
                    bs = encode(name, arg, None if j is None else line.idxs[j], aor)
                    outs = send(line, bs)
                    chunks.append('(%s, [%s], [%s])' % (UC.zlist(bs), '; '.join(coq_aout(o) for o in outs),
                                                        '; '.join(UC.coq_snapshot(x) for x in line.snapshots())))
                    nmsg += 1
                    ctx.count('c10_usd:' + name)
            terms.append('(%s, %s, [%s])' % (UC.zlit(first), UC.zlist(line.idxs), ';\n '.join(chunks)))
            ctx.nontriv(('c10_usd', first, i))
    ctx.count('c10_usd:messages', nmsg)
    ctx.sample(terms[0][:400])
    ctx.run_cases('c10_usd_messages', IMPORTS, 'chunk_case', 'cok', terms, show='cshow', shard=ctx.n(4, 8))


# ---------------------------------------------------------------------------------------------
# oracle: arguments -> state, on the real classes

def check_message(line, name, arg, j, aor, failures):
    """send encoder `name(arg)` to unit j (None: broadcast); compare every unit with the meaning of
    the arguments"""
    before = line.snapshots()
    try:
        bs = encode(name, arg, None if j is None else line.idxs[j], aor)
    except Exception as ex:   # noqa  in-domain arguments must be encoded
        failures.append(('active_surface_usd_encoder_refused_in_domain_argument',
                         '%s(%r) raised %s' % (name, arg, type(ex).__name__), {}))
        return
    outs = send(line, bs)
    after = line.snapshots()
    w = dict(encoder=name, argument=arg if not isinstance(arg, str) else 'chr(%d)' % ord(arg),
             unit=j, address_on_response=aor, message=bytes(bs).hex())
    ok_out = all(o == ('T',) for o in outs[:-1]) and (outs[-1] == ('T',) or (j is not None and outs[-1][0] == 'R'))
    if not ok_out:
        failures.append(('active_surface_usd_encoder_message_not_consumed',
                         '%s(%r): parse outcomes %r' % (name, arg, outs), w))
    for i in range(len(before)):
        want = meaning(before[i], name, arg) if (j is None or i == j) else before[i]
        if after[i] != want:
            diff = sorted(k for k in want if after[i][k] != want[k])
            what = '%s(%r) %s: unit %d holds %r, the argument means %r' % (
                name, arg, 'broadcast' if j is None else 'to unit %d' % line.idxs[j], line.idxs[i],
                {k: after[i][k] for k in diff}, {k: want[k] for k in diff})
            failures.append(('active_surface_usd_argument_not_decoded' if (j is None or i == j)
                             else 'active_surface_usd_other_unit_changed', what, w))
            break


def oracle(ctx):
    rng = ctx.rng
    checked = 0
    reported = set()
    with UC.implementation() as impl:
        def report(failures, line, log):
            for klass, what, w in failures:
                if klass not in reported:
                    reported.add(klass)
                    ctx.fail(klass, what, dict(part='c10_usd', idxs=line.idxs, log=[list(x) for x in log], **w))

        tg = targets(2)
        # the complete grids of the byte-sized arguments: every unit, broadcast, both start bytes
        for name in BYTE_SIZED:
            first = rng.randrange(0, 31)
            line = UC.Line(impl, [first, first + 1], 1024)
            log = []
            values = grid(ENCODERS[name][1])
            rng.shuffle(values)
            for a in values:
                for j, aor in tg:
                    arg = chr(a) if ENCODERS[name][1] == 'byte' and rng.random() < 0.2 else a
                    failures = []
                    check_message(line, name, arg, j, aor, failures)
                    log.append((name, a if not isinstance(arg, str) else 'chr(%d)' % a, j, aor))
                    report(failures, line, log[-40:])
                    checked += 1
                if rng.random() < 0.05:          # vary the state the next values arrive in
                    other = rng.choice(BYTE_SIZED)
                    b = rng.choice(grid(ENCODERS[other][1]))
                    failures = []
                    check_message(line, other, b, rng.choice([0, 1, None]), True, failures)
                    log.append((other, b, None, True))
                    report(failures, line, log[-40:])
        # the wider arguments, in evolving states (time steps make the units run: busy refusal)
        for _ in range(ctx.n(40, 800)):
            n = rng.choice([1, 2, 3])
            first = rng.randrange(0, 32 - n + 1)
            line = UC.Line(impl, list(range(first, first + n)), rng.randrange(1, 1 << 20))
            log = []
            for _ in range(rng.randrange(10, 40)):
                if rng.random() < 0.15:
                    k = rng.choice([1, 5, 100, 5000])
                    line.tick(k)
                    log.append(('tick', k))
                    continue
                name = rng.choice(WIDE + WIDE + BYTE_SIZED)
                j = rng.choice(list(range(n)) + [None])
                if name in WIDE:
                    a = rng.choice(wide_values(rng, name, line.units[j or 0]))
                else:
                    a = rng.choice(grid(ENCODERS[name][1]))
                failures = []
                check_message(line, name, a, j, rng.random() < 0.5, failures)
                log.append((name, a, j))
                report(failures, line, log)
                checked += 1
    ctx.oracle_stats['c10_usd'] = dict(messages_checked=checked)
    ctx.evaluations += checked


def replay(ctx, obj):
    w = obj.get('witness') or {}
    if w.get('part') != 'c10_usd':
        return False
    # the failing message on a fresh line: the argument-level defects of this part do not need history
    with UC.implementation() as impl:
        line = UC.Line(impl, w['idxs'], 1024)
        arg = w['argument']
        if isinstance(arg, str) and arg.startswith('chr('):
            arg = chr(int(arg[4:-1]))
        failures = []
        for pre in ([], [('set_io_pins', 0x77)], [('toggle_delayed_execution', 0x80)]):
            for name, a in pre:
                check_message(line, name, a, None, True, [])
            check_message(line, w['encoder'], arg, w['unit'], w['address_on_response'], failures)
    return any(k == obj.get('klass') for k, _, _ in failures)
