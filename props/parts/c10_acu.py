"""C10 part, ACU (agent Acmd): the client-side encoders of simulators/acu/acu_utils.py
(ModeCommand, ParameterCommand, ProgramTrackEntry/Command, Command.get) against the simulator's
own framing and command splitting.

Correspondence: (a) Model/AcmdEncoder.v `enc_frame` against the bytes the real encoders produce;
(b) the real `System.parse` on those bytes against Model/AcmdFrame.v + AcmdAxis.v (per-byte
outcome, the command strings handed to the handlers, subsystem answers).
Oracle: the C10 statement on the real classes — one complete message, every byte True, parser
idle afterwards, each handler receives a command whose decoded fields equal the encoder's
arguments bit for bit."""
import struct
import types

from vlib.core import zlit, zlist
from props import acmd_lib as L
from props import c14

PART = dict(name='c10_acu', simulator='acu', ready=True,
            coq_targets=['Properties/C10_acu.vo', 'Corr/AcmdCorr.vo', 'Corr/AcmdTrackCorr.vo'])


def gen(ctx):
    c14.gen(ctx)


# ---------------------------------------------------------------------------
# argument generators: a command is ('mode', sub, mode, b1, b2) | ('param', sub, pid, b1, b2) |
# ('track', sub, pid, interp, track, load, t0, raz, rel, [(t, az, el)])   (doubles as bit patterns)

def gen_args(ctx, T, pool, in_domain=True):
    rng = ctx.rng
    n = rng.choice([1, 1, 2, 2, 3]) if in_domain else rng.choice([0, 1, 2, 3, 4])
    subs = rng.sample([1, 2, 5], n) if in_domain else [rng.choice([1, 2, 5, 0, 9, 65535, 65536, -1]) for _ in range(n)]
    cmds = []

    def dbl():
        return c14.rnd_double(ctx, T, pool)
    for sub in subs:
        kinds = ['param', 'track'] if (in_domain and sub == 5) else ['mode', 'param'] if in_domain else \
            ['mode', 'param', 'track']
        k = rng.choice(kinds)
        if k == 'mode':
            mode = rng.choice(c14.MODES + [6, 100, 65535]) if in_domain else rng.choice([0, 3, 65535, 65536, -1])
            cmds.append(('mode', sub, mode, dbl(), dbl()))
        elif k == 'param':
            pid = rng.choice([11, 12, 60, 61, 0, 65535]) if in_domain else rng.choice([11, 65536, -1])
            cmds.append(('param', sub, pid, dbl(), dbl()))
        else:
            npts = rng.choice([1, 2, 5, 17, 49, 50]) if in_domain else rng.choice([0, 1, 51, 60])
            t = 0
            entries = []
            for _ in range(npts):
                entries.append((t if in_domain or rng.random() < 0.8 else rng.choice([2 ** 31, -2 ** 31 - 1]),
                                dbl(), dbl()))
                t += rng.choice([1, 100, 1000, 2 ** 20])
                t = min(t, 2 ** 31 - 1)
            if in_domain and rng.random() < 0.2:
                entries = [(rng.choice([-2 ** 31, 2 ** 31 - 1, -1, 0]), a, e) for _, a, e in entries]
            cmds.append(('track', sub, rng.choice([61, 61, 60, 0, 65535]), rng.choice([4, 0, 65535]),
                         rng.choice([1, 2, 65535]), rng.choice([1, 2, 0]), dbl(), dbl(), dbl(), entries))
    if in_domain:
        counter = rng.choice([1, 2, 2 ** 31 - 2, 2 ** 31 - 1, 2 ** 31, 2 ** 32 - 1 - len(cmds),
                              rng.randrange(1, 2 ** 32 - 4), rng.randrange(1, 86400000)])
    else:
        counter = rng.choice([2 ** 32 - 1, 2 ** 32, 2 ** 32 - len(cmds), 1, -1, rng.randrange(1, 2 ** 32)])
    return counter, cmds


def build(AU, counter, cmds):
    """the real encoder objects -> message string (or None when the encoder raises)"""
    objs = []
    for c in cmds:
        if c[0] == 'mode':
            objs.append(AU.ModeCommand(c[1], c[2], L.float_of(c[3]), L.float_of(c[4])))
        elif c[0] == 'param':
            objs.append(AU.ParameterCommand(c[1], c[2], L.float_of(c[3]), L.float_of(c[4])))
        else:
            o = AU.ProgramTrackCommand(c[5], L.float_of(c[6]), (L.float_of(c[7]), L.float_of(c[8])),
                                       parameter_id=c[2], interpolation_mode=c[3], tracking_mode=c[4],
                                       subsystem_id=c[1])
            for t, a, e in c[9]:
                o.add_entry(t, L.float_of(a), L.float_of(e))
            objs.append(o)
    cmd = AU.Command(*objs)
    cmd.command_counter = counter
    try:
        return cmd.get().encode('latin-1')
    except Exception:
        return None


def coq_ecmd(c):
    if c[0] == 'mode':
        return 'EMode %s %s %s %s' % tuple(zlit(x) for x in c[1:5])
    if c[0] == 'param':
        return 'EParam %s %s %s %s' % tuple(zlit(x) for x in c[1:5])
    ent = '[' + '; '.join('(%s, %s, %s)' % (zlit(t), zlit(a), zlit(e)) for t, a, e in c[9]) + ']'
    return 'ETrack %s %s' % (' '.join(zlit(x) for x in c[1:9]), ent)


class patched_utils:
    """acu_utils sleeps one millisecond per command: not needed here"""
    def __enter__(self):
        import simulators.acu.acu_utils as AU
        self.AU = AU
        self.saved = AU.time
        AU.time = types.SimpleNamespace(sleep=lambda s: None, time=self.saved.time)
        return AU

    def __exit__(self, *a):
        self.AU.time = self.saved


# ---------------------------------------------------------------------------
# encoder-built program-track commands decoded by the real PointingStatus (the handler is
# executed, not intercepted: it needs no clock — mjd_to_date of the start-time field and scipy's
# splrep are functions of the command — and it does not sleep)

import datetime as _dt

DT_MIN = _dt.datetime.min
US = _dt.timedelta(microseconds=1)
I32 = 2 ** 31
MUST_N = (1, 4, 5, 49, 50)
DELTAS = [1, 2, 5, 10, 100, 200, 250, 1000, 2000, 60000]


def token(dt):
    return None if dt is None else (dt - DT_MIN) // US


def microdeg(x):
    """int(round(1000000 * x)) when the code's representability test holds (as in props/c17.py)"""
    try:
        if not abs(1000000 * x) <= I32 - 1:
            return None
        return int(round(1000000 * x))
    except (ValueError, OverflowError):
        return None


def start_token(ps, bits):
    from simulators import utils
    try:
        return token(utils.mjd_to_date(L.float_of(bits)) + ps.time_source_offset)
    except (ValueError, OverflowError):
        return None


def track_positions(rng, n):
    """n in-domain (azimuth, elevation) pairs as bit patterns"""
    out = []
    for _ in range(n):
        r = rng.random()
        if r < 0.08:
            a, e = rng.choice([2147.483647, -2147.483647, 0.0, -0.0, 450.0, -90.0]), rng.choice([5.0, 90.0, 0.0, -0.0])
        elif r < 0.2:
            a, e = rng.uniform(-2147, 2147), rng.uniform(-2147, 2147)
        else:
            a, e = rng.uniform(-90, 450), rng.uniform(5, 90)
        out.append((L.bits_of(a), L.bits_of(e)))
    return out


def track_scenario(rng, forced=None):
    """a sequence of in-domain loads: a new table (>= 5 points from relative time 0, equal
    spacing), then appends to it; each load = dict(mode, times, pos, start, rates).
    forced = (kind, n) puts a load of that kind and size into the scenario."""
    start = L.bits_of(60000.0 + rng.randrange(0, 3000) + rng.random())     # an MJD in 2023..2031
    delta = rng.choice(DELTAS)
    loads = []
    kind, fn = forced if forced else (rng.choice(['new', 'append', 'append']), rng.choice(
        list(MUST_N) + [rng.randrange(1, 51)]))
    n0 = fn if (kind == 'new' and fn >= 5) else rng.choice([5, 5, 6, 7, 25, 50, rng.randrange(5, 51)])
    t = 0
    times = [i * delta for i in range(n0)]
    loads.append(dict(mode=1, times=times, pos=track_positions(rng, n0), start=start,
                      rates=(L.bits_of(rng.uniform(0, 0.85)), L.bits_of(rng.uniform(0, 0.5)))))
    last = times[-1]
    sizes = []
    if kind == 'append' or (kind == 'new' and fn < 5):
        sizes.append(fn)
    sizes += [rng.choice(list(MUST_N) + [rng.randrange(1, 51)]) for _ in range(rng.choice([0, 0, 1, 2]))]
    for n in sizes:
        times = [last + (i + 1) * delta for i in range(n)]
        if times[-1] >= I32:
            break
        last = times[-1]
        loads.append(dict(mode=2, times=times, pos=track_positions(rng, n), start=start,
                          rates=(L.bits_of(rng.uniform(0, 0.85)), L.bits_of(rng.uniform(0, 0.5)))))
    return loads


def too_long_scenario(rng):
    """51 points (one above the documented maximum): a new table, and an append"""
    loads = track_scenario(rng, ('new', 5))[:1]
    delta = loads[0]['times'][1]
    bad_new = dict(mode=1, times=[i * delta for i in range(51)], pos=track_positions(rng, 51),
                   start=loads[0]['start'], rates=loads[0]['rates'])
    last = loads[0]['times'][-1]
    bad_app = dict(mode=2, times=[last + (i + 1) * delta for i in range(51)], pos=track_positions(rng, 51),
                   start=loads[0]['start'], rates=loads[0]['rates'])
    return loads + [rng.choice([bad_new, bad_app])]


def load_args(ld):
    """the `track` argument tuple of gen_args / build for one load"""
    return ('track', 5, 61, 4, 1, ld['mode'], ld['start'], ld['rates'][0], ld['rates'][1],
            [(t, a, e) for t, (a, e) in zip(ld['times'], ld['pos'])])


def ps_observe(ps):
    table = list(zip(ps.relative_times, [L.bits_of(x) for x in ps.azimuth_positions],
                     [L.bits_of(x) for x in ps.elevation_positions]))
    rates = None
    if hasattr(ps, 'azimuth_max_rate'):
        rates = (L.bits_of(ps.azimuth_max_rate), L.bits_of(ps.elevation_max_rate))
    return dict(ans=ps.parameter_command_answer, cnt=ps.parameter_command_counter, cmd=ps.parameter_command,
                len=ps.ptTableLength, start=token(ps.start_time), table=table, rates=rates)


def run_track_scenario(AU, A, loads, counter0):
    """feed each load, built by the real encoders, to one fresh real System with the pointing
    handler executed; returns per load (args, handler bytes, observation, outs, events)"""
    s = L.new_system(A)
    out = []
    counter = counter0
    saved = L.SyncThread.skip_ps
    L.SyncThread.skip_ps = False
    try:
        for ld in loads:
            args = load_args(ld)
            msg = build(AU, counter, [args])
            if msg is None:
                out.append(dict(args=args, counter=counter, msg=None))
                continue
            outs = L.feed(s, msg)
            ev = L.take_events()
            out.append(dict(args=args, counter=counter, msg=msg, outs=outs, events=ev, idle=(s.msg == ''),
                            obs=ps_observe(s.PS), start=start_token(s.PS, ld['start'])))
            counter += 7
    finally:
        L.SyncThread.skip_ps = saved
    return out


def tk_term(rec):
    """one load record -> Coq term of type AcmdTrackCorr.tkload"""
    from vlib.core import optlit
    o = rec['obs']
    cmd = rec['events'][0][2]
    ent = rec['args'][9]
    uds = '[' + '; '.join('(%s, %s)' % (optlit(microdeg(L.float_of(a))), optlit(microdeg(L.float_of(e))))
                          for _, a, e in ent) + ']'
    tab = '[' + '; '.join('(%s, %s, %s)' % (zlit(t), zlit(a), zlit(e)) for t, a, e in o['table']) + ']'
    room = 0 if rec['start'] is None else token(_dt.datetime.max) - rec['start']
    rates = 'None' if o['rates'] is None else '(Some (%s, %s))' % (zlit(o['rates'][0]), zlit(o['rates'][1]))
    return 'TkLoad %s (%s) %s %s %s %s %s %s %s %s %s %s %s' % (
        zlit(rec['counter'] + 1), coq_ecmd(rec['args']), zlist(cmd), optlit(rec['start']), zlit(room), uds,
        zlit(o['ans']), zlit(o['cnt']), zlit(o['cmd']), zlit(o['len']), optlit(o['start']), tab, rates)


def track_scenarios(ctx, n_random):
    rng = ctx.rng
    sc = []
    for n in MUST_N:
        if n >= 5:
            sc.append(track_scenario(rng, ('new', n)))
        sc.append(track_scenario(rng, ('append', n)))
    sc.append(too_long_scenario(rng))
    for _ in range(n_random):
        sc.append(track_scenario(rng) if rng.random() < 0.9 else too_long_scenario(rng))
    return sc


def check_track(AU, A, loads, counter0):
    """C10 for encoder-built program-track commands, on the real PointingStatus"""
    recs = run_track_scenario(AU, A, loads, counter0)
    table = []
    accepted = None
    for k, (ld, r) in enumerate(zip(loads, recs)):
        n = len(ld['times'])
        if r['msg'] is None:
            if n <= 50:
                return 'acu_track_encoder_raised_in_domain', 'the encoder raised for %d points' % n
            continue
        if any(o != L.O_TRUE for o in r['outs']) or not r['idle']:
            return 'acu_track_frame_not_consumed', 'load %d (%d points): not every byte True / parser busy' % (k, n)
        ev = r['events']
        if len(ev) != 1 or ev[0][:2] != (5, 4) or ev[0][3] != L.T_DONE:
            return 'acu_track_not_dispatched', 'load %d (%d points): handler events %r' % (
                k, n, [(e[0], e[1], e[3], e[4]) for e in ev])
        o = r['obs']
        if (o['cnt'], o['cmd']) != (r['counter'] + 1, 61):
            return 'acu_track_counter_not_decoded', 'load %d: counter/parameter id decoded as %r' % (k, (o['cnt'], o['cmd']))
        if n > 50:
            if o['ans'] != 5 or o['table'] != table:
                return 'acu_track_too_long_accepted', 'a %d-point load was not refused (answer %d)' % (n, o['ans'])
            continue
        if r['start'] is None:
            # mjd_to_date cannot represent this start time (it can round a fraction of a day up to
            # 24:00:00): outside the domain of the claim, which needs a start time (C17: h_start)
            if o['ans'] == 1:
                return 'acu_track_unrepresentable_start_accepted', 'load accepted although mjd_to_date raises'
            continue
        if o['ans'] != 1:
            return 'acu_track_in_domain_refused', \
                'in-domain %s of %d points (table had %d) answered %d instead of 1' % (
                    'new table' if ld['mode'] == 1 else 'append', n, len(table), o['ans'])
        new = [(t, a, e) for t, (a, e) in zip(ld['times'], ld['pos'])]
        table = new if ld['mode'] == 1 else table + new
        if o['table'] != table:
            bad = next((i for i, (x, y) in enumerate(zip(o['table'], table)) if x != y), min(len(table), len(o['table'])))
            return 'acu_track_values_differ', 'load %d: stored table differs from the encoder arguments at row %d ' \
                '(%d rows stored, %d expected)' % (k, bad, len(o['table']), len(table))
        if o['len'] != len(table):
            return 'acu_track_length_field', 'ptTableLength %d, table has %d rows' % (o['len'], len(table))
        if o['rates'] != ld['rates']:
            return 'acu_track_values_differ', 'load %d: stored maximum rates differ from the encoder arguments' % k
        if o['start'] is None or o['start'] != r['start']:
            return 'acu_track_values_differ', 'load %d: stored start time is not mjd_to_date(argument)' % k
    return None


def scenario_json(loads):
    return [dict(mode=l['mode'], times=l['times'], pos=[list(p) for p in l['pos']], start=l['start'],
                 rates=list(l['rates'])) for l in loads]


def scenario_from_json(js):
    return [dict(mode=l['mode'], times=list(l['times']), pos=[tuple(p) for p in l['pos']], start=l['start'],
                 rates=tuple(l['rates'])) for l in js]


def correspondence(ctx):
    T = c14.tables(ctx)
    rng = ctx.rng
    pool = c14.double_pool(T, rng)
    ecases, pcases = [], []
    with patched_utils() as AU, L.patched() as A:
        for i in range(ctx.n(260, 4000)):
            counter, cmds = gen_args(ctx, T, pool, in_domain=rng.random() < 0.75)
            out = build(AU, counter, cmds) if counter != 0 else None
            ecases.append('EFrame %s [%s] %s' % (zlit(counter), '; '.join(coq_ecmd(c) for c in cmds),
                                                 'None' if out is None else '(Some %s)' % zlist(out)))
            ctx.count('c10_acu:encoder-%s' % ('raised' if out is None else 'ok'))
            ctx.nontriv(('c10_acu', counter, repr(cmds)))
            if out is not None and len(pcases) < ctx.n(120, 1500):
                # real parsing of encoder output, after a random reachable prefix
                ops = c14.setup_ops(ctx, T, []) + [('feed', out)]
                pcases.append(L.coq_case(L.run_history(A, ops)))
    ctx.run_cases('c10_acu_encoder', 'From DS Require Import Corr.AcmdCorr Model.AcmdEncoder.', 'ecase', 'eok',
                  ecases, shard=ctx.n(70, 200))
    ctx.run_cases('c10_acu_parse', 'From DS Require Import Corr.AcmdCorr.', 'acase', 'ok', pcases,
                  show='show', shard=ctx.n(40, 120))
    # program-track commands decoded by the real PointingStatus
    tcases = []
    with patched_utils() as AU, L.patched() as A:
        for loads in track_scenarios(ctx, ctx.n(40, 600)):
            recs = run_track_scenario(AU, A, loads, rng.randrange(1, 2 ** 31))
            if any(r['msg'] is None or len(r['events']) != 1 for r in recs):
                ctx.count('c10_acu:track-not-dispatched')
                continue        # reported by the oracle with a concrete input
            tcases.append('[' + ';\n '.join(tk_term(r) for r in recs) + ']')
            for ld, r in zip(loads, recs):
                ctx.count('c10_acu:track-%s-answer-%d' % ('new' if ld['mode'] == 1 else 'append', r['obs']['ans']))
                ctx.nontriv(('c10_acu_track', ld['mode'], len(ld['times']), ld['start'], r['obs']['ans']))
    ctx.run_cases('c10_acu_track', 'From DS Require Import Model.AcmdEncoder Corr.AcmdTrackCorr.', 'tkcase', 'tkok', tcases,
                  shard=ctx.n(12, 40))


def norm(bits):
    """ModeCommand replaces a falsy parameter (None, 0, 0.0, -0.0) by 0.0"""
    return 0 if bits in (0, 1 << 63) else bits


def check_one(AU, A, T, counter, cmds, prev_counter):
    """C10 for one encoder call; returns (klass, what) or None"""
    out = build(AU, counter, cmds)
    if out is None:
        return 'acu_encoder_raised_in_domain', 'the encoder raised on in-domain arguments'
    s = L.new_system(A)
    if prev_counter is not None:
        L.feed(s, L.frame(prev_counter, []))
        L.take_events()
    L.SyncThread.skip_all = True
    try:
        outs = L.feed(s, out)
    finally:
        L.SyncThread.skip_all = False
    ev = L.take_events()
    if any(o != L.O_TRUE for o in outs) or s.msg != '':
        return 'acu_encoded_frame_not_consumed', 'not every byte answered True or the parser is not idle afterwards'
    if len(ev) != len(cmds):
        return 'acu_encoded_frame_wrong_command_count', 'the parser started %d commands, %d were encoded' % (len(ev), len(cmds))
    for i, (c, (sub, cid, cmd, t, exn)) in enumerate(zip(cmds, ev)):
        want_cid = {'mode': 1, 'param': 2, 'track': 4}[c[0]]
        if (sub, cid) != (c[1], want_cid):
            return 'acu_decoded_wrong_target', 'command %d reached subsystem %d / handler %d' % (i, sub, cid)
        cc = struct.unpack('<I', cmd[4:8])[0]
        if cc != counter + 1 + i:
            return 'acu_decoded_wrong_counter', 'command %d decoded with counter %d' % (i, cc)
        if c[0] in ('mode', 'param'):
            if len(cmd) != 26:
                return 'acu_decoded_wrong_length', 'command %d has %d bytes' % (i, len(cmd))
            pid = struct.unpack('<H', cmd[8:10])[0]
            b1, b2 = struct.unpack('<QQ', cmd[10:26])
            want = (c[2], c[3], c[4])
            if (pid, b1, b2) != want:
                if c[0] == 'mode' and (pid, b1, b2) == (c[2], norm(c[3]), norm(c[4])):
                    return 'acu_mode_negative_zero_normalised', \
                        'ModeCommand turns a -0.0 parameter into +0.0 (`if not parameter`): not bit-identical'
                return 'acu_decoded_values_differ', 'command %d decodes to %r, encoded from %r' % (i, (pid, b1, b2), want)
        else:
            hdr = struct.unpack('<HHHHH', cmd[8:18])
            t0, raz, rel = struct.unpack('<QQQ', cmd[18:42])
            if hdr != (c[2], c[3], c[4], c[5], len(c[9])) or (t0, raz, rel) != (c[6], c[7], c[8]):
                return 'acu_decoded_values_differ', 'program track header of command %d differs' % i
            if len(cmd) != 42 + 20 * len(c[9]):
                return 'acu_decoded_wrong_length', 'program track command %d has %d bytes' % (i, len(cmd))
            for k, (t, a, e) in enumerate(c[9]):
                got = struct.unpack('<iQQ', cmd[42 + 20 * k:62 + 20 * k])
                if got != (t, a, e):
                    return 'acu_decoded_values_differ', 'track point %d of command %d differs' % (k, i)
    return None


def oracle(ctx):
    T = c14.tables(ctx)
    rng = ctx.rng
    pool = c14.double_pool(T, rng)
    n = 0
    seen = set()
    with patched_utils() as AU, L.patched() as A:
        for _ in range(ctx.n(500, 8000)):
            counter, cmds = gen_args(ctx, T, pool, in_domain=True)
            prev = rng.choice([None, None, counter - 1, (counter + 1) % 2 ** 32, rng.randrange(2 ** 32)])
            if prev == counter or (prev is not None and not 0 <= prev < 2 ** 32):
                prev = None
            bad = check_one(AU, A, T, counter, cmds, prev)
            n += 1
            if bad and bad[0] not in seen:
                seen.add(bad[0])
                ctx.fail(bad[0], bad[1], dict(counter=counter, cmds=[list(c) for c in cmds], prev=prev))
        nt = 0
        scen = [scenario_from_json(js['loads']) for _, js in c14.corpus_files('C10') if 'loads' in js]
        for loads in scen + track_scenarios(ctx, ctx.n(120, 2000)):
            c0 = rng.randrange(1, 2 ** 31)
            bad = check_track(AU, A, loads, c0)
            nt += len(loads)
            if bad and bad[0] not in seen:
                seen.add(bad[0])
                ctx.fail(bad[0], bad[1], dict(kind='track', counter=c0, loads=scenario_json(loads)))
    ctx.oracle_stats['c10_acu'] = dict(encoder_calls=n, track_loads=nt)
    ctx.evaluations += n + nt


def replay(ctx, obj):
    w = obj.get('witness') or {}
    if not str(obj.get('klass', '')).startswith('acu_'):
        return False
    if w.get('kind') == 'track':
        with patched_utils() as AU, L.patched() as A:
            return bool(check_track(AU, A, scenario_from_json(w['loads']), w['counter']))
    if 'cmds' not in w:
        return False
    T = c14.tables(ctx)
    cmds = [tuple(c[:9]) + ([tuple(e) for e in c[9]],) if c[0] == 'track' else tuple(c) for c in w['cmds']]
    with patched_utils() as AU, L.patched() as A:
        return bool(check_one(AU, A, T, w['counter'], cmds, w.get('prev')))
