"""C10 part, ACU (agent Acmd): the client-side encoders of simulators/acu/acu_utils.py
(ModeCommand, ParameterCommand, ProgramTrackEntry/Command, Command.get) against the simulator's
own framing and command splitting.

Correspondence: (a) Model/AcmdEncoder.v `enc_frame` against the bytes the real encoders produce;
(b) the real `System.parse` on those bytes against Model/AcmdFrame.v + AcmdAxis.v (per-byte
outcome, the command strings handed to the handlers, subsystem answers).
Oracle: the C10 statement on the real classes — one complete message, every byte True, parser
idle afterwards, each handler receives a command whose decoded fields equal the encoder's
arguments bit for bit."""
import struct
import types

from vlib.core import zlit, zlist
from props import acmd_lib as L
from props import c14

PART = dict(name='c10_acu', simulator='acu', ready=True,
            coq_targets=['Properties/C10_acu.vo', 'Corr/AcmdCorr.vo'])


def gen(ctx):
    c14.gen(ctx)


# ---------------------------------------------------------------------------
# argument generators: a command is ('mode', sub, mode, b1, b2) | ('param', sub, pid, b1, b2) |
# ('track', sub, pid, interp, track, load, t0, raz, rel, [(t, az, el)])   (doubles as bit patterns)

def gen_args(ctx, T, pool, in_domain=True):
    rng = ctx.rng
    n = rng.choice([1, 1, 2, 2, 3]) if in_domain else rng.choice([0, 1, 2, 3, 4])
    subs = rng.sample([1, 2, 5], n) if in_domain else [rng.choice([1, 2, 5, 0, 9, 65535, 65536, -1]) for _ in range(n)]
    cmds = []

    def dbl():
        return c14.rnd_double(ctx, T, pool)
    for sub in subs:
        kinds = ['param', 'track'] if (in_domain and sub == 5) else ['mode', 'param'] if in_domain else \
            ['mode', 'param', 'track']
        k = rng.choice(kinds)
        if k == 'mode':
            mode = rng.choice(c14.MODES + [6, 100, 65535]) if in_domain else rng.choice([0, 3, 65535, 65536, -1])
            cmds.append(('mode', sub, mode, dbl(), dbl()))
        elif k == 'param':
            pid = rng.choice([11, 12, 60, 61, 0, 65535]) if in_domain else rng.choice([11, 65536, -1])
            cmds.append(('param', sub, pid, dbl(), dbl()))
        else:
            npts = rng.choice([1, 2, 5, 17, 49, 50]) if in_domain else rng.choice([0, 1, 51, 60])
            t = 0
            entries = []
            for _ in range(npts):
                entries.append((t if in_domain or rng.random() < 0.8 else rng.choice([2 ** 31, -2 ** 31 - 1]),
                                dbl(), dbl()))
                t += rng.choice([1, 100, 1000, 2 ** 20])
                t = min(t, 2 ** 31 - 1)
            if in_domain and rng.random() < 0.2:
                entries = [(rng.choice([-2 ** 31, 2 ** 31 - 1, -1, 0]), a, e) for _, a, e in entries]
            cmds.append(('track', sub, rng.choice([61, 61, 60, 0, 65535]), rng.choice([4, 0, 65535]),
                         rng.choice([1, 2, 65535]), rng.choice([1, 2, 0]), dbl(), dbl(), dbl(), entries))
    if in_domain:
        counter = rng.choice([1, 2, 2 ** 31 - 2, 2 ** 31 - 1, 2 ** 31, 2 ** 32 - 1 - len(cmds),
                              rng.randrange(1, 2 ** 32 - 4), rng.randrange(1, 86400000)])
    else:
        counter = rng.choice([2 ** 32 - 1, 2 ** 32, 2 ** 32 - len(cmds), 1, -1, rng.randrange(1, 2 ** 32)])
    return counter, cmds


def build(AU, counter, cmds):
    """the real encoder objects -> message string (or None when the encoder raises)"""
    objs = []
    for c in cmds:
        if c[0] == 'mode':
            objs.append(AU.ModeCommand(c[1], c[2], L.float_of(c[3]), L.float_of(c[4])))
        elif c[0] == 'param':
            objs.append(AU.ParameterCommand(c[1], c[2], L.float_of(c[3]), L.float_of(c[4])))
        else:
            o = AU.ProgramTrackCommand(c[5], L.float_of(c[6]), (L.float_of(c[7]), L.float_of(c[8])),
                                       parameter_id=c[2], interpolation_mode=c[3], tracking_mode=c[4],
                                       subsystem_id=c[1])
            for t, a, e in c[9]:
                o.add_entry(t, L.float_of(a), L.float_of(e))
            objs.append(o)
    cmd = AU.Command(*objs)
    cmd.command_counter = counter
    try:
        return cmd.get().encode('latin-1')
    except Exception:
        return None


def coq_ecmd(c):
    if c[0] == 'mode':
        return 'EMode %s %s %s %s' % tuple(zlit(x) for x in c[1:5])
    if c[0] == 'param':
        return 'EParam %s %s %s %s' % tuple(zlit(x) for x in c[1:5])
    ent = '[' + '; '.join('(%s, %s, %s)' % (zlit(t), zlit(a), zlit(e)) for t, a, e in c[9]) + ']'
    return 'ETrack %s %s' % (' '.join(zlit(x) for x in c[1:9]), ent)


class patched_utils:
    """acu_utils sleeps one millisecond per command: not needed here"""
    def __enter__(self):
        import simulators.acu.acu_utils as AU
        self.AU = AU
        self.saved = AU.time
        AU.time = types.SimpleNamespace(sleep=lambda s: None, time=self.saved.time)
        return AU

    def __exit__(self, *a):
        self.AU.time = self.saved


def correspondence(ctx):
    T = c14.tables(ctx)
    rng = ctx.rng
    pool = c14.double_pool(T, rng)
    ecases, pcases = [], []
    with patched_utils() as AU, L.patched() as A:
        for i in range(ctx.n(260, 4000)):
            counter, cmds = gen_args(ctx, T, pool, in_domain=rng.random() < 0.75)
            out = build(AU, counter, cmds) if counter != 0 else None
            ecases.append('EFrame %s [%s] %s' % (zlit(counter), '; '.join(coq_ecmd(c) for c in cmds),
                                                 'None' if out is None else '(Some %s)' % zlist(out)))
            ctx.count('c10_acu:encoder-%s' % ('raised' if out is None else 'ok'))
            ctx.nontriv(('c10_acu', counter, repr(cmds)))
            if out is not None and len(pcases) < ctx.n(120, 1500):
                # real parsing of encoder output, after a random reachable prefix
                ops = c14.setup_ops(ctx, T, []) + [('feed', out)]
                pcases.append(L.coq_case(L.run_history(A, ops)))
    ctx.run_cases('c10_acu_encoder', 'From DS Require Import Corr.AcmdCorr Model.AcmdEncoder.', 'ecase', 'eok',
                  ecases, shard=ctx.n(70, 200))
    ctx.run_cases('c10_acu_parse', 'From DS Require Import Corr.AcmdCorr.', 'acase', 'ok', pcases,
                  show='show', shard=ctx.n(40, 120))


def norm(bits):
    """ModeCommand replaces a falsy parameter (None, 0, 0.0, -0.0) by 0.0"""
    return 0 if bits in (0, 1 << 63) else bits


def check_one(AU, A, T, counter, cmds, prev_counter):
    """C10 for one encoder call; returns (klass, what) or None"""
    out = build(AU, counter, cmds)
    if out is None:
        return 'acu_encoder_raised_in_domain', 'the encoder raised on in-domain arguments'
    s = L.new_system(A)
    if prev_counter is not None:
        L.feed(s, L.frame(prev_counter, []))
        L.take_events()
    L.SyncThread.skip_all = True
    try:
        outs = L.feed(s, out)
    finally:
        L.SyncThread.skip_all = False
    ev = L.take_events()
    if any(o != L.O_TRUE for o in outs) or s.msg != '':
        return 'acu_encoded_frame_not_consumed', 'not every byte answered True or the parser is not idle afterwards'
    if len(ev) != len(cmds):
        return 'acu_encoded_frame_wrong_command_count', 'the parser started %d commands, %d were encoded' % (len(ev), len(cmds))
    for i, (c, (sub, cid, cmd, t, exn)) in enumerate(zip(cmds, ev)):
        want_cid = {'mode': 1, 'param': 2, 'track': 4}[c[0]]
        if (sub, cid) != (c[1], want_cid):
            return 'acu_decoded_wrong_target', 'command %d reached subsystem %d / handler %d' % (i, sub, cid)
        cc = struct.unpack('<I', cmd[4:8])[0]
        if cc != counter + 1 + i:
            return 'acu_decoded_wrong_counter', 'command %d decoded with counter %d' % (i, cc)
        if c[0] in ('mode', 'param'):
            if len(cmd) != 26:
                return 'acu_decoded_wrong_length', 'command %d has %d bytes' % (i, len(cmd))
            pid = struct.unpack('<H', cmd[8:10])[0]
            b1, b2 = struct.unpack('<QQ', cmd[10:26])
            want = (c[2], c[3], c[4])
            if (pid, b1, b2) != want:
                if c[0] == 'mode' and (pid, b1, b2) == (c[2], norm(c[3]), norm(c[4])):
                    return 'acu_mode_negative_zero_normalised', \
                        'ModeCommand turns a -0.0 parameter into +0.0 (`if not parameter`): not bit-identical'
                return 'acu_decoded_values_differ', 'command %d decodes to %r, encoded from %r' % (i, (pid, b1, b2), want)
        else:
            hdr = struct.unpack('<HHHHH', cmd[8:18])
            t0, raz, rel = struct.unpack('<QQQ', cmd[18:42])
            if hdr != (c[2], c[3], c[4], c[5], len(c[9])) or (t0, raz, rel) != (c[6], c[7], c[8]):
                return 'acu_decoded_values_differ', 'program track header of command %d differs' % i
            if len(cmd) != 42 + 20 * len(c[9]):
                return 'acu_decoded_wrong_length', 'program track command %d has %d bytes' % (i, len(cmd))
            for k, (t, a, e) in enumerate(c[9]):
                got = struct.unpack('<iQQ', cmd[42 + 20 * k:62 + 20 * k])
                if got != (t, a, e):
                    return 'acu_decoded_values_differ', 'track point %d of command %d differs' % (k, i)
    return None


def oracle(ctx):
    T = c14.tables(ctx)
    rng = ctx.rng
    pool = c14.double_pool(T, rng)
    n = 0
    seen = set()
    with patched_utils() as AU, L.patched() as A:
        for _ in range(ctx.n(500, 8000)):
            counter, cmds = gen_args(ctx, T, pool, in_domain=True)
            prev = rng.choice([None, None, counter - 1, (counter + 1) % 2 ** 32, rng.randrange(2 ** 32)])
            if prev == counter or (prev is not None and not 0 <= prev < 2 ** 32):
                prev = None
            bad = check_one(AU, A, T, counter, cmds, prev)
            n += 1
            if bad and bad[0] not in seen:
                seen.add(bad[0])
                ctx.fail(bad[0], bad[1], dict(counter=counter, cmds=[list(c) for c in cmds], prev=prev))
    ctx.oracle_stats['c10_acu'] = dict(encoder_calls=n)
    ctx.evaluations += n


def replay(ctx, obj):
    w = obj.get('witness') or {}
    if not str(obj.get('klass', '')).startswith('acu_') or 'cmds' not in w:
        return False
    T = c14.tables(ctx)
    cmds = [tuple(c[:9]) + ([tuple(e) for e in c[9]],) if c[0] == 'track' else tuple(c) for c in w['cmds']]
    with patched_utils() as AU, L.patched() as A:
        return bool(check_one(AU, A, T, w['counter'], cmds, w.get('prev')))
