"""C03, receiver part: the framer of simulators.receiver.System.parse.

correspondence: framing-heavy byte streams (garbage, truncated frames, corrupted length bytes, nested
                headers, every command byte with every class of length byte) followed by the
                resynchronisation sequence and a probe query; per-byte outcomes and the buffer are
                compared with Model/RcvModel.v inside Coq (Corr/RcvCorr.v)
oracle:         on the implementation: after any history 263 non-SOH bytes leave the parser idle, an idle
                parser rejects a non-header byte without effect, a frame completes exactly at
                flen(msg[3], msg[5]) and the probe is answered
"""
import copy

from props import rcv_harness as H

PART = dict(name='c03_receiver', simulator='receiver', ready=True,
            coq_targets=['Properties/C03_receiver.vo', 'Corr/RcvCorr.vo'])


def gen(ctx):
    from gen import rcv_tables
    rcv_tables.run(ctx)


def flen(DEF, c, l):
    """completion length from the protocol classes (independent of the parser)"""
    ch = chr(c)
    if ch in DEF.CMD_ABBR_NO_PARAMS or ch not in DEF.ACCEPTED_COMMANDS:
        return 5
    if ch in DEF.CMD_EXT_NO_PARAMS:
        return 7
    if ch in DEF.CMD_ABBR_WITH_PARAMS and l >= 1:
        return 6 + l
    return 8 + l


def framing_stream(rng, DEF, g, keys):
    """list of segments exercising the framer"""
    soh = ord(DEF.CMD_SOH)
    segs = []
    for _ in range(rng.randrange(4, 10)):
        r = rng.random()
        if r < 0.25:
            segs.append(g.garbage())
        elif r < 0.5:
            # header with an arbitrary command byte and length byte, then exactly the bytes it asks for
            c = rng.choice([rng.randrange(256), ord(rng.choice(DEF.ACCEPTED_COMMANDS))])
            l = rng.choice([0, 1, 2, 3, 8, 255, rng.randrange(256)])
            n = flen(DEF, c, l)
            body = [soh, g.byte(), g.byte(), c, g.byte(), l] + [g.byte() for _ in range(300)]
            segs.append(body[:n])
        elif r < 0.65:
            # nested header: a frame interrupted by another SOH-led frame
            m, _ = g.request(keys)
            m2, _ = g.request(keys)
            segs.append(m[:rng.randrange(1, len(m))] + m2)
        elif r < 0.72 and keys:
            # a frame whose handler raises (board clock at the end of the datetime range), then normal traffic
            bro = [ord(c) for c in DEF.SLAVE_ADDR_BROADCAST]
            good = [k for k in keys if k not in bro] or keys
            segs += H.raising_frames(DEF, g, rng.choice(good))
            m, _ = g.request(keys)
            segs.append(m)
        else:
            m, _ = g.request(keys)
            segs.append(m)
    # resynchronisation sequence + probe
    segs.append([rng.choice([x for x in range(256) if x != soh]) for _ in range(263)])
    segs.append([rng.choice([x for x in range(256) if x != soh])])
    sa = keys[0] if keys else 1
    segs.append(H.build(DEF, 'GET_FRAME', rng.random() < 0.5, sa, g.byte(), g.byte()))
    return segs


def correspondence(ctx):
    from simulators.receiver import DEFINITIONS as DEF
    rng = ctx.rng
    cases = []
    for i in range(ctx.n(40, 600)):
        tag, amin, amax, feeds = H.pick_config(rng)
        g = H.Gen(rng, DEF, tag)
        keys = list(range(amin, amax + 1))
        stream = framing_stream(rng, DEF, g, keys)
        term, executed = H.run_history(ctx, rng, len(stream), tag, amin, amax, feeds, stream=stream)
        cases.append(term)
        ctx.nontriv(term)
    ctx.run_cases('c03_receiver', 'From DS Require Import Corr.RcvCorr.', 'rcase', 'ok', cases,
                  show='show', shard=ctx.n(5, 20))


def check_stream(ctx, S, DEF, cfg, stream, probe=None):
    def bad(klass, what, **w):
        ctx.fail(klass, what, dict(w, config=list(cfg), stream=[list(x) for x in stream]))
    soh = ord(DEF.CMD_SOH)
    system = H.make_system(*cfg)
    for seg in stream:
        H.feed(system, seg)
    # 1. resynchronisation
    resync = [(7 * i + 2) % 256 if (7 * i + 2) % 256 != soh else 0 for i in range(263)]
    H.feed(system, resync)
    if system.msg != '':
        bad('receiver_resync', 'parser not idle after 263 non-header bytes', buffered=len(system.msg))
        return
    # 2. idle discards
    before = H.regs_snapshot(S, system)
    out = H.feed(system, [0x55])
    if out != [(0, [])] or system.msg != '' or H.regs_snapshot(S, system) != before:
        bad('receiver_idle_discard', 'an idle parser did not discard a non-header byte without effect')
    # 3. completion exactly at flen(msg[3], msg[5]) and never beyond 263 bytes
    rng = ctx.rng
    # half of the time a command of the protocol (extended with parameters included: the last byte of `body` is
    # then NOT the closing 0x03 -- completion is by length alone, seeded change C03-r5m1)
    c = rng.choice([rng.randrange(256), ord(rng.choice(DEF.ACCEPTED_COMMANDS)), ord(rng.choice(DEF.CMD_EXT_WITH_PARAMS))])
    l = rng.choice([0, 1, 2, 255, rng.randrange(256)])
    if probe is not None:
        c, l = probe            # replay of a recorded witness
    n = flen(DEF, c, l)
    body = [soh, 0x70, 5, c, 6, l] + [(3 * i + 1) % 256 for i in range(300)]
    s2 = copy.deepcopy(system)
    outs = H.feed(s2, body[:n])
    if any(t != 1 for t, _ in outs[:-1]) or s2.msg != '':
        bad('receiver_completion_length', 'a frame did not complete exactly at flen(msg[3], msg[5])',
            command=c, length_byte=l, expected=n, outcomes=[t for t, _ in outs][-4:])
    # 4. the probe is framed and answered as on a fresh parser
    bro = [ord(c) for c in DEF.SLAVE_ADDR_BROADCAST]
    keys = [k for k in (H.one(k) for k in system.slaves) if k not in bro]
    if keys:
        probe = H.build(DEF, 'GET_FRAME', False, keys[0], 9, 3)
        outs = H.feed(system, probe)
        fr = H.decode_answer(DEF, outs[-1][1]) if outs[-1][0] == 2 else None
        if any(t != 1 for t, _ in outs[:-1]) or not fr or len(fr) != 1 or fr[0]['slave'] != keys[0]:
            bad('receiver_probe', 'the probe query after resynchronisation was not answered')


def oracle(ctx):
    from simulators.receiver import DEFINITIONS as DEF
    rng = ctx.rng
    n = 0
    for i in range(ctx.n(60, 1500)):
        rec = H.Recorder(frozen=H.NOW0)
        S = H.install(rec)
        cfg = H.pick_config(rng)
        g = H.Gen(rng, DEF, cfg[0])
        keys = list(range(cfg[1], cfg[2] + 1))
        stream = framing_stream(rng, DEF, g, keys)[:-3]
        if rng.random() < 0.5:
            # end inside a frame
            m, _ = g.request(keys)
            stream.append(m[:rng.randrange(1, len(m))])
        check_stream(ctx, S, DEF, cfg, stream)
        n += 1
        if i % 2 == 0:
            raised = H.check_after_exception(ctx, DEF, cfg, stream[:rng.randrange(0, 4)], rng, 'receiver_')
            ctx.count('c03_receiver:raising_frame:%s' % raised)
    ctx.oracle_stats['c03_receiver_streams'] = n
    ctx.evaluations += n


def replay(ctx, obj):
    if not str(obj.get('klass', '')).startswith('receiver_'):
        return False
    from simulators.receiver import DEFINITIONS as DEF
    w = obj['witness']
    if 'after_exception' in obj.get('klass', ''):
        H.install(H.Recorder(step=1000))
        system = H.make_system(*w['config'])
        last = None
        for seg in w['stream']:
            last = H.feed(system, seg)
        if obj['klass'].endswith('not_idle_after_exception'):
            return system.msg != ''
        fr = H.decode_answer(DEF, last[-1][1]) if last and last[-1][0] == 2 else None
        return not fr or len(fr) != 1
    S = H.install(H.Recorder(frozen=H.NOW0))
    n0 = len(ctx.failures)
    pr = (w['command'], w['length_byte']) if 'command' in w and 'length_byte' in w else None
    check_stream(ctx, S, DEF, tuple(w['config']), w['stream'], probe=pr)
    return any(f['klass'] == obj.get('klass') for f in ctx.failures[n0:])
