"""C03 part for simulators/minor_servos (tag Msv): see props/parts/msv_lib.py"""
from props.parts import msv_lib

PART = dict(name='c03_ms', simulator='minor_servos', ready=True, coq_targets=['Properties/C03_ms.vo', 'Corr/MsvCorr.vo'])


def gen(ctx):
    msv_lib.gen(ctx)


def correspondence(ctx):
    n, nops, malformed, catalogue = (25, 400), [4, 10, 20], 0.7, False
    msv_lib.corr_suite(ctx, 'msv-c03', ctx.n(*n), nops, malformed, catalogue)


def oracle(ctx):
    msv_lib.c03_oracle(ctx)


def replay(ctx, obj):
    return msv_lib.replay_trace(ctx, obj, msv_lib.c03_check)
