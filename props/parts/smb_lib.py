"""Shared harness of the Smb parts (generic_LO, w_LO, solar_attenuator, switch_matrix,
weather_station): drives the REAL System classes byte by byte, builds the Coq correspondence
cases, and holds the property-level oracles of C03 / C05 / C02 / C04 for these simulators.

Not a part itself (file name does not start with cXX_); the part files are thin wrappers:
    from props.parts import smb_lib
    PART, correspondence, oracle, replay = smb_lib.part('c03', 'solar')
"""
import re

from vlib.core import zlit, zlist

LF = '\n'


# ---------------------------------------------------------------------------
# running the implementation

def classify(call, *a):
    """outcome class of one parse() call, as ListenHandler._handle distinguishes them"""
    try:
        r = call(*a)
    except ValueError:
        return ('VE',)
    except Exception as ex:  # noqa
        return ('EX', type(ex).__name__)
    if r is True:
        return ('T',)
    if r is False:
        return ('F',)
    if isinstance(r, str) and r:
        return ('R', r)
    return ('BAD',)


KNOWN_EXN = ('TypeError', 'AttributeError', 'KeyError', 'OverflowError')


def out_term(o):
    k = o[0]
    if k == 'T':
        return 'OTrue'
    if k == 'F':
        return 'OFalse'
    if k == 'VE':
        return 'OValueError'
    if k == 'BAD':
        return 'OBadRet'
    if k == 'R':
        return '(OReply %s)' % zlist([ord(c) for c in o[1]])
    return '(OException %s)' % (o[1] if o[1] in KNOWN_EXN else 'OtherExn')


def obs_term(outs):
    """the outcomes that are not True, with their index"""
    return '[' + '; '.join('(%d, %s)' % (i, out_term(o)) for i, o in enumerate(outs) if o[0] != 'T') + ']'


def s2z(s):
    return zlist([ord(c) for c in s])


def table_term(tab, val):
    """assoc list  token -> oracle value"""
    return '[' + '; '.join('(%s, %s)' % (s2z(k), val(v)) for k, v in tab) + ']'


# ---------------------------------------------------------------------------
# byte-stream mutation shared by the generators

def rand_bytes(rng, n, alphabet=None):
    if alphabet:
        return ''.join(rng.choice(alphabet) for _ in range(n))
    return ''.join(chr(rng.randrange(256)) for _ in range(n))


SEPS = ' ;=\r\n\t,:?._-\x0b\x0c\x1c\x1f\x85\xa0'


def corrupt(rng, s):
    """one random edit: substitute / delete / insert / duplicate a byte, truncate, or swap the terminator"""
    if not s:
        return rand_bytes(rng, rng.randrange(1, 4))
    k = rng.randrange(7)
    i = rng.randrange(len(s))
    if k == 0:
        return s[:i] + chr(rng.randrange(256)) + s[i + 1:]
    if k == 1:
        return s[:i] + s[i + 1:]
    if k == 2:
        return s[:i] + rng.choice(SEPS) + s[i:]
    if k == 3:
        return s[:i] + s[i] + s[i:]
    if k == 4:
        return s[:i]                         # truncated frame, terminator lost
    if k == 5:
        return s.replace('\n', rng.choice(['\r', '', '\n\n', ';', '\r\r\n']))
    return s[:i] + chr(rng.randrange(256)) + s[i:]


class Sim:
    """description of one simulator for the harness; subclasses below"""
    name = None          # short name used in file names and failure classes
    coq_imports = None
    ctype = None
    okfun = None
    showfun = None
    term = '\n'          # resynchronisation byte

    # -- implementation ----------------------------------------------------
    def make(self):
        raise NotImplementedError

    def feed(self, system, stream):
        return [classify(system.parse, b) for b in stream]

    def snapshot(self, system):
        raise NotImplementedError

    def case(self, stream):
        """run a fresh instance on the stream; returns (coq term, outcomes, snapshot)"""
        raise NotImplementedError

    # -- generators ----------------------------------------------------------
    def valid_line(self, rng):
        raise NotImplementedError

    def refused_line(self, rng):
        raise NotImplementedError

    def garbage(self, rng):
        k = rng.randrange(6)
        if k == 0:
            return rand_bytes(rng, rng.randrange(1, 30))
        if k == 1:
            return rand_bytes(rng, rng.randrange(1, 20), SEPS)
        if k == 2:
            return corrupt(rng, self.valid_line(rng))
        if k == 3:
            return corrupt(rng, corrupt(rng, self.valid_line(rng)))
        if k == 4:
            return rand_bytes(rng, rng.randrange(1, 12), self.alphabet)
        return self.valid_line(rng)[:-1] + rng.choice(SEPS) + rand_bytes(rng, rng.randrange(0, 5)) + '\n'

    def history(self, rng, n=None):
        """a mixed history: accepted commands, refused commands, garbage"""
        n = rng.randrange(0, 7) if n is None else n
        out = ''
        for _ in range(n):
            r = rng.random()
            if r < 0.45:
                out += self.valid_line(rng)
            elif r < 0.7:
                out += self.refused_line(rng)
            else:
                out += self.garbage(rng)
        return out


# ---------------------------------------------------------------------------
# solar attenuator

class Solar(Sim):
    name = 'solar'
    coq_imports = 'From DS Require Import Model.SmbCommon Model.SmbSolar Corr.SmbSolarCorr.'
    ctype = 'solar_case'
    okfun = 'solar_ok'
    showfun = 'solar_show'
    alphabet = 'setg W_homcalpsru;\r\n  '
    sets = {'set W_solar_attn': 'Attenuator', 'set W_cal': 'Calibrator', 'set W_passthrough': 'Pass-through'}
    other = ['set W_home']
    queries = ['get W_mode\r\n', 'get W_mode\n', 'get   W_mode \r\n']
    modes = ['', 'Attenuator', 'Calibrator', 'Pass-through']
    reply_re = re.compile(r'\A(?:(?:ACK|Attenuator|Calibrator|Pass-through|)\r\n)(?:;(?:ACK|Attenuator|Calibrator|Pass-through|)\r\n)*\Z')

    def make(self):
        from simulators.solar_attenuator import System
        return System()

    def snapshot(self, s):
        return (s.msg, s.mode, s.home)

    def case(self, stream):
        s = self.make()
        outs = self.feed(s, stream)
        msg, mode, home = self.snapshot(s)
        assert isinstance(msg, str) and isinstance(mode, str) and isinstance(home, int)
        t = 'SolarCase %s %s %s %s %s' % (s2z(stream), obs_term(outs), s2z(msg), s2z(mode), zlit(home))
        return t, outs, (msg, mode, home)

    def valid_line(self, rng):
        k = rng.randrange(10)
        names = list(self.sets) + self.other + ['get W_mode']
        if k < 6:
            body = rng.choice(names)
        elif k < 8:
            body = ';'.join(rng.choice(names + ['', 'dummy']) for _ in range(rng.randrange(2, 5)))
        else:
            a, b = rng.choice(names).split()
            body = ' ' * rng.randrange(3) + a + rng.choice([' ', '  ', '\t', ' \xa0']) + b + rng.choice(['', ' x', ' 1 2'])
        return body + rng.choice(['\r\n', '\r\n', '\n'])

    def refused_line(self, rng):
        k = rng.randrange(6)
        if k == 0:
            return rng.choice(['set W_foo', 'get W_home', 'set w_cal', 'get W_mod', 'Set W_cal', 'dummy cmd']) + '\r\n'
        if k == 1:
            return rng.choice(list(self.sets)) + ';' + rng.choice(['foo bar', 'get mode x', 'set W_cal1']) + '\r\n'
        if k == 2:
            return rng.choice(['dummy', 'set', 'get', 'setW_cal', ';;', '', 'W_cal']) + '\r\n'
        if k == 3:
            return rng.choice(list(self.sets)).replace(' ', rng.choice(['_', '=', '\x00', '\xad'])) + '\r\n'
        if k == 4:
            return 'get W_mode;' + rng.choice(['a b', 'set W_nothing', 'x y z']) + ';set W_cal\r\n'
        return rng.choice(['set W_cal\r;get W_mode\r\n', 'set W_cal\rget W_mode\n', 'set\rW_cal\n'])


# ---------------------------------------------------------------------------
# switch matrix

class SwMatrix(Sim):
    name = 'swmatrix'
    coq_imports = 'From DS Require Import Model.SmbCommon Model.SmbSwMatrix Corr.SmbSwMatrixCorr.'
    ctype = 'sw_case'
    okfun = 'sw_ok'
    showfun = 'sw_show'
    alphabet = 'setg IF_witchonf=1234509;\r\n -'
    table = {1: 'HBS', 2: 'VBS', 3: 'LBP', 4: 'UBP'}       # golden copy, independent of the code
    queries = ['get IF_switch_config\r\n', 'get IF_switch_config\n', ' get  IF_switch_config\r\n'][:2]
    reply_re = re.compile(r'\A(?:ACK\r\n|NACK\r\n|[1-4]:(?:HBS|VBS|LBP|UBP)\r\n(?:;[1-4]:(?:HBS|VBS|LBP|UBP)\r\n)*)\Z')

    def make(self):
        from simulators.switch_matrix import System
        return System()

    def snapshot(self, s):
        return (s.msg, s.sw_matrix._switch_matrix)

    def case(self, stream):
        s = self.make()
        outs = self.feed(s, stream)
        msg, idx = self.snapshot(s)
        assert isinstance(msg, str) and isinstance(idx, int) and not isinstance(idx, bool)
        t = 'SwCase %s %s %s %s' % (s2z(stream), obs_term(outs), s2z(msg), zlit(idx))
        return t, outs, (msg, idx)

    def int_token(self, rng, good=None):
        good = rng.random() < 0.6 if good is None else good
        if good:
            v = rng.randrange(1, 5)
            return rng.choice(['%d', '%d', '%d', '0%d', '00_%d', '%d ', ' %d', '+%d']) % v
        return rng.choice(['0', '5', '9', '10', '44', '-1', '1_', '_1', '1__2', 'abc', '', '\xb2', '2x', 'x2',
                           '1_000', '99999999999999999999', '1' * 40, '4' + '0' * 4400, '\xb9', 'IF', '2_3'])

    def valid_line(self, rng):
        k = rng.randrange(10)
        if k < 4:
            body = 'get IF_switch_config'
        elif k < 8:
            body = 'set IF_switch_config=' + self.int_token(rng, True)
        elif k == 8:
            body = ';'.join(rng.choice(['get IF_switch_config', '', 'dummy']) for _ in range(rng.randrange(2, 4)))
        else:
            body = 'get IF_switch_config;set IF_switch_config=%d' % rng.randrange(1, 5)
        return body + rng.choice(['\r\n', '\r\n', '\n'])

    def refused_line(self, rng):
        k = rng.randrange(7)
        if k < 3:
            return 'set IF_switch_config=' + self.int_token(rng, False) + '\r\n'
        if k == 3:
            return rng.choice(['set IF_switch_conf=1', 'get IF_switch', 'put IF_switch_config', 'dummy cmd',
                               'get IF_switch_config=2', 'set IF_switch_config', 'set IF_switch_config ']) + '\r\n'
        if k == 4:
            return rng.choice(['dummy', ';;', '', 'set', ' ', '=']) + '\r\n'
        if k == 5:
            return rng.choice([' get IF_switch_config', '=set IF_switch_config=3', 'set=IF_switch_config=3',
                               'set IF_switch_config 3', 'set\rIF_switch_config=\r4', 'set IF_switch_config=-3',
                               'set IF_switch_config=2.9', 'set IF_switch_config==2', 'get\xe9IF_switch_config']) + '\r\n'
        return 'get IF_switch_config;' + rng.choice(['a b', 'set IF_switch_config=7', 'foo']) + ';get IF_switch_config\r\n'


SIMS = {}


def register(sim):
    SIMS[sim.name] = sim
    return sim


register(Solar())
register(SwMatrix())
