"""Shared harness of the Smb parts (generic_LO, w_LO, solar_attenuator, switch_matrix,
weather_station): drives the REAL System classes byte by byte, builds the Coq correspondence
cases, and holds the property-level oracles of C03 / C05 / C02 / C04 for these simulators.

Not a part itself (file name does not start with cXX_); the part files are thin wrappers:
    from props.parts import smb_lib
    PART, correspondence, oracle, replay = smb_lib.part('c03', 'solar')
"""
import copy
import re

from vlib.core import zlit, zlist

LF = '\n'


# ---------------------------------------------------------------------------
# running the implementation

def classify(call, *a):
    """outcome class of one parse() call, as ListenHandler._handle distinguishes them"""
    try:
        r = call(*a)
    except ValueError:
        return ('VE',)
    except Exception as ex:  # noqa
        return ('EX', type(ex).__name__)
    if r is True:
        return ('T',)
    if r is False:
        return ('F',)
    if isinstance(r, str) and r:
        return ('R', r)
    return ('BAD',)


KNOWN_EXN = ('TypeError', 'AttributeError', 'KeyError', 'OverflowError')


def out_term(o):
    k = o[0]
    if k == 'T':
        return 'OTrue'
    if k == 'F':
        return 'OFalse'
    if k == 'VE':
        return 'OValueError'
    if k == 'BAD':
        return 'OBadRet'
    if k == 'R':
        return '(OReply %s)' % zlist([ord(c) for c in o[1]])
    return '(OException %s)' % (o[1] if o[1] in KNOWN_EXN else 'OtherExn')


def obs_term(outs):
    """the outcomes that are not True, with their index"""
    return '[' + '; '.join('(%d, %s)' % (i, out_term(o)) for i, o in enumerate(outs) if o[0] != 'T') + ']'


def s2z(s):
    return zlist([ord(c) for c in s])


def table_term(tab, val):
    """assoc list  token -> oracle value"""
    return '[' + '; '.join('(%s, %s)' % (s2z(k), val(v)) for k, v in tab) + ']'


# ---------------------------------------------------------------------------
# byte-stream mutation shared by the generators

def rand_bytes(rng, n, alphabet=None):
    if alphabet:
        return ''.join(rng.choice(alphabet) for _ in range(n))
    return ''.join(chr(rng.randrange(256)) for _ in range(n))


SEPS = ' ;=\r\n\t,:?._-\x0b\x0c\x1c\x1f\x85\xa0'


def corrupt(rng, s):
    """one random edit: substitute / delete / insert / duplicate a byte, truncate, or swap the terminator"""
    if not s:
        return rand_bytes(rng, rng.randrange(1, 4))
    k = rng.randrange(7)
    i = rng.randrange(len(s))
    if k == 0:
        return s[:i] + chr(rng.randrange(256)) + s[i + 1:]
    if k == 1:
        return s[:i] + s[i + 1:]
    if k == 2:
        return s[:i] + rng.choice(SEPS) + s[i:]
    if k == 3:
        return s[:i] + s[i] + s[i:]
    if k == 4:
        return s[:i]                         # truncated frame, terminator lost
    if k == 5:
        return s.replace('\n', rng.choice(['\r', '', '\n\n', ';', '\r\r\n']))
    return s[:i] + chr(rng.randrange(256)) + s[i:]


class Sim:
    """description of one simulator for the harness; subclasses below"""
    thorough = False
    scale = 1.0          # case-count factor (weather cases are several times larger)
    name = None          # short name used in file names and failure classes
    coq_imports = None
    ctype = None
    okfun = None
    showfun = None
    term = '\n'          # resynchronisation byte

    # -- implementation ----------------------------------------------------
    def make(self):
        raise NotImplementedError

    def feed(self, system, stream):
        return [classify(system.parse, b) for b in stream]

    def snapshot(self, system):
        raise NotImplementedError

    def case(self, stream):
        """run a fresh instance on the stream; returns (coq term, outcomes, snapshot)"""
        raise NotImplementedError

    # -- generators ----------------------------------------------------------
    def valid_line(self, rng):
        raise NotImplementedError

    def refused_line(self, rng):
        raise NotImplementedError

    def garbage(self, rng):
        k = rng.randrange(6)
        if k == 0:
            return rand_bytes(rng, rng.randrange(1, 30))
        if k == 1:
            return rand_bytes(rng, rng.randrange(1, 20), SEPS)
        if k == 2:
            return corrupt(rng, self.valid_line(rng))
        if k == 3:
            return corrupt(rng, corrupt(rng, self.valid_line(rng)))
        if k == 4:
            return rand_bytes(rng, rng.randrange(1, 12), self.alphabet)
        return self.valid_line(rng)[:-1] + rng.choice(SEPS) + rand_bytes(rng, rng.randrange(0, 5)) + '\n'

    # -- defaults for '\n'-line simulators driven with str streams --------------
    noise_outcomes = ('T',)
    okfun_wf = None
    registers = ()

    def key(self, st):
        return st

    def prelude(self):
        return ''

    def concat(self, parts):
        return ''.join(parts)

    def resync(self, rng):
        return '\n'

    def corrupt(self, rng, s):
        return corrupt(rng, s)

    def probe(self, rng):
        return rng.choice(self.queries)

    def all_queries(self, rng):
        qs = list(self.queries)
        rng.shuffle(qs)
        return qs

    def write_line(self, rng):
        reg = rng.choice(self.registers)
        return self.reg_write(reg, self.reg_token(rng, reg))

    def garbage_line(self, rng):
        return self.garbage(rng).replace('\n', '') + '\n'

    def prefixed_write(self, rng):
        """a write command typed after a few garbage bytes (with or without a separator in between)"""
        pre = rand_bytes(rng, rng.randrange(1, 4), rng.choice([None, 'Tx;= \r\t', SEPS])).replace('\n', '')
        return pre + self.write_line(rng)

    def buffer_idle(self, s):
        return s.msg == ''

    def fresh_with_device(self, s):
        t = self.make()
        self.set_device(t, copy.deepcopy(self.device(s)))
        return t

    def readbacks(self, s):
        c = copy.deepcopy(s)
        return [self.feed(c, q)[-1] for q in self.queries]

    def reply_ok(self, r):
        return bool(self.reply_re.match(r))

    def echo_ok(self, stream, i, reply, outs=None):
        return None

    def c02_class(self, history, query, outs):
        return self.name + '_c02_query_not_answered'

    def cross_check(self, s, query, reply):
        return None

    def c04_class(self, kind, stream, reply):
        return self.name + '_c04_' + kind

    def c05_refused_class(self, line, outs):
        return self.name + '_c05_refused_write_changed_state'

    def reg_class(self, reg, tok, kind):
        return '%s_c05_%s_%s' % (self.name, reg, kind)

    def reg_match(self, reg, got, want):
        return got == want

    def between_ok(self, reg, between, outs):
        return True

    def non_writing_line(self, rng, reg):
        return self.probe(rng)

    def corpus(self, prop):
        return []

    def c02_histories(self):
        return ['']

    def c04_streams(self):
        return []

    def c05_seeds(self):
        return []

    def c05_refused_seeds(self):
        return []

    def byte_sweep(self):
        """every byte value between the tokens of a command, in front of it and before its terminator"""
        out = []
        for cmd in self.sweep_cmds:
            a, b = cmd.split(' ', 1)
            for v in range(256):
                c = chr(v)
                out.append(a + c + b + '\n' + cmd + '\n')
                out.append(c + cmd + '\n')
                out.append(cmd[:-1] + c + '\n' if cmd.endswith('\r') else cmd + c + '\n')
        return out

    def history(self, rng, n=None):
        """a mixed history: accepted commands, refused commands, garbage"""
        n = rng.randrange(0, 7) if n is None else n
        out = []
        for _ in range(n):
            r = rng.random()
            if r < 0.45:
                out.append(self.valid_line(rng))
            elif r < 0.7:
                out.append(self.refused_line(rng))
            else:
                out.append(self.garbage(rng))
        return self.concat(out)


# ---------------------------------------------------------------------------
# solar attenuator

class Solar(Sim):
    name = 'solar'
    coq_imports = 'From DS Require Import Model.SmbCommon Model.SmbSolar Corr.SmbSolarCorr.'
    ctype = 'solar_case'
    okfun = 'solar_ok'
    showfun = 'solar_show'
    alphabet = 'setg W_homcalpsru;\r\n  '
    sets = {'set W_solar_attn': 'Attenuator', 'set W_cal': 'Calibrator', 'set W_passthrough': 'Pass-through'}
    other = ['set W_home']
    queries = ['get W_mode\r\n', 'get W_mode\n', 'get   W_mode \r\n']
    modes = ['', 'Attenuator', 'Calibrator', 'Pass-through']
    reply_re = re.compile(r'\A(?:(?:ACK|Attenuator|Calibrator|Pass-through|)\r\n)(?:;(?:ACK|Attenuator|Calibrator|Pass-through|)\r\n)*\Z')

    repo_name = 'solar_attenuator'
    coq_name = 'Solar'
    okfun_wf = 'solar_ok_wf'
    registers = ['mode']
    sweep_cmds = ['get W_mode\r', 'set W_cal\r']
    noise_lines = ['\n', '\r\n', 'dummy;;\r\n', ' ;\t;\r\n', 'get\r\n']

    def make(self):
        from simulators.solar_attenuator import System
        return System()

    def device(self, s):
        return dict(mode=s.mode, home=s.home, cal_temp=s.cal_temp)

    def set_device(self, t, dev):
        t.mode, t.home, t.cal_temp = dev['mode'], dev['home'], dev['cal_temp']

    def reg_token(self, rng, reg):
        if rng.random() < 0.7:
            return rng.choice(list(self.sets))
        return rng.choice(['set W_foo', 'set W_cal1', 'set w_cal', 'put W_cal', 'set W_solar'])

    def reg_write(self, reg, tok):
        return tok + '\r\n'

    def reg_read(self, reg):
        return 'get W_mode\r\n'

    def reg_acked(self, reg, tok, outs):
        return outs[-1] == ('R', 'ACK\r\n')

    def reg_enc(self, reg, tok):
        return self.sets[tok] + '\r\n' if tok in self.sets else None

    def line_acked(self, line, outs):
        return any(o[0] == 'R' and 'ACK' in o[1] for o in outs)

    def writes_mode(self, line):
        return any(k in line for k in ('W_solar_attn', 'W_cal', 'W_passthrough'))

    def non_writing_line(self, rng, reg):
        for _ in range(20):
            r = rng.random()
            c = (rng.choice(['get W_mode\r\n', 'set W_home\r\n', 'get W_mode;set W_home\r\n']) if r < 0.5
                 else self.refused_line(rng) if r < 0.8 else self.garbage_line(rng))
            if not self.writes_mode(c):
                return c
        return 'get W_mode\r\n'

    def between_ok(self, reg, between, outs):
        return not self.writes_mode(between)

    def c05_refused_class(self, line, outs):
        if ';' in line and any(o[0] == 'EX' for o in outs):
            return 'solar_partial_line_exception'
        return 'solar_c05_refused_write_changed_state'

    def c05_refused_seeds(self):
        return [('', 'set W_cal;foo bar\r\n'), ('set W_cal\r\n', 'set W_foo\r\n'), ('', 'dummy cmd\r\n')]

    def c05_seeds(self):
        return [('', k, k, 'set W_home\r\nget W_mode\r\nfoo bar\r\n') for k in self.sets]

    def c02_histories(self):
        return ['', 'set W_cal\r\n', 'foo bar\r\n', 'set W_cal;foo bar\r\n', 'get W_mo']

    def snapshot(self, s):
        return (s.msg, s.mode, s.home)

    def case(self, stream):
        s = self.make()
        outs = self.feed(s, stream)
        msg, mode, home = self.snapshot(s)
        assert isinstance(msg, str) and isinstance(mode, str) and isinstance(home, int)
        t = 'SolarCase %s %s %s %s %s' % (s2z(stream), obs_term(outs), s2z(msg), s2z(mode), zlit(home))
        return t, outs, (msg, mode, home)

    def valid_line(self, rng):
        k = rng.randrange(10)
        names = list(self.sets) + self.other + ['get W_mode']
        if k < 6:
            body = rng.choice(names)
        elif k < 8:
            body = ';'.join(rng.choice(names + ['', 'dummy']) for _ in range(rng.randrange(2, 5)))
        else:
            a, b = rng.choice(names).split()
            body = ' ' * rng.randrange(3) + a + rng.choice([' ', '  ', '\t', ' \xa0']) + b + rng.choice(['', ' x', ' 1 2'])
        return body + rng.choice(['\r\n', '\r\n', '\n'])

    def refused_line(self, rng):
        k = rng.randrange(6)
        if k == 0:
            return rng.choice(['set W_foo', 'get W_home', 'set w_cal', 'get W_mod', 'Set W_cal', 'dummy cmd']) + '\r\n'
        if k == 1:
            return rng.choice(list(self.sets)) + ';' + rng.choice(['foo bar', 'get mode x', 'set W_cal1']) + '\r\n'
        if k == 2:
            return rng.choice(['dummy', 'set', 'get', 'setW_cal', ';;', '', 'W_cal']) + '\r\n'
        if k == 3:
            return rng.choice(list(self.sets)).replace(' ', rng.choice(['_', '=', '\x00', '\xad'])) + '\r\n'
        if k == 4:
            return 'get W_mode;' + rng.choice(['a b', 'set W_nothing', 'x y z']) + ';set W_cal\r\n'
        return rng.choice(['set W_cal\r;get W_mode\r\n', 'set W_cal\rget W_mode\n', 'set\rW_cal\n'])


# ---------------------------------------------------------------------------
# switch matrix

class SwMatrix(Sim):
    name = 'swmatrix'
    coq_imports = 'From DS Require Import Model.SmbCommon Model.SmbSwMatrix Corr.SmbSwMatrixCorr.'
    ctype = 'sw_case'
    okfun = 'sw_ok'
    showfun = 'sw_show'
    alphabet = 'setg IF_witchonf=1234509;\r\n -'
    table = {1: 'HBS', 2: 'VBS', 3: 'LBP', 4: 'UBP'}       # golden copy, independent of the code
    queries = ['get IF_switch_config\r\n', 'get IF_switch_config\n', ' get  IF_switch_config\r\n'][:2]
    reply_re = re.compile(r'\A(?:ACK\r\n|NACK\r\n|[1-4]:(?:HBS|VBS|LBP|UBP)\r\n(?:;[1-4]:(?:HBS|VBS|LBP|UBP)\r\n)*)\Z')

    repo_name = 'switch_matrix'
    coq_name = 'SwMatrix'
    okfun_wf = 'sw_ok_wf'
    registers = ['config']
    sweep_cmds = ['get IF_switch_config\r', 'set IF_switch_config=3\r']
    noise_lines = ['\n', '\r\n', 'dummy;;\r\n', 'set;;get\r\n', '\r\r\n']

    def make(self):
        from simulators.switch_matrix import System
        return System()

    def device(self, s):
        return dict(idx=s.sw_matrix._switch_matrix)

    def set_device(self, t, dev):
        t.sw_matrix._switch_matrix = dev['idx']

    def reg_token(self, rng, reg):
        return self.int_token(rng)

    def reg_write(self, reg, tok):
        return 'set IF_switch_config=' + tok + '\r\n'

    def reg_read(self, reg):
        return 'get IF_switch_config\r\n'

    def reg_acked(self, reg, tok, outs):
        return outs[-1] == ('R', 'ACK\r\n')

    def reg_enc(self, reg, tok):
        # documented domain: a decimal integer literal naming one of the four configurations
        t = tok.strip(' ')
        if re.fullmatch(r'[0-9]+(_[0-9]+)*', t) and int(t) in self.table:
            return '%d:%s\r\n' % (int(t), self.table[int(t)])
        return None

    def reg_class(self, reg, tok, kind):
        if kind == 'ack' and re.search(r'\W', tok.strip(' ')):
            return 'swmatrix_value_split_by_tokenizer'
        return 'swmatrix_c05_config_' + kind

    def line_acked(self, line, outs):
        return any(o == ('R', 'ACK\r\n') for o in outs)

    def non_writing_line(self, rng, reg):
        r = rng.random()
        return (self.reg_read(reg) if r < 0.4 else self.reg_write(reg, self.int_token(rng, False)) if r < 0.7
                else self.refused_line(rng) if r < 0.85 else self.garbage_line(rng))

    def between_ok(self, reg, between, outs):
        return not self.line_acked(between, outs)

    def c05_seeds(self):
        return [('', 'config', t, 'set IF_switch_config=9\r\nget IF_switch_config\r\nfoo\r\n')
                for t in ('1', '2', '3', '4', '04', '-3', '2.9', '9', '0', 'x')]

    def c05_refused_seeds(self):
        return [('set IF_switch_config=2\r\n', 'set IF_switch_config=%s\r\n' % t) for t in ('9', '0', 'abc', '', '5', '\xb2')]

    def corpus(self, prop):
        if prop == 'c05' and self.thorough:      # int() refuses more than 4300 digits (sys.int_info.default_max_str_digits)
            return ['set IF_switch_config=%s\r\nget IF_switch_config\r\n' % t
                    for t in ('0' * 4299 + '3', '0' * 4300 + '3', '1_' * 3 + '0' * 4290 + '2')]
        return []

    def c02_histories(self):
        return ['', 'set IF_switch_config=9\r\n', 'set IF_switch_config=0\r\n', 'set IF_switch_config=4\r\n',
                'set IF_switch_config=99999999999999999999\r\n', 'foo bar\r\n', 'set IF_sw']

    def echo_ok(self, stream, i, reply, outs=None):
        return None

    def snapshot(self, s):
        return (s.msg, s.sw_matrix._switch_matrix)

    def case(self, stream):
        s = self.make()
        outs = self.feed(s, stream)
        msg, idx = self.snapshot(s)
        assert isinstance(msg, str) and isinstance(idx, int) and not isinstance(idx, bool)
        t = 'SwCase %s %s %s %s' % (s2z(stream), obs_term(outs), s2z(msg), zlit(idx))
        return t, outs, (msg, idx)

    def int_token(self, rng, good=None):
        good = rng.random() < 0.6 if good is None else good
        if good:
            v = rng.randrange(1, 5)
            return rng.choice(['%d', '%d', '%d', '0%d', '00_%d', '%d ', ' %d', '+%d']) % v
        return rng.choice(['0', '5', '9', '10', '44', '-1', '1_', '_1', '1__2', 'abc', '', '\xb2', '2x', 'x2',
                           '1_000', '99999999999999999999', '1' * 40, '\xb9', 'IF', '2_3'])

    def valid_line(self, rng):
        k = rng.randrange(10)
        if k < 4:
            body = 'get IF_switch_config'
        elif k < 8:
            body = 'set IF_switch_config=' + self.int_token(rng, True)
        elif k == 8:
            body = ';'.join(rng.choice(['get IF_switch_config', '', 'dummy']) for _ in range(rng.randrange(2, 4)))
        else:
            body = 'get IF_switch_config;set IF_switch_config=%d' % rng.randrange(1, 5)
        return body + rng.choice(['\r\n', '\r\n', '\n'])

    def refused_line(self, rng):
        k = rng.randrange(7)
        if k < 3:
            return 'set IF_switch_config=' + self.int_token(rng, False) + '\r\n'
        if k == 3:
            return rng.choice(['set IF_switch_conf=1', 'get IF_switch', 'put IF_switch_config', 'dummy cmd',
                               'get IF_switch_config=2', 'set IF_switch_config', 'set IF_switch_config ']) + '\r\n'
        if k == 4:
            return rng.choice(['dummy', ';;', '', 'set', ' ', '=']) + '\r\n'
        if k == 5:
            return rng.choice([' get IF_switch_config', '=set IF_switch_config=3', 'set=IF_switch_config=3',
                               'set IF_switch_config 3', 'set\rIF_switch_config=\r4', 'set IF_switch_config=-3',
                               'set IF_switch_config=2.9', 'set IF_switch_config==2', 'get\xe9IF_switch_config']) + '\r\n'
        return 'get IF_switch_config;' + rng.choice(['a b', 'set IF_switch_config=7', 'foo']) + ';get IF_switch_config\r\n'


SIMS = {}


def register(sim):
    SIMS[sim.name] = sim
    return sim


register(Solar())
register(SwMatrix())


# ===========================================================================
# correspondence suites (one generator family per property; all run the same Coq model)

def _run(ctx, sim, suite, streams, okfun=None):
    cases = []
    sim.thorough = not ctx.quick()
    for st in streams:
        t, outs, snap = sim.case(st)
        cases.append(t)
        kinds = sorted(set(o[0] if o[0] != 'EX' else o[1] for o in outs if o[0] != 'T'))
        ctx.count('%s:%s' % (sim.name, '+'.join(kinds) or 'silent'))
        if kinds:
            ctx.nontriv((sim.name, suite, sim.key(st)))
    if cases:
        ctx.sample('%s: %s' % (suite, cases[len(cases) // 2][:300]))
    ctx.run_cases('%s_%s' % (suite, sim.name), sim.coq_imports, sim.ctype, okfun or sim.okfun, cases,
                  show=sim.showfun, shard=ctx.n(120, 400), prelude=sim.prelude())


def corr_c03(ctx, sim):
    """random / truncated / corrupted byte streams, then the terminator and a probe query"""
    rng = ctx.rng
    streams = corpus_streams('c03', sim) + list(sim.corpus('c03'))
    streams += sim.byte_sweep()
    for _ in range(int(ctx.n(250, 2500) * sim.scale)):
        parts = []
        for _ in range(rng.randrange(1, 6)):
            r = rng.random()
            if r < 0.3:
                parts.append(sim.valid_line(rng))
            elif r < 0.45:
                parts.append(sim.refused_line(rng))
            elif r < 0.6:
                line = sim.valid_line(rng)
                parts.append(line[:rng.randrange(len(line))])          # truncated
            elif r < 0.75:
                parts.append(sim.corrupt(rng, sim.valid_line(rng)))
            else:
                parts.append(sim.garbage(rng))
        st = sim.concat(parts)
        if rng.random() < 0.8:
            st = sim.concat([st, sim.resync(rng), sim.probe(rng)])
        streams.append(st)
    _run(ctx, sim, 'c03', streams)


def corr_c05(ctx, sim):
    """register write / read-back sequences with in-domain, boundary and out-of-domain values"""
    rng = ctx.rng
    sim.thorough = not ctx.quick()
    streams = corpus_streams('c05', sim) + list(sim.corpus('c05'))
    for _ in range(int(ctx.n(250, 2500) * sim.scale)):
        parts = []
        for _ in range(rng.randrange(2, 9)):
            r = rng.random()
            if r < 0.4:
                parts.append(sim.write_line(rng))
            elif r < 0.75:
                parts.append(sim.probe(rng))
            elif r < 0.9:
                parts.append(sim.refused_line(rng))
            else:
                parts.append(sim.garbage(rng))
        streams.append(sim.concat(parts))
    _run(ctx, sim, 'c05', streams)


def corr_c02(ctx, sim):
    """mixed history, resynchronisation, then every query of the catalogue"""
    rng = ctx.rng
    streams = corpus_streams('c02', sim) + list(sim.corpus('c02'))
    for _ in range(int(ctx.n(200, 2000) * sim.scale)):
        h = sim.history(rng)
        if rng.random() < 0.3:
            line = sim.valid_line(rng)
            h = sim.concat([h, line[:rng.randrange(len(line))]])
        streams.append(sim.concat([h, sim.resync(rng)] + sim.all_queries(rng)))
    _run(ctx, sim, 'c02', streams)


def corr_c04(ctx, sim):
    """accepted, refused and erroneous requests; every implementation reply also goes through the
    Coq decoder of the protocol"""
    rng = ctx.rng
    streams = corpus_streams('c04', sim) + list(sim.corpus('c04'))
    for _ in range(int(ctx.n(200, 2000) * sim.scale)):
        parts = []
        for _ in range(rng.randrange(1, 7)):
            r = rng.random()
            parts.append(sim.valid_line(rng) if r < 0.4 else sim.write_line(rng) if r < 0.6
                         else sim.refused_line(rng) if r < 0.85 else sim.garbage(rng))
        streams.append(sim.concat(parts))
    _run(ctx, sim, 'c04', streams, okfun=sim.okfun_wf)


def load_corpus(prop, sim):
    """/verif/corpus/<PROP>/smb-*.json : {sim, check, args}; run first by the oracle of <prop> and
    fed (concatenated) to the correspondence suite of <prop>"""
    import glob
    import json
    import os
    d = os.path.join(os.path.dirname(os.path.dirname(os.path.dirname(os.path.abspath(__file__)))), 'corpus', prop.upper())
    out = []
    for f in sorted(glob.glob(os.path.join(d, 'smb-*.json'))):
        w = json.load(open(f))
        if w.get('sim') != sim.name:
            continue
        args = w['args']
        if sim.name == 'weather':
            args = {k: sim.unjson(v) for k, v in args.items()}
        out.append((w['check'], args, os.path.basename(f)))
    return out


def corpus_streams(prop, sim):
    out = []
    for check, args, _ in load_corpus(prop, sim):
        order = [k for k in ('history', 'stream', 'line', 'between', 'noise', 'probe', 'query', 'a', 'b') if k in args]
        parts = []
        for k in order:
            parts.append(args[k])
            if k == 'history':
                parts.append(sim.resync(None))
        parts = [x for x in parts if isinstance(x, (str, list))]
        if parts:
            out.append(sim.concat(parts))
    return out


def run_corpus(ctx, prop, sim):
    for check, args, name in load_corpus(prop, sim):
        _report(ctx, sim, check, CHECKS[check](sim, **args), **args)


CORR = dict(c03=corr_c03, c05=corr_c05, c02=corr_c02, c04=corr_c04)


# ===========================================================================
# property-level oracles on the implementation (no model involved)

def _outs_repr(outs):
    return [o if o[0] != 'R' else ('R', o[1]) for o in outs if o[0] != 'T']


def check_c03(sim, history, probe, noise):
    """after `history` + terminator: buffer idle; a noise line is discarded without effect; the
    probe line is answered exactly as by a fresh parser holding the same device state"""
    s = sim.make()
    sim.feed(s, history)
    sim.feed(s, sim.resync(None))
    if not sim.buffer_idle(s):
        return (sim.name + '_c03_not_idle_after_terminator', 'receive buffer not empty after the terminator')
    dev0 = sim.device(s)
    outs = sim.feed(s, noise)
    if any(o[0] not in sim.noise_outcomes for o in outs) or sim.device(s) != dev0 or not sim.buffer_idle(s):
        return (sim.name + '_c03_noise_not_discarded', 'a line that cannot be a command had an effect: %r' % (_outs_repr(outs),))
    twin = sim.fresh_with_device(s)
    o1 = sim.feed(s, probe)
    o2 = sim.feed(twin, probe)
    if o1 != o2 or sim.device(s) != sim.device(twin):
        return (sim.name + '_c03_residue', 'command after resynchronisation answered differently from a fresh parser: %r vs %r'
                % (_outs_repr(o1), _outs_repr(o2)))
    return None


def check_c02(sim, history, query):
    """after history + terminator, the query gets exactly one, well-formed reply"""
    s = sim.make()
    sim.feed(s, history)
    sim.feed(s, sim.resync(None))
    outs = sim.feed(s, query)
    body, last = outs[:-1], outs[-1]
    if any(o[0] != 'T' for o in body) or last[0] != 'R':
        return (sim.c02_class(history, query, outs), 'query %r not answered with exactly one reply: %r' % (query, _outs_repr(outs)))
    if not sim.reply_ok(last[1]):
        return (sim.name + '_c02_malformed_answer', 'query %r answered with malformed reply %r' % (query, last[1]))
    err = sim.cross_check(s, query, last[1])
    if err:
        return (sim.name + '_c02_inconsistent_answer', err)
    return None


def check_c04(sim, stream):
    """every reply in the run decodes under the protocol's reply grammar and is single-byte text"""
    s = sim.make()
    outs = sim.feed(s, stream)
    for i, o in enumerate(outs):
        if o[0] == 'BAD':
            return (sim.name + '_c04_bad_return', 'parse returned an empty / non-str value at byte %d' % i)
        if o[0] == 'R':
            try:
                o[1].encode('latin-1')
            except UnicodeEncodeError:
                return (sim.c04_class('charset', stream, o[1]), 'reply %r is not transmittable as single bytes' % o[1])
            if not sim.reply_ok(o[1]):
                return (sim.c04_class('shape', stream, o[1]), 'reply %r does not decode under the protocol' % o[1])
            err = sim.echo_ok(stream, i, o[1], outs)
            if err:
                return (sim.name + '_c04_echo', err)
    return None


def check_c05_readback(sim, history, reg, tok, between):
    """write `tok` to register `reg`; if acknowledged, after `between` (no acknowledged write of reg)
    the read-back is the protocol encoding of the written value"""
    s = sim.make()
    sim.feed(s, history)
    sim.feed(s, sim.resync(None))
    w = sim.reg_write(reg, tok)
    outs = sim.feed(s, w)
    if not sim.reg_acked(reg, tok, outs):
        return None
    want = sim.reg_enc(reg, tok)
    if want is None:
        return (sim.reg_class(reg, tok, 'ack'), 'write %r acknowledged although the value is outside the documented domain' % w)
    bo = sim.feed(s, between)
    if not sim.between_ok(reg, between, bo):
        return None                      # the history contains an acknowledged write of reg: hypothesis not met
    sim.feed(s, sim.resync(None))
    q = sim.reg_read(reg)
    ro = sim.feed(s, q)
    got = ro[-1]
    if got[0] != 'R' or not sim.reg_match(reg, got[1], want):
        return (sim.reg_class(reg, tok, 'readback'), 'after acknowledged %r the read-back %r gives %r, expected %r'
                % (w, q, got, want))
    return None


def check_c05_refused(sim, history, line):
    """a line that is not acknowledged leaves every read-back of the catalogue unchanged"""
    s = sim.make()
    sim.feed(s, history)
    sim.feed(s, sim.resync(None))
    before = sim.readbacks(s)
    outs = sim.feed(s, line)
    if sim.line_acked(line, outs):
        return None
    after = sim.readbacks(s)
    if before != after:
        return (sim.c05_refused_class(line, outs), 'line %r was not acknowledged (%r) but read-backs changed: %r -> %r'
                % (line, _outs_repr(outs), before, after))
    return None


def check_c03_threads(sim, a, b, schedule):
    """two handler threads typing at the same time: each thread's outcomes are those it gets when the
    two command lines are sent one after the other (no residue across threads)"""
    s = sim.make()
    ia = ib = 0
    inter = []
    for pick in schedule:
        if pick == 0 and ia < len(a):
            inter.append(a[ia]); ia += 1
        elif ib < len(b):
            inter.append(b[ib]); ib += 1
        elif ia < len(a):
            inter.append(a[ia]); ia += 1
    inter += a[ia:] + b[ib:]
    outs = sim.feed(s, inter)
    oa = [o for (t, _), o in zip(inter, outs) if t == a[0][0]]
    ob = [o for (t, _), o in zip(inter, outs) if t == b[0][0]]
    s2 = sim.make()
    ra = sim.feed(s2, a)
    rb = sim.feed(s2, b)
    if oa != ra or ob != rb or sim.device(s) != sim.device(s2) or not sim.buffer_idle(s):
        return (sim.name + '_c03_threads_interfere', 'interleaved threads answered %r / %r, alone %r / %r'
                % (_outs_repr(oa), _outs_repr(ob), _outs_repr(ra), _outs_repr(rb)))
    return None


CHECKS = dict(c03_threads=check_c03_threads, c03=check_c03, c02=check_c02, c04=check_c04, c05_readback=check_c05_readback,
              c05_refused=check_c05_refused)


def _report(ctx, sim, check, res, **args):
    ctx.evaluations += 1
    if res:
        ctx.fail(res[0], res[1], dict(sim=sim.name, check=check, args=args))


def oracle_c03(ctx, sim):
    rng = ctx.rng
    run_corpus(ctx, 'c03', sim)
    for _ in range(ctx.n(300, 4000)):
        h = sim.history(rng)
        if rng.random() < 0.6:
            line = sim.valid_line(rng)
            h = sim.concat([h, sim.corrupt(rng, line) if rng.random() < 0.5 else line[:rng.randrange(len(line))]])
        probe = sim.probe(rng) if rng.random() < 0.6 else sim.valid_line(rng)
        noise = rng.choice(sim.noise_lines)
        _report(ctx, sim, 'c03', check_c03(sim, h, probe, noise), history=h, probe=probe, noise=noise)
    if hasattr(sim, 'thread_pair'):
        for _ in range(ctx.n(200, 3000)):
            a, b = sim.thread_pair(rng)
            schedule = [rng.randrange(2) for _ in range(len(a) + len(b))]
            _report(ctx, sim, 'c03_threads', check_c03_threads(sim, a, b, schedule), a=a, b=b, schedule=schedule)


def oracle_c02(ctx, sim):
    rng = ctx.rng
    run_corpus(ctx, 'c02', sim)
    for h in sim.c02_histories():
        for q in sim.queries:
            _report(ctx, sim, 'c02', check_c02(sim, h, q), history=h, query=q)
    for _ in range(ctx.n(200, 3000)):
        h = sim.history(rng)
        if rng.random() < 0.3:
            h = sim.concat([h, sim.garbage(rng)])
        for q in sim.queries:
            _report(ctx, sim, 'c02', check_c02(sim, h, q), history=h, query=q)


def oracle_c04(ctx, sim):
    rng = ctx.rng
    run_corpus(ctx, 'c04', sim)
    for st in sim.c04_streams():
        _report(ctx, sim, 'c04', check_c04(sim, st), stream=st)
    for _ in range(ctx.n(300, 4000)):
        parts = []
        for _ in range(rng.randrange(1, 7)):
            r = rng.random()
            parts.append(sim.valid_line(rng) if r < 0.35 else sim.write_line(rng) if r < 0.6
                         else sim.refused_line(rng) if r < 0.85 else sim.garbage(rng))
        st = sim.concat(parts)
        _report(ctx, sim, 'c04', check_c04(sim, st), stream=st)


def oracle_c05(ctx, sim):
    rng = ctx.rng
    run_corpus(ctx, 'c05', sim)
    for (h, reg, tok, between) in sim.c05_seeds():
        _report(ctx, sim, 'c05_readback', check_c05_readback(sim, h, reg, tok, between),
                history=h, reg=reg, tok=tok, between=between)
    for (h, line) in sim.c05_refused_seeds():
        _report(ctx, sim, 'c05_refused', check_c05_refused(sim, h, line), history=h, line=line)
    for _ in range(ctx.n(300, 4000)):
        h = sim.history(rng, rng.randrange(0, 4))
        reg = rng.choice(sim.registers)
        tok = sim.reg_token(rng, reg)
        between = sim.concat([sim.non_writing_line(rng, reg) for _ in range(rng.randrange(0, 5))])
        _report(ctx, sim, 'c05_readback', check_c05_readback(sim, h, reg, tok, between),
                history=h, reg=reg, tok=tok, between=between)
    for _ in range(ctx.n(300, 4000)):
        h = sim.history(rng, rng.randrange(0, 4))
        r = rng.random()
        line = (sim.refused_line(rng) if r < 0.4 else sim.garbage_line(rng) if r < 0.6 else sim.write_line(rng) if r < 0.75
                else sim.prefixed_write(rng))
        _report(ctx, sim, 'c05_refused', check_c05_refused(sim, h, line), history=h, line=line)


ORACLE = dict(c03=oracle_c03, c05=oracle_c05, c02=oracle_c02, c04=oracle_c04)


def part(prop, simname):
    """PART dict and the four hooks of props/parts/<prop>_<sim>.py"""
    sim = SIMS[simname]
    PART = dict(name='%s_%s' % (prop, simname), simulator=sim.repo_name, ready=True,
                coq_targets=['Properties/%s_%s.vo' % (prop.upper(), simname), 'Corr/Smb%sCorr.vo' % sim.coq_name])

    def correspondence(ctx):
        CORR[prop](ctx, sim)

    def oracle(ctx):
        ORACLE[prop](ctx, sim)

    def replay(ctx, obj):
        w = obj.get('witness') or {}
        if w.get('sim') != simname or not str(w.get('check', '')).startswith(prop):
            return False
        args = w['args']
        if sim.name == 'weather':
            args = {k: sim.unjson(v) for k, v in args.items()}
        res = CHECKS[w['check']](sim, **args)
        return bool(res)

    return PART, correspondence, oracle, replay


# ---------------------------------------------------------------------------
# generic LO

import math
from fractions import Fraction


def _is_int_literal(t):
    return bool(re.fullmatch(r'[+-]?[0-9]+', t))


def _finite_float(t):
    try:
        f = float(t)
    except ValueError:
        return None
    return f if math.isfinite(f) and math.isfinite(f * 1e6) else None


class GenLO(Sim):
    name = 'genlo'
    repo_name = 'lo/generic_LO'
    coq_name = 'GenLO'
    coq_imports = 'From DS Require Import Model.SmbCommon Model.SmbGenLO Corr.SmbGenLOCorr.'
    ctype = 'g_case'
    okfun = 'g_ok'
    okfun_wf = 'g_ok_wf'
    showfun = 'g_show'
    alphabet = 'POWERFQ?SYT: dBmMHZ0123456789.-+e;\n \t'
    queries = ['POWER?\n', 'FREQ?\n', 'SYST:ERR?\n']
    registers = ['power', 'freq']
    sweep_cmds = ['POWER 7 dBm', 'FREQ 2.5 MHZ']
    noise_lines = ['\n', 'dummy;;\n', ' ; \t;\n', 'POWER\n', 'FREQ 5\n', 'power?\n']
    reply_re = re.compile(r'\A(?:-?[0-9]+|0,"No error")(?:;(?:-?[0-9]+|0,"No error"))*\n\Z')

    def make(self):
        from simulators.lo import System
        return System(system_type='generic_LO')

    @staticmethod
    def oracle(tok):
        try:
            f = float(tok)
        except ValueError:
            return 'FErr'
        hz = f * 1000000
        if not math.isfinite(hz):
            return 'FNonFinite'
        return '(FFin %s %s)' % (zlit(int(round(hz))), s2z(repr(f)))

    def table(self, stream):
        toks = []
        for line in stream.split('\n'):
            for cmd in line.split(';'):
                a = cmd.split()
                if len(a) >= 2 and a[1] not in toks:
                    toks.append(a[1])
        return [(t, self.oracle(t)) for t in toks]

    def snapshot(self, s):
        return (s.msg, s.power, repr(s.frequency))

    def device(self, s):
        return dict(power=s.power, frequency=repr(s.frequency))

    def set_device(self, t, dev):
        t.power, t.frequency = dev['power'], float(dev['frequency'])

    def case(self, stream):
        s = self.make()
        outs = self.feed(s, stream)
        msg, power, freq = self.snapshot(s)
        assert isinstance(power, int) and not isinstance(power, bool) and isinstance(s.frequency, float)
        t = 'GCase %s %s %s %s %s %s' % (table_term(self.table(stream), str), s2z(stream), obs_term(outs),
                                          s2z(msg), zlit(power), s2z(freq))
        return t, outs, (msg, power, freq)

    def int_tok(self, rng, good=None):
        good = rng.random() < 0.65 if good is None else good
        if good:
            return rng.choice(['%d' % rng.randrange(-200, 200), '+%d' % rng.randrange(50), '0', '-0', '007',
                               '1_0', str(rng.randrange(-10 ** 30, 10 ** 30))])
        return rng.choice(['dummy', '1.5', '', '1e3', '_1', '1_', '1__0', '+', '-', '0x10', '\xb2', '--1', '1-', 'nan'])

    def float_tok(self, rng, good=None):
        good = rng.random() < 0.65 if good is None else good
        if good:
            return rng.choice(['%d' % rng.randrange(0, 50000), '%.3f' % rng.uniform(0, 50000), '1.5', '0.1', '2.675',
                               # Hz-exact decimals whose binary64 product with 1e6 lies just below the integer
                               # (int() and round() differ there: seeded change C05-r5m1)
                               '%.6f' % rng.uniform(0, 50000), '%.6f' % rng.uniform(0, 500), '%.5f' % rng.uniform(0, 50000),
                               '128.003', '128.004', '128.010', '1.001',
                               '1e3', '-0.0', '.5', '5.', '1_0.2_5', '1e-7', '4.35', '0.0000005', '123456789.987654321',
                               '1.0000005', '9007199254.740993', '-3.2', '+7e2', '1e300'])
        return rng.choice(['nan', 'inf', '-inf', 'infinity', 'NaN', '1e303', '1e308', '1e400', '-1e305', 'dummy',
                           '', '1,5', '0x1p3', '1e', '--1', '1_', 'e5'])

    def reg_token(self, rng, reg):
        return self.int_tok(rng) if reg == 'power' else self.float_tok(rng)

    def reg_write(self, reg, tok):
        return ('POWER %s dBm\n' if reg == 'power' else 'FREQ %s MHZ\n') % tok

    def reg_read(self, reg):
        return 'POWER?\n' if reg == 'power' else 'FREQ?\n'

    def reg_acked(self, reg, tok, outs):
        # the protocol never acknowledges a write on the wire: "acknowledged" = the value is in the
        # documented domain (an integer literal / a finite decimal literal) and the line was accepted
        if any(o[0] != 'T' for o in outs) or tok.split() != [tok]:
            return False
        return _is_int_literal(tok) if reg == 'power' else (_finite_float(tok) is not None and re.fullmatch(r'[-+0-9.eE]+', tok) is not None)

    def reg_enc(self, reg, tok):
        return str(int(tok)) + '\n' if reg == 'power' else Fraction(float(tok)) * 10 ** 6

    def reg_match(self, reg, got, want):
        if reg == 'power':
            return got == want
        m = re.fullmatch(r'(-?[0-9]+)\n', got)
        return bool(m) and abs(int(m.group(1)) - want) <= Fraction(1, 2) + abs(want) * Fraction(1, 10 ** 12)

    def reg_class(self, reg, tok, kind):
        if reg == 'freq' and kind == 'readback':
            f = _finite_float(tok)
            if f is not None and f != int(f):
                return 'genlo_freq_truncated'
        return 'genlo_c05_%s_%s' % (reg, kind)

    def accepted_writes(self, line):
        n = 0
        for cmd in line.replace('\n', ';').split(';'):
            a = cmd.split()
            if len(a) == 3 and a[0] == 'POWER' and a[2] == 'dBm':
                try:
                    int(a[1]); n += 1
                except ValueError:
                    pass
            if len(a) == 3 and a[0] == 'FREQ' and a[2] == 'MHZ' and _finite_float(a[1]) is not None:
                n += 1
        return n

    def line_acked(self, line, outs):
        return self.accepted_writes(line) > 0

    def between_ok(self, reg, between, outs):
        return not any((cmd.split() or [''])[0] == ('POWER' if reg == 'power' else 'FREQ')
                       for cmd in between.replace('\n', ';').split(';'))

    def non_writing_line(self, rng, reg):
        other = 'freq' if reg == 'power' else 'power'
        r = rng.random()
        return (rng.choice(self.queries) if r < 0.4 else self.reg_write(other, self.reg_token(rng, other)) if r < 0.7
                else self.garbage_line(rng))

    def c05_refused_class(self, line, outs):
        if re.search(r'FREQ\s+[-+]?(nan|inf)', line, re.I):
            return 'genlo_freq_nonfinite_stored'
        return 'genlo_c05_refused_write_changed_state'

    def valid_line(self, rng):
        k = rng.randrange(10)
        if k < 3:
            body = 'POWER %s dBm' % self.int_tok(rng, True)
        elif k < 6:
            body = 'FREQ %s MHZ' % self.float_tok(rng, True)
        elif k < 8:
            body = rng.choice(['POWER?', 'FREQ?', 'SYST:ERR?'])
        else:
            body = ';'.join(rng.choice(['POWER?', 'FREQ?', 'SYST:ERR?', 'POWER 3 dBm', 'FREQ 1.25 MHZ', '', 'dummy',
                                        ' FREQ?  x'])
                            for _ in range(rng.randrange(2, 5)))
        return body + '\n'

    def refused_line(self, rng):
        k = rng.randrange(6)
        if k == 0:
            return 'POWER %s dBm\n' % self.int_tok(rng, False)
        if k == 1:
            return 'FREQ %s MHZ\n' % self.float_tok(rng, False)
        if k == 2:
            return rng.choice(['POWER 5\n', 'POWER 5 dbm\n', 'POWER 5 dBm x\n', 'FREQ 5\n', 'FREQ 5 MHz\n',
                               'FREQ 5 MHZ MHZ\n', 'POWER dBm 5\n', 'POWER5 dBm\n'])
        if k == 3:
            return rng.choice(['dummy\n', 'power?\n', 'FREQ ?\n', 'SYST:ERR\n', ';;\n', '\n', 'POWER?x\n'])
        if k == 4:
            return 'FREQ %s MHZ;FREQ?\n' % self.float_tok(rng, False)
        return 'POWER %s dBm;POWER?;FREQ?\n' % self.int_tok(rng, False)

    def c05_seeds(self):
        return [('', 'freq', t, 'POWER 3 dBm\nFREQ?\n') for t in ('1.5', '0.1', '2.675', '1e300', '100')] + \
               [('', 'power', t, 'FREQ 3 MHZ\nPOWER?\n') for t in ('5', '-7', '+3', '007')]

    def c05_refused_seeds(self):
        return [('FREQ 20 MHZ\n', 'FREQ %s MHZ\n' % t) for t in ('nan', 'inf', '-inf', '1e305', 'dummy')] + \
               [('POWER 20 dBm\n', 'POWER %s dBm\n' % t) for t in ('1.5', 'x', '')]

    def c02_histories(self):
        return ['', 'FREQ nan MHZ\n', 'FREQ inf MHZ\n', 'FREQ 1e305 MHZ\n', 'FREQ -inf MHZ\n', 'POWER x dBm\n', 'FRE']

    def c04_streams(self):
        return ['POWER -5 dBm;POWER?;FREQ 1e300 MHZ;FREQ?;SYST:ERR?\n']


register(GenLO())


# ---------------------------------------------------------------------------
# W-band LO

class WLO(Sim):
    name = 'wlo'
    repo_name = 'lo/w_LO'
    coq_name = 'WLO'
    coq_imports = 'From DS Require Import Model.SmbCommon Model.SmbWLO Corr.SmbWLOCorr.'
    ctype = 'w_case'
    okfun = 'w_ok'
    okfun_wf = 'w_ok_wf'
    showfun = 'w_show'
    alphabet = 'setg W_LOfrqPolHVatRTmpu=0123456789.;\r\n enabldiUSB'
    regs = {   # register -> (set name, get name, unit suffix of the read-back)
        'freqH': ('set W_LO_freq_PolH', 'get W_LO_PolH', 'MHz'), 'freqV': ('set W_LO_freq_PolV', 'get W_LO_PolV', 'MHz'),
        'attH': ('set LO_att_PolH', 'get LO_att_PolH', 'dB'), 'attV': ('set LO_att_PolV', 'get LO_att_PolV', 'dB'),
        'refH': ('set W_LO_RefH', 'get W_LO_RefH', '.'), 'refV': ('set W_LO_RefV', 'get W_LO_RefV', '.'),
    }
    attrs = ['w_lo_freq_polH', 'w_lo_freq_polV', 'lo_att_polH', 'lo_att_polV', 'w_LO_refH', 'w_LO_refV']
    registers = list(regs)
    gets = ['get W_LO_PolH', 'get W_LO_PolV', 'get W_LO_Pols', 'get W_LO_Synths_Temp', 'get W_LO_HKP_Temp',
            'get W_LO_RefH', 'get W_LO_RefV', 'get W_LO_status', 'get LO_att_PolH', 'get LO_att_PolV', 'get LO_atts']
    queries = [g + '\r\n' for g in gets]
    sweep_cmds = ['get W_LO_Pols\r', 'set LO_att_PolH=2.5\r']
    noise_lines = ['\n', '\r\n', 'dummy;;\r\n', 'get W_LO_PolH\n', 'foo=1\r\n', ';\r\n']
    item = r'(?:[^\n;]*\r\n)'
    reply_re = re.compile(r'\A%s(?:;%s)*\Z' % (item, item))

    def make(self):
        from simulators.lo import System
        return System(system_type='w_LO')

    def tables(self, stream):
        ftab, ctab = [], []
        cands = ['']
        for line in stream.split('\n'):
            for cmd in line.split(';'):
                a = cmd.split('=')
                if len(a) >= 2 and a[1] not in [k for k, _ in ftab]:
                    try:
                        f = float(a[1])
                        ftab.append((a[1], '(WFloat %s)' % s2z(repr(f))))
                        cands.append(repr(f))
                    except ValueError:
                        ftab.append((a[1], 'WNotFloat'))
                        cands.append(a[1][:-1])
        for c in ['0.0'] + cands:
            if c not in [k for k, _ in ctab]:
                ctab.append((c, s2z(c.capitalize())))
        return ftab, ctab

    @staticmethod
    def val(v):
        if isinstance(v, float):
            return ('F', repr(v))
        assert isinstance(v, str), v
        return ('S', v)

    def snapshot(self, s):
        return (s.msg, s.w_USB_devs, [self.val(getattr(s, a)) for a in self.attrs])

    def device(self, s):
        return dict(usb=s.w_USB_devs, regs=[self.val(getattr(s, a)) for a in self.attrs],
                    fixed=(s.w_LO_Synths_Temp, s.w_LO_HKP_Temp, s.status_W_LO_PolH, s.status_W_LO_PolV))

    def set_device(self, t, dev):
        t.w_USB_devs = dev['usb']
        for a, (k, v) in zip(self.attrs, dev['regs']):
            setattr(t, a, float(v) if k == 'F' else v)

    def case(self, stream):
        s = self.make()
        outs = self.feed(s, stream)
        msg, usb, regs = self.snapshot(s)
        ftab, ctab = self.tables(stream)
        rt = '[' + '; '.join('(%s %s)' % ('WF' if k == 'F' else 'WS', s2z(v)) for k, v in regs) + ']'
        t = 'WCase %s %s %s %s %s %s %s' % (table_term(ftab, str), table_term(ctab, str), s2z(stream),
                                             obs_term(outs), s2z(msg), zlit(usb), rt)
        return t, outs, (msg, usb, regs)

    def num_tok(self, rng):
        return rng.choice(['%d' % rng.randrange(0, 200), '%.2f' % rng.uniform(0, 100), '12.23', '1e3', '-0.0', 'nan',
                           'inf', '1_0.5', ' 7 ', '0.1', '1e22', '1e16', '5'])

    def str_tok(self, rng):
        return rng.choice(['INT', 'EXT', 'int', 'eXT', 'abc', '', 'x', '1.2.3', '\xff', '\xdf', '\xb5a', 'a\xc0', 'nan_',
                           'I N T', 'in\rt'])

    def reg_token(self, rng, reg):
        r = rng.random()
        if reg.startswith('ref'):
            return self.str_tok(rng) if r < 0.7 else self.num_tok(rng)
        return self.num_tok(rng) if r < 0.75 else self.str_tok(rng)

    def reg_write(self, reg, tok):
        return '%s=%s\r\n' % (self.regs[reg][0], tok)

    def reg_read(self, reg):
        return self.regs[reg][1] + '\r\n'

    def reg_acked(self, reg, tok, outs):
        return outs[-1] == ('R', 'ACK\r\n')

    def reg_enc(self, reg, tok):
        # documented domain: a number for frequencies / attenuations, a word for the references
        if reg.startswith('ref'):
            try:
                float(tok)
                return ('any',)       # 'inf', 'Infinity', 'nan' ... : stored as a float, rendered by repr
            except ValueError:
                pass
            if re.fullmatch(r'[A-Za-z]+', tok):
                return tok[0].upper() + tok[1:].lower() + '.\r\n'
            return ('any',)
        try:
            f = float(tok)
        except ValueError:
            return ('any',)
        return repr(f) + self.regs[reg][2] + '\r\n'

    def reg_match(self, reg, got, want):
        return True if want == ('any',) else got == want

    def line_acked(self, line, outs):
        return any(o[0] == 'R' and 'ACK' in o[1] for o in outs)

    def writes_reg(self, reg, text):
        return self.regs[reg][0] in text

    def between_ok(self, reg, between, outs):
        return not self.writes_reg(reg, between)

    def non_writing_line(self, rng, reg):
        for _ in range(20):
            r = rng.random()
            other = rng.choice([x for x in self.registers if x != reg])
            c = (rng.choice(self.queries) if r < 0.4 else self.reg_write(other, self.reg_token(rng, other)) if r < 0.7
                 else self.refused_line(rng) if r < 0.85 else self.garbage_line(rng))
            if not self.writes_reg(reg, c):
                return c
        return self.queries[0]

    def c05_refused_class(self, line, outs):
        if ';' in line and any(o[0] == 'EX' for o in outs):
            return 'wlo_partial_line_exception'
        return 'wlo_c05_refused_write_changed_state'

    combined = {'get W_LO_Pols\r\n': ('get W_LO_PolH\r\n', 'get W_LO_PolV\r\n'),
                'get LO_atts\r\n': ('get LO_att_PolH\r\n', 'get LO_att_PolV\r\n')}

    def cross_check(self, s, query, reply):
        """a combined getter reports the two values the individual getters report"""
        if query not in self.combined:
            return None
        parts = [self.feed(s, q)[-1] for q in self.combined[query]]
        if any(p[0] != 'R' for p in parts):
            return None
        want = parts[0][1][:-2] + ',' + parts[1][1]
        if reply != want:
            return 'combined reply %r differs from the individual read-backs %r' % (reply, want)
        return None

    def c04_class(self, kind, stream, reply):
        if kind == 'charset' and reply.endswith('.\r\n'):
            return 'wlo_ref_capitalize_non_latin1'
        return 'wlo_c04_' + kind

    def valid_line(self, rng):
        k = rng.randrange(10)
        if k < 4:
            body = rng.choice(self.gets) + '\r'
        elif k < 8:
            reg = rng.choice(self.registers)
            body = '%s=%s\r' % (self.regs[reg][0], self.reg_token(rng, reg))
        elif k == 8:
            body = rng.choice(['enable USB_devs', 'disable USB_devs']) + '\r'
        else:
            body = ';'.join(rng.choice(['set LO_att_PolH=3', 'set W_LO_RefV=EXT\r', 'get LO_atts\r', 'get W_LO_Pols\r',
                                        'dummy', '']) for _ in range(rng.randrange(2, 4))) + '\r'
        return body + '\n'

    def refused_line(self, rng):
        k = rng.randrange(6)
        if k == 0:
            return rng.choice(['dummy\r\n', 'get W_LO_PolH\n', 'get W_LO_Pol\r\n', 'foo=1\r\n', 'set W_LO_RefH 5\r\n',
                               '\r\n', 'enable USB_dev\r\n', 'GET LO_atts\r\n'])
        if k == 1:
            return rng.choice(self.gets) + '=%s\r\n' % rng.choice(['1', 'x', ''])
        if k == 2:
            return rng.choice([v[0] for v in self.regs.values()]) + '\r\n'
        if k == 3:
            return 'set LO_att_PolH=%s;%s\r\n' % (self.num_tok(rng), rng.choice(['get LO_atts=1', 'set LO_att_PolV\r', 'foo']))
        if k == 4:
            return rng.choice(['set W_LO_freq_PolH=1=2\r\n', 'set W_LO_freq_PolH==2\r\n', '=5\r\n', 'set LO_att_PolH =5\r\n'])
        return 'get W_LO_PolH;get W_LO_PolV\r\n'

    def c05_seeds(self):
        return [('', 'refH', t, 'get W_LO_RefV\r\nset W_LO_RefV=5\r\n') for t in ('5', 'INT', 'ext', '1e3')] + \
               [('', 'freqH', t, 'set W_LO_freq_PolV=3\r\nget W_LO_Pols\r\n') for t in ('12.23', '5', 'abc')]

    def c05_refused_seeds(self):
        return [('', 'set LO_att_PolH=1;get LO_atts=2\r\n'), ('', 'foo=1\r\n'), ('set W_LO_RefH=INT\r\n', 'set W_LO_RefH\r\n')]

    def c02_histories(self):
        return ['', 'set W_LO_RefH=5\r\n', 'set W_LO_RefV=1e3\r\n', 'dummy\r\n', '\r\n', 'set W_LO_freq_PolH=abc\r\n',
                'set W_LO_RefH=nan\r\n', 'get W_LO']

    def c04_streams(self):
        return ['set W_LO_RefH=\xff\r\nget W_LO_RefH\r\n', 'set W_LO_RefV=\xb5a\r\nget W_LO_RefV\r\n',
                'set W_LO_RefH=5\r\nget W_LO_RefH\r\n']


register(WLO())


# ---------------------------------------------------------------------------
# weather station (per-thread receive buffers; streams are lists of (thread id, character))

class _FakeThread:
    ident = 1


class _FrozenDatetimeModule:
    """stands in for the `datetime` module inside simulators.weather_station"""
    class datetime:
        @staticmethod
        def utcnow():
            import datetime as _dt
            return _dt.datetime(2026, 10, 1, 12, 0, 0)


class Weather(Sim):
    name = 'weather'
    repo_name = 'weather_station'
    coq_name = 'Weather'
    coq_imports = 'From DS Require Import Model.SmbCommon Model.SmbWeather Corr.SmbWeatherCorr.'
    ctype = 'ws_case'
    okfun = 'ws_ok'
    okfun_wf = 'ws_ok_wf'
    showfun = 'ws_show'
    TIDS = [1, 2, 3]
    scale = 0.3
    golden = {   # documented sensor table (id -> info), independent of the code under test
        'th01': 'heating temp [oC]', 'vh01': 'heating voltage [V]', 'vs01': 'supply voltage [V]',
        'vr01': 'rif. voltage [V]', 'dn01': 'wind dir min [deg]', 'dm01': 'wind dir ave [deg]',
        'dx01': 'wind dir max [deg]', 'sn01': 'wind speed min [m/s]', 'sm01': 'wind speed ave [m/s]',
        'sx01': 'wind speed max [m/s]', 'ta01': 'air temp [oC]', 'ua01': 'rel. humidity [%]',
        'pa01': 'air pressure [hPa]', 'rc01': 'rain amount [mm]', 'rd01': 'rain duration [s]',
        'ri01': 'rain intensity [mm/h]', 'rp01': 'rain peak duration [s]', 'hc01': 'hail amount [hits/cm2]',
        'hd01': 'hail duration [s]', 'hi01': 'hail intensity [hits/cm2h]', 'hp01': 'hail peak duration [s]'}
    ids = list(golden)
    registers = ids
    err = ('<Sensor><Id>sintax error or sensor not found</Id><Val>1.000000</Val><Date>error</Date>'
           '<Info>error</Info></Sensor>')
    reply_re = re.compile(r'\A<Sensor><Id>.*?</Id><Val>.*?</Val><Date>.*?</Date><Info>.*?</Info></Sensor>\Z', re.S)
    noise_outcomes = ('T', 'F')

    def T(self, text, tid=1):
        return [(tid, c) for c in text]

    @property
    def queries(self):
        return [self.T('r %s\n' % i) for i in self.ids]

    @property
    def noise_lines(self):
        return [self.T('\n'), self.T('x'), self.T('rx'), self.T('r \n'), self.T('w th01\n'), self.T('r th01 1 2\n'),
                self.T('w th01 5\n', 2), self.T('\r\n', 3)]

    def make(self):
        import simulators.weather_station as ws
        ws.current_thread = lambda: _FakeThread            # deterministic thread identity
        ws.datetime = _FrozenDatetimeModule                # frozen clock
        return ws.System()

    def feed(self, system, stream):
        outs = []
        for tid, ch in stream:
            _FakeThread.ident = tid
            outs.append(classify(system.parse, ch))
        _FakeThread.ident = 1
        return outs

    def unjson(self, v):
        if isinstance(v, list) and v and isinstance(v[0], list):
            return [(a, b) for a, b in v]
        return v

    def key(self, st):
        return tuple(st)

    def concat(self, parts):
        out = []
        for p in parts:
            out += p
        return out

    def resync(self, rng):
        return [(t, '\n') for t in self.TIDS]

    def corrupt(self, rng, s):
        if not s:
            return self.T('x')
        tid = s[0][0]
        return self.T(corrupt(rng, ''.join(c for _, c in s)), tid)

    def buffer_idle(self, s):
        return s.msg == {}

    @staticmethod
    def fmt(tok):
        try:
            v = float(tok)
        except ValueError:
            v = 0.0
        return f'{v:0.6f}'

    def sens(self, s):
        return [(k, f'{float(v[0]):0.6f}', v[1], v[2]) for k, v in s.sensors.items()]

    def device(self, s):
        return dict(sensors=self.sens(s))

    def set_device(self, t, dev):
        for k, val, date, info in dev['sensors']:
            t.sensors[k] = [float(val), date, info]

    def readbacks(self, s):
        c = copy.deepcopy(s)
        return [self.feed(c, q)[-1] for q in self.queries]

    def snapshot(self, s):
        return (sorted(s.msg.items()), self.sens(s))

    def sens_term(self, sens):
        return '[' + '; '.join('mkSen %s %s %s %s' % tuple(s2z(x) for x in r) for r in sens) + ']'

    def prelude(self):
        # the initial sensor table, read from a real instance (the clock is frozen, so it is the same
        # for every instance of the run); cases refer to it by name to keep the case files small
        self.cfg0 = self.sens(self.make())
        return 'Definition ws_cfg0 : list sensor := %s.' % self.sens_term(self.cfg0)

    def case(self, stream):
        s = self.make()
        cfg = self.sens(s)
        outs = self.feed(s, stream)
        bufs, sens = self.snapshot(s)
        if getattr(self, 'cfg0', None) is None:
            self.prelude()
        toks = []
        texts = {}
        for tid, ch in stream:
            texts[tid] = texts.get(tid, '') + ch
        for text in texts.values():
            for line in text.split('\n'):
                for a in line.split():
                    if a not in toks:
                        toks.append(a)
        tab = [(t, self.fmt(t)) for t in toks]
        tids = sorted(set([t for t, _ in stream] + self.TIDS))
        assert all(isinstance(k, int) and isinstance(v, str) for k, v in bufs)
        changed = [r for r, r0 in zip(sens, cfg) if r != r0]
        assert len(sens) == len(cfg)
        t = 'WsCase %s %s %s %s %s %s %s' % (
            'ws_cfg0' if cfg == self.cfg0 else self.sens_term(cfg), table_term(tab, s2z), zlist(tids),
            '[' + '; '.join('(%d, %d)' % (tid, ord(c)) for tid, c in stream) + ']', obs_term(outs),
            '[' + '; '.join('(%d, %s)' % (k, s2z(v)) for k, v in bufs) + ']', self.sens_term(changed))
        return t, outs, (bufs, sens)

    def val_tok(self, rng):
        return rng.choice(['10.0', '%d' % rng.randrange(-50, 1000), '%.3f' % rng.uniform(-100, 1100), '1e3', '-0.0',
                           '2.5e-7', '0.0000005', '1234567.1234565', 'nan', 'inf', '1_0', 'wrong', 'x', '1,5', '--1'])

    def date_tok(self, rng):
        return rng.choice(['20261001120000', '20200229235959', 'wrong_date', '#', '0', '<b>', '\xe9t\xe9'])

    def one_line(self, rng, tid):
        k = rng.randrange(10)
        sid = rng.choice(self.ids)
        if k < 4:
            text = 'r %s' % sid
        elif k < 8:
            text = 'w %s %s %s' % (sid, self.val_tok(rng), self.date_tok(rng))
        elif k == 8:
            text = 'r  %s ' % sid
        else:
            text = 'w\t'.replace('\t', ' ') + ' %s  %s\t%s' % (sid, self.val_tok(rng), self.date_tok(rng))
        return self.T(text + '\n', tid)

    def valid_line(self, rng):
        if rng.random() < 0.25:        # two threads interleaved byte by byte
            a, b = self.one_line(rng, 1), self.one_line(rng, rng.choice([2, 3]))
            out = []
            while a or b:
                src = a if (a and (not b or rng.random() < 0.5)) else b
                out.append(src.pop(0))
            return out
        return self.one_line(rng, rng.choice(self.TIDS))

    def refused_line(self, rng):
        tid = rng.choice(self.TIDS)
        sid = rng.choice(self.ids)
        text = rng.choice(['r unkn', 'w unkn 10.0 2020', 'r %s 10.0 2020' % sid, 'w %s' % sid, 'w %s 10.0' % sid,
                           'w %s 1 2 3' % sid, 'r', 'r ', 'w  ', 'c', 'rx', 'R %s' % sid, 'r %s x' % sid, 'r\t%s' % sid,
                           'r TH01', ' r %s' % sid, 'rr %s' % sid])
        return self.T(text + '\n', tid)

    def garbage(self, rng):
        tid = rng.choice(self.TIDS)
        k = rng.randrange(5)
        if k == 0:
            return self.T(rand_bytes(rng, rng.randrange(1, 20)), tid)
        if k == 1:
            return self.T(rand_bytes(rng, rng.randrange(1, 12), 'rw  \n\tth01 5.x'), tid)
        if k == 2:
            return self.corrupt(rng, self.one_line(rng, tid))
        if k == 3:
            line = self.one_line(rng, tid)
            return line[:rng.randrange(len(line))]
        return self.T('r ' + rand_bytes(rng, rng.randrange(0, 8)) + '\n', tid)

    def garbage_line(self, rng):
        g = self.garbage(rng)
        tid = g[0][0] if g else 1
        return [(t, c) for t, c in g if c != '\n'] + [(tid, '\n')]

    def probe(self, rng):
        return self.T('r %s\n' % rng.choice(self.ids), rng.choice(self.TIDS))

    def prefixed_write(self, rng):
        """a write typed after a few garbage bytes on the same thread, possibly while another thread types"""
        tid = rng.choice(self.TIDS)
        reg = rng.choice(self.ids)
        pre = rand_bytes(rng, rng.randrange(1, 4), rng.choice([None, 'Txrw \t', 'rw '])).replace('\n', '')
        line = self.T(pre, tid) + self.T('w %s %s\n' % (reg, self.reg_token(rng, reg)), tid)
        if rng.random() < 0.3:
            other = self.one_line(rng, rng.choice([t for t in self.TIDS if t != tid]))
            out = []
            a, b = list(line), list(other)
            while a or b:
                src = a if (a and (not b or rng.random() < 0.5)) else b
                out.append(src.pop(0))
            return out
        return line

    def thread_pair(self, rng):
        """two complete command lines of two threads about two different sensors"""
        i, j = rng.sample(self.ids, 2)
        def line(sid, tid):
            r = rng.random()
            text = ('r %s' % sid if r < 0.4 else 'w %s %s %s' % (sid, self.val_tok(rng), self.date_tok(rng)) if r < 0.8
                    else rng.choice(['r %s 1 2', 'w %s', 'x%s', 'r  %s ']) % sid)
            return self.T(text + '\n', tid)
        return line(i, 1), line(j, 2)

    def all_queries(self, rng):
        qs = [self.T('r %s\n' % i, rng.choice(self.TIDS)) for i in rng.sample(self.ids, 6)]
        return qs

    def byte_sweep(self):
        out = []
        for v in range(0, 256, 1 if self.thorough else 3):
            c = chr(v)
            out.append(self.T(c + 'r th01\n') + self.T('r' + c + 'th01\n', 2) + self.T('r ' + c + 'h01\n', 3)
                       + self.T('r th01' + c + '\n') + self.T('w ta01 5' + c + '1 d' + c + '\n', 2))
        return out

    # -- C05 -------------------------------------------------------------------
    def reg_token(self, rng, reg):
        return '%s %s' % (self.val_tok(rng), self.date_tok(rng))

    def reg_write(self, reg, tok):
        return self.T('w %s %s\n' % (reg, tok))

    def reg_read(self, reg):
        return self.T('r %s\n' % reg, 2)

    def reg_acked(self, reg, tok, outs):
        return outs[-1][0] == 'R' and outs[-1][1] != self.err

    def reg_enc(self, reg, tok):
        val, date = tok.split()
        try:
            v = float(val)
        except ValueError:
            return ('any',)        # documented by the test-suite: an unparsable value is written as 0.0
        return '<Sensor><Id>%s</Id><Val>%s</Val><Date>%s</Date><Info>%s</Info></Sensor>' % (
            reg, f'{v:0.6f}', date, self.golden[reg])

    def reg_match(self, reg, got, want):
        return True if want == ('any',) else got == want

    def completed(self, stream, outs):
        """(typed text, outcome) of every byte that closed a thread's buffer, segmenting each thread's
        bytes the way the framer does: any outcome other than True (a rejected first / second byte,
        a completed or refused line) restarts that thread's buffer.  Assumes the buffers are empty
        when `stream` starts (the checks resynchronise every thread first)."""
        cur, res = {}, []
        for (tid, ch), o in zip(stream, outs):
            text = cur.get(tid, '') + ch
            if o[0] == 'T':
                cur[tid] = text
            else:
                cur[tid] = ''
                res.append((text, o))
        return res

    def is_write_ack(self, text, o):
        """the reply to a completed `w ...` line that is a sensor record (not the error string)"""
        return o[0] == 'R' and o[1] != self.err and text[:1] == 'w'

    def line_acked(self, line, outs):
        return any(self.is_write_ack(text, o) for text, o in self.completed(line, outs))

    def between_ok(self, reg, between, outs):
        # hypothesis of the read-back statement: no acknowledged write to `reg` in between
        for text, o in self.completed(between, outs):
            if self.is_write_ack(text, o) and (text.strip().split() + ['', ''])[1] == reg:
                return False
        return True

    def non_writing_line(self, rng, reg):
        for _ in range(20):
            r = rng.random()
            other = rng.choice([x for x in self.ids if x != reg])
            c = (self.probe(rng) if r < 0.4 else self.T('w %s %s\n' % (other, self.reg_token(rng, other)), rng.choice(self.TIDS))
                 if r < 0.7 else self.refused_line(rng) if r < 0.85 else self.garbage_line(rng))
            if reg not in ''.join(ch for _, ch in c):
                return c
        return self.probe(rng)

    def write_line(self, rng):
        reg = rng.choice(self.ids)
        return self.T('w %s %s\n' % (reg, self.reg_token(rng, reg)), rng.choice(self.TIDS))

    def echo_ok(self, stream, i, reply, outs=None):
        if reply == self.err:
            return None
        tid = stream[i][0]
        line = ''            # the thread's bytes since its framer was last reset (any outcome but True)
        for j in range(i):
            if stream[j][0] == tid:
                line = line + stream[j][1] if outs[j][0] == 'T' else ''
        args = line.strip().split()
        want = '<Sensor><Id>%s</Id>' % (args[1] if len(args) > 1 else '?')
        if not reply.startswith(want):
            return 'reply %r does not name the sensor of the request %r' % (reply, line)
        return None

    def c05_seeds(self):
        return [('', 'th01', '10.0 20261001', self.T('r th01\n', 3) + self.T('w ta01 1 2\n'))]

    def c05_refused_seeds(self):
        return [([], self.T('w unkn 10.0 2020\n')), ([], self.T('w th01 10.0\n')), ([], self.T('r th01 10.0 2020\n'))]

    def c02_histories(self):
        return [[], self.T('w th01 nan x\n'), self.T('w th01 inf x\n'), self.T('r th'), self.T('w rp01 wrong #\n')]

    def c04_streams(self):
        return [self.T('w th01 1e300 <x>\n') + self.T('r th01\n', 2)]


register(Weather())
