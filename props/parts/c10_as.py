"""C10 part, active surface: command_library.py encoders vs Model/AslEncoder.v (byte for byte),
the real parse of the real encoder bytes vs the line model, and the agreement oracle
(encoder arguments == arguments of the USD method call observed on the real line)."""
from vlib.core import zlit, zlist, blit, optlit
from props import asl_lib as L

PART = dict(name='c10_as', simulator='active_surface', ready=True,
            coq_targets=['Properties/C10_as.vo', 'Corr/AslEncCorr.vo', 'Corr/AslCorr.vo'])

# encoder function name, Coq constructor, argument kind, command code
ENCODERS = [
    ('soft_reset', 'ESoftReset', None, 0x01), ('soft_trigger', 'ESoftTrigger', None, 0x02),
    ('get_version', 'EGetVersion', None, 0x10), ('soft_stop', 'ESoftStop', None, 0x11),
    ('get_position', 'EGetPosition', None, 0x12), ('get_status', 'EGetStatus', None, 0x13),
    ('get_driver_type', 'EGetDriverType', None, 0x14),
    ('set_min_frequency', 'ESetMinFrequency', 'i16', 0x20),
    ('set_max_frequency', 'ESetMaxFrequency', 'i16', 0x21),
    ('set_slope_multiplier', 'ESetSlopeMultiplier', 'i8', 0x22),
    ('set_reference_position', 'ESetReferencePosition', 'i32', 0x23),
    ('set_io_pins', 'ESetIoPins', 'byte', 0x25), ('set_resolution', 'ESetResolution', 'byte', 0x26),
    ('reduce_current', 'EReduceCurrent', 'byte', 0x27),
    ('set_response_delay', 'ESetResponseDelay', 'u8', 0x28),
    ('toggle_delayed_execution', 'EToggleDelayedExecution', 'byte', 0x29),
    ('set_absolute_position', 'ESetAbsolutePosition', 'i32', 0x30),
    ('set_relative_position', 'ESetRelativePosition', 'i32', 0x31),
    ('rotate', 'ERotate', 'i8', 0x32), ('set_velocity', 'ESetVelocity', 'i24', 0x35),
    ('set_stop_io', 'ESetStopIo', 'byte', 0x2A), ('set_positioning_io', 'ESetPositioningIo', 'byte', 0x2B),
    ('set_home_io', 'ESetHomeIo', 'byte', 0x2C), ('set_working_mode', 'ESetWorkingMode', 'byte', 0x2D),
]
WIDTH = dict(i8=8, i16=16, i24=24, i32=32)


def gen(ctx):
    L.gen_tables(ctx)


def in_domain(kind, a):
    if kind is None:
        return True
    if kind in WIDTH:
        w = WIDTH[kind]
        return -(1 << (w - 1)) <= a < (1 << (w - 1))
    if kind == 'u8':
        return 0 <= a <= 255
    return (isinstance(a, str) and ord(a) < 256) or (isinstance(a, int) and 0 <= a <= 255)


def gen_arg(rng, kind, valid=True):
    if kind is None:
        return None
    if kind in WIDTH:
        w = WIDTH[kind]
        lim = 1 << (w - 1)
        if not valid:
            return rng.choice([lim, -lim - 1, lim + 1, 1 << w, -(1 << w), lim * 7])
        extra = [100000, -100000, 100001, -100001, 9, 10, 0] if kind == 'i24' else [20, 10000]
        return rng.choice([0, 1, -1, lim - 1, -lim, rng.randrange(-lim, lim), rng.randrange(-lim, lim)]
                          + [x for x in extra if -lim <= x < lim])
    if kind == 'u8':
        return rng.randrange(256) if valid else rng.choice([-1, 256, 1000])
    # byte: int 0..255 or single character
    if not valid:
        return rng.choice([-1, 256, 70000])
    if rng.random() < 0.25:
        return chr(rng.randrange(256))
    return rng.choice([0, 1, 7, 8, 63, 64, 127, 128, 255, rng.randrange(256)])


def call_encoder(name, arg, idx, aor):
    from simulators.active_surface import command_library as C
    f = getattr(C, name)
    try:
        out = f(usd_index=idx, address_on_response=aor) if arg is None else \
            f(arg, usd_index=idx, address_on_response=aor)
    except Exception:       # noqa  TypeError / ValueError / OverflowError / IndexError
        return None
    return [ord(c) for c in out]


def ecmd_term(ctor, kind, arg):
    if kind is None:
        return ctor
    if kind == 'byte':
        if isinstance(arg, str):
            return '(%s (BChr %s))' % (ctor, zlit(ord(arg)))
        return '(%s (BInt %s))' % (ctor, zlit(arg))
    return '(%s %s)' % (ctor, zlit(arg))


def expected_call(name, kind, arg):
    """the USD method arguments the command must be decoded to (None = refused, no call)"""
    a = ord(arg) if isinstance(arg, str) else arg
    if kind is None:
        return ()
    if name == 'set_slope_multiplier':
        return ((a % 256) + 1,)
    if name == 'set_resolution':
        return (a if a < 8 else None,)
    if name == 'reduce_current':
        return (a >> 6, a & 63)
    if name == 'rotate':
        return ((a > 0) - (a < 0),)
    if name == 'set_velocity':
        return None if abs(a) > 100000 else (a,)
    if name == 'set_working_mode':
        return ([a, 0],)
    return (a,)


def gen_calls(ctx, n_random):
    rng = ctx.rng
    calls = []
    # every encoder x every index and broadcast x both start bytes
    for name, ctor, kind, code in ENCODERS:
        for idx in [None] + list(range(32)):
            for aor in (True, False):
                calls.append((name, ctor, kind, code, gen_arg(rng, kind), idx, aor))
    # every byte value for the one-byte encoders
    for name, ctor, kind, code in ENCODERS:
        if kind in ('byte', 'u8'):
            for v in range(256):
                calls.append((name, ctor, kind, code, v, rng.choice([None, rng.randrange(32)]), rng.random() < 0.5))
        if kind == 'i8':
            for v in range(-128, 128):
                calls.append((name, ctor, kind, code, v, rng.choice([None, rng.randrange(32)]), rng.random() < 0.5))
    for _ in range(n_random):
        name, ctor, kind, code = rng.choice(ENCODERS)
        r = rng.random()
        idx = rng.choice([None, rng.randrange(32)]) if r < 0.9 else rng.choice([-1, 32, 33, 255])
        arg = gen_arg(rng, kind, valid=rng.random() < 0.85)
        calls.append((name, ctor, kind, code, arg, idx, rng.random() < 0.5))
    return calls


def correspondence(ctx):
    rng = ctx.rng
    calls = gen_calls(ctx, ctx.n(600, 20000))
    ecases, lcases = [], []
    for name, ctor, kind, code, arg, idx, aor in calls:
        out = call_encoder(name, arg, idx, aor)
        ecases.append('ECase %s %s %s %s' % (ecmd_term(ctor, kind, arg), optlit(idx), blit(aor),
                                            optlit(out, zlist)))
        ctx.count('c10_as:enc:' + ('ok' if out is not None else 'refused'))
        if out is not None:
            ctx.nontriv(('c10_as', name, repr(arg), idx, aor))
    ctx.sample(ecases[5])
    ctx.run_cases('c10_as_encoders', 'From DS Require Import Model.AslLine Model.AslEncoder Corr.AslEncCorr.',
                  'ecase', 'ok_enc', ecases, show='show_enc', shard=ctx.n(700, 2500))
    # real parse of the real encoder bytes (a few messages per line, random configurations)
    good = [c for c in calls if c[5] is None or 0 <= c[5] <= 31]
    rng.shuffle(good)
    k = 0
    nl = ctx.n(250, 3000)
    while k < len(good) and len(lcases) < nl:
        lo, hi = L.gen_config(rng)
        bs = []
        for name, ctor, kind, code, arg, idx, aor in good[k:k + 4]:
            out = call_encoder(name, arg, idx, aor)
            if out is not None:
                bs += out
        k += 4
        try:
            term, outs, units = L.run_history(lo, hi, [], bs)
        except L.UsdRaised:
            continue
        lcases.append(term)
        ctx.count('c10_as:parse')
    ctx.run_cases('c10_as_parse', L.LINE_IMPORTS, 'lcase', 'ok_line', lcases, show='show_line',
                  shard=ctx.n(60, 300))


# ---------------------------------------------------------------------------------------------

def check_one(w):
    """agreement of one encoder call with the real line"""
    name, kind, code = w['encoder'], w['kind'], w['code']
    arg = w['arg']
    if isinstance(arg, dict):
        arg = chr(arg['chr'])
    idx, aor, lo, hi = w['idx'], w['aor'], w['min'], w['max']
    out = call_encoder(name, arg, idx, aor)
    if out is None:
        return 'encoder refused in-domain arguments'
    exp = expected_call(name, kind, arg)
    with L.frozen_time():
        s = L.make_line(lo, hi)
        # an earlier message built by the encoders (any command, any target) must leave no residue
        L.feed(s, list(bytes.fromhex(w.get('pre', ''))))
        if L.fstate_of(s) != ([], False, 0):
            return 'parser not idle after the preceding encoder message'
        L.spy_on(s)
        outs = L.feed(s, out)
        if any(o != 'T' for o in outs[:-1]):
            return 'not one complete message: outcomes %r' % (outs,)
        if outs[-1] in ('V', 'E', 'B', 'F'):
            return 'message rejected by the simulator: %r' % (outs[-1],)
        if L.fstate_of(s) != ([], False, 0):
            return 'parser not idle after the message'
        logs = L.logs_of(s)
        n = hi - lo + 1
        if len(logs) != n:
            return 'the line has %d units instead of %d' % (len(logs), n)
        if idx is None:
            targets = [] if (code in L.GETTERS or exp is None) else list(range(n))
            if outs[-1] != 'T':
                return 'broadcast answered'
        else:
            targets = [idx - lo] if (lo <= idx <= hi and exp is not None) else []
            if lo <= idx <= hi:
                if s.drivers[idx - lo].delay_multiplier == 255:
                    if outs[-1] != 'T':
                        return 'unit answered although its response delay is 255 (no response)'
                elif not isinstance(outs[-1], list):
                    return 'addressed unit did not answer'
                elif exp is None and outs[-1] != [L.NAK]:
                    return 'out-of-range value not refused with NAK'
            elif outs[-1] != 'T':
                return 'absent unit answered'
        for j in range(n):
            want = [(code, exp)] if j in targets else []
            got = [(c, tuple(a)) for c, a, r, dm in logs[j]]
            if got != [(c, tuple(e)) for c, e in want]:
                return 'unit %d: dispatched %r, intended %r' % (lo + j, got, want)
    return None


def oracle(ctx):
    rng = ctx.rng
    checked = 0
    ws = []
    for name, ctor, kind, code in ENCODERS:
        for idx in [None] + list(range(32)):
            ws.append((name, kind, code, gen_arg(rng, kind), idx, rng.random() < 0.5))
        if kind in ('byte', 'u8'):
            ws += [(name, kind, code, v, rng.choice([None, rng.randrange(32)]), True) for v in range(256)]
        if kind == 'i8':
            ws += [(name, kind, code, v, rng.choice([None, rng.randrange(32)]), True) for v in range(-128, 128)]
        if kind in ('i16', 'i24', 'i32'):
            lim = 1 << (WIDTH[kind] - 1)
            ws += [(name, kind, code, v, rng.choice([None, rng.randrange(32)]), False)
                   for v in (lim - 1, -lim, -1, 255, 256, -256, 65535 % lim, 100000 % lim, -100000 % -lim)]
    for _ in range(ctx.n(500, 15000)):
        name, ctor, kind, code = rng.choice(ENCODERS)
        ws.append((name, kind, code, gen_arg(rng, kind), rng.choice([None, rng.randrange(32)]), rng.random() < 0.5))
    seen = set()
    for name, kind, code, arg, idx, aor in ws:
        if not in_domain(kind, arg):
            continue
        lo, hi = L.gen_config(rng)
        if idx is not None and rng.random() < 0.6:       # mostly address a present unit
            lo, hi = max(0, idx - rng.randrange(3)), min(31, idx + rng.randrange(3))
        w = dict(encoder=name, kind=kind, code=code, arg=({'chr': ord(arg)} if isinstance(arg, str) else arg),
                 idx=idx, aor=aor, min=lo, max=hi, pre='')
        if rng.random() < 0.5:
            pn, pctor, pkind, pcode = rng.choice(ENCODERS)
            parg = gen_arg(rng, pkind)
            pre = call_encoder(pn, parg, rng.choice([None, None, rng.randrange(32)]), rng.random() < 0.5) \
                if in_domain(pkind, parg) else None
            w['pre'] = bytes(pre).hex() if pre else ''
        checked += 1
        bad = check_one(w)
        if bad and (name, bad[:25]) not in seen:
            seen.add((name, bad[:25]))
            ctx.fail('active_surface-encoder-' + name, bad, w)
    ctx.oracle_stats['c10_as'] = dict(checked=checked)
    ctx.evaluations += checked


def replay(ctx, obj):
    w = obj.get('witness') or {}
    if 'encoder' not in w:
        return False
    bad = check_one(w)
    if bad:
        print('  replay:', bad)
    return bool(bad)
