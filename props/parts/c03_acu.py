"""C03 part, ACU (agent Acmd): the command framer of simulators/acu/__init__.py System.parse.

Correspondence: Model/AcmdFrame.v (+ the subsystem effects of Model/AcmdAxis.v, so that the probe
message's answer is compared too) on random / truncated / corrupted / nested-header streams,
followed by the resynchronisation sequence (the declared number of bytes) and a probe message.
Oracle: the C03 statement on the real System."""
import struct

from props import acmd_lib as L
from props import c14

PART = dict(name='c03_acu', simulator='acu', ready=True,
            coq_targets=['Properties/C03_acu.vo', 'Corr/AcmdCorr.vo'])

MAX_WAIT = 4000      # declared lengths above this are not waited out by the harness


def gen(ctx):
    c14.gen(ctx)


def stream(ctx, T, pool):
    """a malformed-biased byte history: pieces of frames, junk, corrupted headers"""
    rng = ctx.rng
    used = []
    out = b''
    tags = []
    for _ in range(rng.randrange(1, 6)):
        r = rng.random()
        if r < 0.25:
            out += bytes(rng.choice([0x1a, 0xcf, 0xfc, 0x1d, 0xd1, 0xa1, rng.randrange(256)])
                         for _ in range(rng.randrange(1, 20)))
            tags.append('junk')
        elif r < 0.4:
            ln = rng.choice([0, 1, 7, 10, 16, 17, 19, 20, 21, 30, 46, 2 ** 31, 2 ** 32 - 1, rng.randrange(0, 200)])
            out += L.START + L.u32(ln) + bytes(rng.randrange(256) for _ in range(rng.choice([0, 1, 3, 4, 9, 12, 30])))
            tags.append('header-len-%s' % ('short' if ln < 20 else 'ok'))
        else:
            m, tag = c14.gen_message(ctx, T, pool, used)
            if rng.random() < 0.3:
                m = m[:rng.randrange(1, len(m) + 1)]
                tag += '+cut'
            out += m
            tags.append(tag)
    return out, tags


def filler(rng, n):
    return bytes(rng.choice([0, 0, 0, 1, 0x20, 0xff, rng.randrange(256)]) for _ in range(n))


def remaining(buf, extra_budget):
    """number of further bytes after which C03 promises the parser has been idle, given the
    bytes `buf` currently buffered (None when the declared length is not known yet)"""
    if len(buf) < 8:
        return None
    return struct.unpack('<I', buf[4:8])[0] - len(buf)


def probe(counter):
    return L.frame(counter, [L.cmd26(1, 1, (counter + 1) % 2 ** 32, 14, 0, 0)])


def fresh_counter(system, rng):
    while True:
        c = rng.randrange(1, 2 ** 32)
        if c != system.cmd_counter:
            return c


def correspondence(ctx):
    T = c14.tables(ctx)
    rng = ctx.rng
    pool = c14.double_pool(T, rng)
    cases = []
    with L.patched() as A:
        for _ in range(ctx.n(200, 3000)):
            data, tags = stream(ctx, T, pool)
            # the resync sequence depends on what the real parser has buffered: run the history
            # once to find it, then record the whole thing as one case
            s = L.new_system(A)
            L.feed(s, data)
            L.take_events()
            buf = s.msg.encode('latin-1')
            ops = [('feed', data)]
            if rng.random() < 0.8:
                need = remaining(buf, 0)
                if buf and need is None:
                    ops.append(('feed', filler(rng, 8 - len(buf))))
                    s2 = L.new_system(A)
                    for o in ops:
                        L.feed(s2, o[1])
                    L.take_events()
                    buf = s2.msg.encode('latin-1')
                    need = remaining(buf, 0)
                    s = s2
                if buf and need is not None and 0 < need <= MAX_WAIT:
                    ops.append(('feed', filler(rng, need)))
                    tags.append('resync')
                s3 = L.new_system(A)
                for o in ops:
                    L.feed(s3, o[1])
                L.take_events()
                if s3.msg == '':
                    ops.append(('feed', probe(fresh_counter(s3, rng))))
                    tags.append('probe')
            rec = L.run_history(A, ops)
            cases.append(L.coq_case(rec))
            for t in set(tags):
                ctx.count('acu:' + t.split('+')[0])
            ctx.nontriv(('c03_acu', data, tuple(len(o[1]) for o in ops)))
    ctx.run_cases('c03_acu_streams', 'From DS Require Import Corr.AcmdCorr.', 'acase', 'ok', cases,
                  show='show', shard=ctx.n(40, 120))


def check_one(A, T, data, fill_seed):
    """C03 on the real System for one byte history; returns (klass, what) or None"""
    import random
    rng = random.Random(fill_seed)
    s = L.new_system(A)
    outs = L.feed(s, data)
    if any(o in (L.O_EXCEPTION, L.O_OTHER) for o in outs):
        return 'acu_parse_unexpected_exception', 'System.parse raised something other than ValueError'
    # impossible length: rejected at byte 8 of the frame (checked on a fresh parser below)
    fed = 0
    buf = s.msg.encode('latin-1')
    m = bytes(buf)
    idle_seen = (s.msg == '')
    while not idle_seen:
        if len(m) >= 8:
            declared = struct.unpack('<I', m[4:8])[0]
            if declared <= len(m):
                return ('acu_not_idle_after_declared_bytes',
                        'parser still busy after the declared number of bytes (declared %d, received %d)'
                        % (declared, len(m)))
            if declared - len(m) > MAX_WAIT:
                return None
        b = filler(rng, 1)
        L.feed(s, b)
        m += b
        fed += 1
        idle_seen = (s.msg == '')
    L.take_events()
    # idle: bytes that cannot start a message are discarded without effect
    snap = (L.axis_snapshot(s.AZ), L.axis_snapshot(s.EL), L.ps_snapshot(s.PS), s.cmd_counter)
    junk = bytes(b for b in filler(rng, 12) if b != T['start_flag'][0])
    o = L.feed(s, junk)
    if any(x != L.O_FALSE for x in o) or s.msg != '' or L.take_events() or \
            snap != (L.axis_snapshot(s.AZ), L.axis_snapshot(s.EL), L.ps_snapshot(s.PS), s.cmd_counter):
        return 'acu_idle_does_not_discard', 'an idle parser did not discard non-start bytes without effect'
    # the next well-formed message is framed and answered as on a fresh parser
    c = fresh_counter(s, rng)
    p = probe(c)
    o = L.feed(s, p)
    ev = L.take_events()
    if any(x != L.O_TRUE for x in o) or s.msg != '' or \
            [(a, b_, cmd) for a, b_, cmd, t, e in ev] != [(1, 1, p[16:42])] or \
            s.AZ.received_mode_command_counter != (c + 1) % 2 ** 32 or s.AZ.received_mode_command_answer != 9:
        return 'acu_probe_not_answered_after_resync', 'a well-formed message after resynchronisation was not executed'
    return None


def check_short_length(A, ln, tail):
    s = L.new_system(A)
    o = L.feed(s, L.START + L.u32(ln))
    if o[:7] != [L.O_TRUE] * 7 or o[7] != L.O_VALUEERROR or s.msg != '':
        return 'acu_impossible_length_not_rejected', \
            'a header declaring total length %d was not rejected at byte 8 with the parser idle' % ln
    return None


def oracle(ctx):
    T = c14.tables(ctx)
    rng = ctx.rng
    pool = c14.double_pool(T, rng)
    n = 0
    with L.patched() as A:
        for ln in list(range(0, 20)):
            bad = check_short_length(A, ln, b'')
            n += 1
            if bad:
                ctx.fail(bad[0], bad[1], dict(kind='short', length=ln))
                break
        for i in range(ctx.n(400, 6000)):
            data, tags = stream(ctx, T, pool)
            seed = rng.randrange(2 ** 30)
            bad = check_one(A, T, data, seed)
            n += 1
            if bad:
                ctx.fail(bad[0], bad[1], dict(kind='stream', history=data.hex(), fill_seed=seed))
                if len(ctx.failures) > 20:
                    break
    ctx.oracle_stats['c03_acu'] = dict(histories=n)
    ctx.evaluations += n


def replay(ctx, obj):
    w = obj.get('witness') or {}
    if not str(obj.get('klass', '')).startswith('acu_'):
        return False
    T = c14.tables(ctx)
    with L.patched() as A:
        if w.get('kind') == 'short':
            return bool(check_short_length(A, w['length'], b''))
        if w.get('kind') == 'stream':
            return bool(check_one(A, T, bytes.fromhex(w['history']), w['fill_seed']))
    return False
