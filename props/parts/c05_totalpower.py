"""C05, totalpower part: acknowledged writes read back; refused writes change nothing (theorems in coq/Properties/C05_totalpower.v over
coq/Model/SmcTotalpower.v; correspondence of the model with the real System; oracle on the real System)."""
from props.parts import smc_lib as L

PART = dict(name='c05_totalpower', simulator='totalpower', ready=True,
            coq_targets=['Properties/C05_totalpower.vo', 'Corr/SmcTotalpowerCorr.vo'])


def correspondence(ctx):
    L.run_corr(ctx, L.TPSim, 'general', 50, 800)


def oracle(ctx):
    L.oracle_c05(ctx, L.TPSim)


def replay(ctx, obj):
    return L.replay_c05(ctx, obj, L.TPSim)
