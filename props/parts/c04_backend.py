"""C04 — backend part (generic backend, sardara, mistral): every reply parses under the reply grammar and names its request.
Theorems: coq/Properties/C04_backend.v over coq/Model/BckModel.v; harness: props/bck_common.py, props/bck_parts.py,
oracle: props/bck_oracle.py (classes C04_CLASSES)."""
from props import bck_parts, bck_oracle

PART = dict(name='c04_backend', simulator='backend', ready=True,
            coq_targets=['Properties/C04_backend.vo', 'Corr/BckCorr.vo'],
            what='every reply parses under the reply grammar and names its request')


def correspondence(ctx):
    bck_parts.part_correspondence(ctx, 'c04', ctx.n(150, 2500))


def oracle(ctx):
    bck_parts.part_oracle(ctx, 'C04', bck_oracle.C04_CLASSES, ctx.n(250, 4000))


def replay(ctx, obj):
    return bck_parts.part_replay(ctx, obj)
