"""C04 part for the wlo simulator (tag Smb): see props/parts/smb_lib.py, coq/Properties/C04_wlo.v."""
from props.parts import smb_lib

PART, correspondence, oracle, replay = smb_lib.part('c04', 'wlo')
