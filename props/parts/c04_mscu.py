"""C04, mscu part: every reply has the protocol terminator / charset shape and echoes what the protocol echoes (theorems in coq/Properties/C04_mscu.v over
coq/Model/SmcMscu.v; correspondence of the model with the real System; oracle on the real System)."""
from props.parts import smc_lib as L

PART = dict(name='c04_mscu', simulator='mscu', ready=True,
            coq_targets=['Properties/C04_mscu.vo', 'Corr/SmcMscuCorr.vo'])


def correspondence(ctx):
    L.run_corr(ctx, L.MSSim, 'general', 40, 600)


def oracle(ctx):
    L.oracle_c04(ctx, L.MSSim)


def replay(ctx, obj):
    return L.replay_generic(ctx, obj, L.MSSim)
