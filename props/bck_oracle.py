"""Bck — property-level oracle over the REAL backend classes (C19 and the backend parts of C02-C05, C07).

`check_script` re-executes a script of events on a fresh instance under the virtual clock and checks, after
every byte and every event, the statements of the Coq theorems transcribed to Python (independent of the
model: own line assembly, own recogniser, own bookkeeping of schedules and registers).  Every failure is a
(klass, what, index) triple; `run` searches random histories, shrinks a hit and reports it through ctx.fail.
"""
import math

from props import bck_common as B

ACK = '$server_shutdown%%%%%'

C19_CLASSES = {
    'backend_no_single_reply', 'backend_reply_grammar', 'backend_reply_empty_argument', 'backend_reply_name',
    'backend_reply_code', 'backend_reply_not_latin1', 'backend_reply_to_reply', 'backend_start_while_acquiring',
    'backend_stop_while_idle', 'backend_past_timestamp_accepted', 'backend_nonfinite_timestamp_accepted',
    'backend_reschedule_not_replaced', 'backend_schedule_timing', 'backend_schedule_effect',
    'backend_mistral_task_guard', 'backend_mistral_task_effect', 'backend_parse_raised',
    'backend_bad_timestamp_accepted', 'backend_refused_changed_state',
}
C02_CLASSES = {'backend_query_not_answered', 'backend_parse_raised'}
C03_CLASSES = {'backend_no_single_reply', 'backend_framing_residue', 'backend_parse_raised'}
C04_CLASSES = {'backend_reply_grammar', 'backend_reply_empty_argument', 'backend_reply_name',
               'backend_reply_code', 'backend_reply_not_latin1'}
C05_CLASSES = {'backend_readback', 'backend_refused_changed_state'}
C07_CLASSES = {'backend_timer_survives_stop', 'backend_stop_ack', 'backend_join_would_block',
               'backend_untracked_timer'}

QUERIES = ['status', 'version', 'time', 'get-configuration', 'get-integration', 'get-filename', 'get-tpi',
           'get-tp0']
TASKS = {'setup': (2, '_running_setup', 60), 'target-sweep': (3, '_running_target_sweep', 300),
         'vna-sweep': (4, '_running_vna_sweep', 300)}


def ts_of(tok, acs):
    """('err',) | ('nonfinite',) | ('fin', key)"""
    try:
        x = float(tok) / acs
    except ValueError:
        return ('err',)
    if not math.isfinite(x):
        return ('nonfinite',)
    return ('fin', B.key_of(x))


def check_script(env, variant, script):
    """returns the list of failures [(klass, what, event index)]"""
    fails = []

    def bad(klass, what, idx):
        fails.append((klass, what, idx))

    h = B.History(env, variant)
    s = h.system
    wheel = env.wheel
    acs = h.acs
    commands = B.GENERIC_COMMANDS + (B.MISTRAL_COMMANDS if variant == 'mistral' else [])
    buf = ''
    sched = {0: None, 1: None}            # expected pending scheduled start / stop (due key)
    regs = dict(conf='unconfigured', fname='', integ='0')
    for idx, e in enumerate(script):
        if e[0] == 'advance':
            t = max(e[1], env.clock.key)
            before = h.snap()
            fired = wheel.advance(t)
            after = h.snap()
            for k in (0, 1):
                exp = sched[k] is not None and sched[k] <= t
                got = [f for f in fired if f[0] == k]
                if exp != (len(got) == 1) or len(got) > 1:
                    bad('backend_schedule_timing',
                        '%s scheduled at %r, clock moved to %r, fired %r' % (B.KIND_NAMES[k], sched[k], t, fired),
                        idx)
                if exp:
                    sched[k] = None
            kinds = [f[0] for f in fired]
            if kinds.count(0) + kinds.count(1) == 1:
                if 0 in kinds and not before['flags'][0] and not after['flags'][0]:
                    bad('backend_schedule_effect', 'scheduled start fired while idle but acquisition did not start',
                        idx)
                if 1 in kinds and before['flags'][0] and after['flags'][0]:
                    bad('backend_schedule_effect', 'scheduled stop fired while acquiring but acquisition goes on',
                        idx)
            if any(d <= t for _, d in after['live']):
                bad('backend_schedule_timing', 'an overdue timer is still pending', idx)
            continue
        if e[0] == 'failure':
            s.failure = bool(e[1])
            continue
        if e[0] == 'stop':
            wheel.blocked_joins = 0
            try:
                ack = s.system_stop()
            except Exception as ex:          # noqa
                bad('backend_stop_ack', 'system_stop raised %s: %s' % (type(ex).__name__, ex), idx)
                continue
            if ack != ACK:
                bad('backend_stop_ack', 'system_stop returned %r' % (ack,), idx)
            if wheel.live:
                bad('backend_timer_survives_stop', 'non-daemon timers alive after system_stop: %r'
                    % [(B.KIND_NAMES[k] if k < 5 else k, d) for k, d in wheel.snapshot()], idx)
            if wheel.blocked_joins:
                bad('backend_join_would_block', 'system_stop joined a timer it had not cancelled', idx)
            sched = {0: None, 1: None}
            continue
        # bytes, one at a time
        for ch in e[1]:
            closing = ch == '\n' and buf.endswith('\r')
            before = h.snap() if closing else None
            now = env.clock.key
            tstr = env.time_str() if closing else None
            try:
                r = s.parse(ch)
            except Exception as ex:          # noqa
                bad('backend_parse_raised', 'parse raised %s: %s' % (type(ex).__name__, ex), idx)
                buf = ''
                continue
            buf += ch
            if not buf.endswith('\r\n'):
                if r is not True:
                    bad('backend_no_single_reply', 'output %r before the line terminator' % (r,), idx)
                continue
            line = buf.strip('\r\n')
            buf = ''
            if getattr(s, 'msg', '') != '':
                bad('backend_framing_residue', 'receive buffer not empty after CR LF: %r' % s.msg, idx)
            after = h.snap()
            kind = B.classify_line(line)
            if kind[0] == 'reply':
                if r is not True:
                    bad('backend_reply_to_reply', 'well-formed reply line %r answered with %r' % (line, r), idx)
                if after != before:
                    bad('backend_reply_to_reply', 'well-formed reply line %r changed the state' % line, idx)
                continue
            if not isinstance(r, str):
                bad('backend_no_single_reply', 'line %r produced %r instead of one reply' % (line, r), idx)
                continue
            if any(ord(c) > 255 for c in r):
                bad('backend_reply_not_latin1', 'reply %r is not transmittable as single bytes' % r, idx)
            p = B.py_reply_ok(r)
            if p is None or not B.GOLD_REPLY_RE.match(r) or r.count('\r\n') != 1:
                if r.endswith(',\r\n') and B.py_reply_ok(r[:-3] + '\r\n'):
                    bad('backend_reply_empty_argument',
                        'reply %r to %r has an empty argument string: rejected by the reply grammar' % (r, line),
                        idx)
                else:
                    bad('backend_reply_grammar', 'reply %r to %r does not parse under the reply grammar'
                        % (r, line), idx)
                continue
            name, code, args = p
            if code not in ('ok', 'fail', 'invalid'):
                bad('backend_reply_code', 'reply %r has code %r' % (r, code), idx)
            if kind[0] == 'bad':
                if name != 'undefined' or code != 'invalid':
                    bad('backend_reply_name', 'unparsable line %r answered %r' % (line, r), idx)
                if after != before:
                    bad('backend_refused_changed_state', 'unparsable line %r changed the state' % line, idx)
                continue
            _, rname, rargs = kind
            if name != rname:
                bad('backend_reply_name', 'request %r answered %r' % (line, r), idx)
                continue
            if code == 'invalid':
                bad('backend_reply_code', 'well-formed request %r answered invalid: %r' % (line, r), idx)
            failure = before['flags'][7]
            # a BackendError reply carries exactly its message; an executed command without return value
            # carries nothing: refused <=> code fail with an argument (for commands that return nothing)
            returns_nothing = rname not in QUERIES
            refused = code == 'fail' and args is not None and (returns_nothing or rname not in commands)
            if rname not in commands:
                if not refused:
                    bad('backend_reply_code', 'unknown command %r answered %r' % (line, r), idx)
                if after != before:
                    bad('backend_refused_changed_state', 'unknown command %r changed the state' % line, idx)
                continue
            if refused and after != before:
                bad('backend_refused_changed_state', 'refused request %r (%r) changed the state: %r -> %r'
                    % (line, r, before, after), idx)
            if not refused and returns_nothing and code != ('fail' if after['flags'][7] else 'ok'):
                bad('backend_reply_code', 'executed request %r answered %r' % (line, r), idx)
            # ---- queries (C02) and read-back (C05)
            if rname in QUERIES:
                exp_code = 'fail' if failure else 'ok'
                acq = '1' if before['flags'][0] else '0'
                exp_args = {'version': '1.2', 'time': tstr, 'get-tp0': '0,0',
                            'get-configuration': regs['conf'], 'get-integration': regs['integ'],
                            'get-filename': regs['fname'] or None}.get(rname, False)
                if code != exp_code or after != before:
                    bad('backend_query_not_answered', 'query %r answered %r (state %s)'
                        % (line, r, 'changed' if after != before else 'unchanged'), idx)
                elif rname == 'status':
                    f = (args or '').split(',')
                    if len(f) != 3 or f[0] != tstr or f[2] != acq or not f[1]:
                        bad('backend_query_not_answered', 'status answered %r (clock %s, acquiring %s)'
                            % (r, tstr, acq), idx)
                elif rname == 'get-tpi':
                    if args is None or len(args.split(',')) != 2:
                        bad('backend_query_not_answered', 'get-tpi answered %r' % r, idx)
                elif exp_args is not False and args != exp_args:
                    klass = 'backend_readback' if rname.startswith('get-') and rname != 'get-tp0' \
                        else 'backend_query_not_answered'
                    bad(klass, 'query %r answered %r, expected arguments %r' % (line, r, exp_args), idx)
                continue
            # ---- registers (C05)
            if rname == 'set-configuration' and not refused:
                regs['conf'] = rargs[0] if rargs else None
            if rname == 'set-filename' and not refused:
                regs['fname'] = rargs[0] if rargs else None
            if rname == 'set-integration' and not refused:
                try:
                    regs['integ'] = str(int(rargs[0]))
                except (ValueError, IndexError):
                    regs['integ'] = None
                    bad('backend_readback', 'set-integration %r acknowledged' % line, idx)
            if rname == 'reset' and not refused:
                regs = dict(conf='unconfigured', fname='', integ='0')
                sched = {0: None, 1: None}
            if (after['conf'], after['fname'], str(after['integ'])) != (regs['conf'], regs['fname'], regs['integ']):
                bad('backend_readback', 'registers after %r (%r): %r, expected %r'
                    % (line, r, (after['conf'], after['fname'], after['integ']), regs), idx)
                regs = dict(conf=after['conf'], fname=after['fname'], integ=str(after['integ']))
            # ---- MISTRAL task guards
            if variant == 'mistral' and rname in ('start', 'setup', 'target-sweep', 'vna-sweep'):
                fl = before['flags']
                busy = fl[0] or fl[4] or fl[5] or fl[6]
                must_refuse = fl[7] or busy or (not fl[3] and rname != 'setup')
                if must_refuse and not refused:
                    bad('backend_mistral_task_guard',
                        '%r accepted (%r) with acquiring=%s setup=%s target=%s vna=%s ready=%s failure=%s'
                        % (line, r, fl[0], fl[4], fl[5], fl[6], fl[3], fl[7]), idx)
                if not must_refuse and rname in TASKS:
                    k, _attr, secs = TASKS[rname]
                    flag_index = {2: 4, 3: 5, 4: 6}[k]
                    if refused or not after['flags'][flag_index] or \
                            (k, now + secs * B.UNITS) not in after['live']:
                        bad('backend_mistral_task_effect', '%r in a ready, idle system answered %r; live %r'
                            % (line, r, after['live']), idx)
                if must_refuse:
                    continue
            # ---- acquisition state machine
            if rname in ('start', 'stop'):
                k = 0 if rname == 'start' else 1
                acquiring = before['flags'][0]
                if not rargs:
                    if k == 0 and acquiring and not refused:
                        bad('backend_start_while_acquiring', '%r while acquiring answered %r' % (line, r), idx)
                    if k == 1 and not acquiring and not refused:
                        bad('backend_stop_while_idle', '%r while idle answered %r' % (line, r), idx)
                    if not refused:
                        if after['flags'][0] != (k == 0):
                            bad('backend_schedule_effect', '%r answered %r, acquiring=%s afterwards'
                                % (line, r, after['flags'][0]), idx)
                    continue
                ts = ts_of(rargs[0], acs)
                if ts[0] == 'err' and not refused:
                    bad('backend_bad_timestamp_accepted', '%r answered %r' % (line, r), idx)
                elif ts[0] == 'nonfinite' and not refused:
                    bad('backend_nonfinite_timestamp_accepted',
                        '%r: a timestamp that is not a finite number was accepted (%r)' % (line, r), idx)
                elif ts[0] == 'fin' and ts[1] < now and not refused:
                    bad('backend_past_timestamp_accepted', '%r at clock key %d answered %r' % (line, now, r), idx)
                elif ts[0] == 'fin' and ts[1] >= now and refused:
                    bad('backend_schedule_effect', 'future timestamp refused: %r answered %r' % (line, r), idx)
                if not refused:
                    mine = [d for kk, d in after['live'] if kk == k]
                    if ts[0] == 'fin' and ts[1] >= now:
                        sched[k] = ts[1]
                        if mine != [ts[1]]:
                            bad('backend_reschedule_not_replaced',
                                'after %r the pending %s timers are due at %r (expected exactly [%r])'
                                % (line, rname, mine, ts[1]), idx)
                    else:
                        sched[k] = None      # accepted although it should not: no expectation
        # end of a bytes event: every live timer must be one the oracle knows about
        live = h.snap()['live']
        for k in (0, 1):
            mine = [d for kk, d in live if kk == k]
            if len(mine) > 1:
                bad('backend_reschedule_not_replaced', 'two %s timers pending: %r' % (B.KIND_NAMES[k], mine), idx)
        if any(k > 4 for k, _ in live):
            bad('backend_untracked_timer', 'a timer with an unknown callback is pending: %r' % live, idx)
    return fails


def script_of(h):
    return [(e[0], e[1]) for e in h.log]


def shrink(env, variant, script, klass, budget=150):
    """greedy: drop events / shorten byte events while a failure of `klass` remains"""
    def fails(sc):
        try:
            return any(f[0] == klass for f in check_script(env, variant, sc))
        except Exception:       # noqa
            return False
    # cut after the failing event
    fl = [f for f in check_script(env, variant, script) if f[0] == klass]
    if fl:
        script = script[:fl[0][2] + 1]
    i = 0
    while i < len(script) and budget > 0:
        cand = script[:i] + script[i + 1:]
        budget -= 1
        if cand and fails(cand):
            script = cand
        else:
            i += 1
    # split multi-line byte events and retry dropping lines
    out = []
    for e in script:
        if e[0] == 'bytes' and e[1].count('\r\n') > 1:
            parts = e[1].split('\r\n')
            out += [('bytes', p + '\r\n') for p in parts[:-1]]
            if parts[-1]:
                out.append(('bytes', parts[-1]))
        else:
            out.append(e)
    if out != script and fails(out):
        script = out
        i = 0
        while i < len(script) and budget > 0:
            cand = script[:i] + script[i + 1:]
            budget -= 1
            if cand and fails(cand):
                script = cand
            else:
                i += 1
    return script


def witness(variant, script, what):
    return dict(simulator='backend', variant=variant,
                script=[[e[0], e[1]] for e in script],
                note='script events: bytes (latin-1 text fed to System.parse one character at a time), '
                     'advance (virtual clock key, 2^-11 s units, epoch key %d), stop (system_stop), '
                     'failure (sets System.failure)' % B.T0_KEY,
                observed=what)


SEEDS = [
    # corpus of the defects found while designing (they must stay fixed)
    ('generic', [('bytes', '?get-filename\r\n')]),
    ('generic', [('bytes', '?set-filename,,x\r\n?get-filename\r\n')]),
    ('generic', [('bytes', '?start,%d\r\n?start\r\n?stop\r\n?start,%d\r\n'
                  % ((1000 + 50) * 10000000, (1000 + 60) * 10000000)), ('stop', None)]),
    ('generic', [('bytes', '?start,%d\r\n?start\r\n?stop\r\n?start,%d\r\n'
                  % ((1000 + 50) * 10000000, (1000 + 60) * 10000000)),
                 ('advance', B.T0_KEY + 55 * B.UNITS), ('advance', B.T0_KEY + 65 * B.UNITS)]),
    ('sardara', [('bytes', '?start,nan\r\n'), ('advance', B.T0_KEY + 2)]),
    ('generic', [('bytes', '?stop,inf\r\n'), ('stop', None)]),
    ('mistral', [('bytes', '?setup\r\n'), ('advance', B.T0_KEY + 60 * B.UNITS),
                 ('bytes', '?start,%d\r\n?reset\r\n' % ((1000 + 500) * 10000000)), ('stop', None)]),
    ('mistral', [('bytes', '?setup\r\n'), ('advance', B.T0_KEY + 60 * B.UNITS),
                 ('bytes', '?target-sweep\r\n?vna-sweep\r\n?start\r\n?setup\r\n'),
                 ('advance', B.T0_KEY + 360 * B.UNITS), ('bytes', '?start\r\n?target-sweep\r\n'), ('stop', None)]),
]


def run(ctx, pid, classes, n, length=(10, 28)):
    """search: seeds, then random histories; reports the first (shrunk) failure of every class"""
    rng = ctx.rng
    seen = set()
    checked = 0
    lines = 0
    with B.Env() as env:
        def consider(variant, script):
            nonlocal checked
            checked += 1
            try:
                fl = check_script(env, variant, script)
            except Exception as ex:         # noqa
                import traceback
                fl = [('backend_parse_raised', 'harness/implementation raised: ' +
                       traceback.format_exc()[-400:], len(script) - 1)]
            for klass, what, idx in fl:
                if klass not in classes or klass in seen:
                    continue
                seen.add(klass)
                small = shrink(env, variant, script, klass)
                fl2 = [f for f in check_script(env, variant, small) if f[0] == klass]
                ctx.fail(klass, (fl2[0][1] if fl2 else what)[:600], witness(variant, small, (fl2[0][1] if fl2 else what)[:600]))
        for variant, script in SEEDS:
            consider(variant, script)
        for i in range(n):
            variant = B.VARIANTS[i % 3] if i % 5 else 'mistral'
            h = B.History(env, variant)
            if variant == 'mistral' and rng.random() < 0.6:
                B.mistral_warmup(rng, h)
            h0 = h
            try:
                h = B.gen_history(rng, env, variant, rng.randrange(*length), h=h,
                                  p_stop=0.06 if pid == 'C07' else 0.04)
            except Exception:       # noqa
                # the implementation raised while the history was being generated (it is executed as it is
                # drawn): the events so far plus the bytes being fed are a complete failing script
                sc = script_of(h0)
                if getattr(h0, 'last_attempt', None):
                    sc.append(('bytes', h0.last_attempt))
                consider(variant, sc)
                continue
            if pid == 'C07' or rng.random() < 0.5:
                h.stop()
            sc = script_of(h)
            lines += sum(e[1].count('\r\n') for e in sc if e[0] == 'bytes')
            consider(variant, sc)
    ctx.oracle_stats = dict(ctx.oracle_stats, **{'%s_histories_checked' % pid: checked,
                                                  '%s_lines' % pid: lines})
    ctx.evaluations += checked


def replay(obj):
    w = obj.get('witness') or {}
    if w.get('simulator') != 'backend':
        return False
    klass = obj.get('klass')
    script = [tuple(e) for e in w['script']]
    with B.Env() as env:
        fl = check_script(env, w['variant'], script)
    for f in fl:
        if f[0] == klass:
            print('  replay: %s: %s' % (f[0], f[1][:300]))
            return True
    return False
