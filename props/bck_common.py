"""Bck — shared harness for the backend simulators (C19 and the backend parts of C02-C05, C07).

Drives the REAL classes (genericbackend.GenericBackendSystem, sardara.System, mistral.System) on a virtual
clock: the module attributes `time`, `random`, `Timer` of simulators.backend.genericbackend / mistral are
replaced, for the duration of a run, by a frozen clock, a constant random source and a virtual timer wheel.
Nothing sleeps, no thread is started, nothing in /repo is edited.

Model time (coq/Model/BckModel.v) is an integer key in units of 2^-11 s.  The virtual clock only takes even
keys (multiples of 2^-10 s, exactly representable, differences and sums exact in binary64).  A float
timestamp x (seconds) is mapped to key(x) = 2*floor(1024 x) + [1024 x is not an integer]: an
order-preserving map, so `x < now`, `x <= now` agree with the integer comparisons of the model.
"""
import contextlib
import math
import re
import types
from fractions import Fraction

from vlib.core import zlit, zlist, blit, optlit

UNITS = 2048                     # model keys per second
T0_KEY = 1000 * UNITS            # virtual epoch of every history: 1000 s
MAX_KEY = 2 ** 36                # the virtual clock stays below 2^25 s (exact floats, small literals)
VARIANTS = ('generic', 'sardara', 'mistral')
KINDS = {'_start_now': 0, '_stop_now': 1, '_setup': 2, '_target_sweep': 3, '_vna_sweep': 4}
KIND_NAMES = ['start', 'stop', 'setup', 'target-sweep', 'vna-sweep']
TPI = (0.25, 0.5)                # masked random.random() values, used alternately

# the reply grammar the property refers to (Model/BckGolden.v reply_re), the harness's own copy
GOLD_REPLY_RE = re.compile(r'^(?P<type>\!)(?P<name>[a-zA-Z][a-zA-Z0-9-]*),(?P<code>(ok|fail|invalid))'
                           r'(,(?P<arguments>[^\r\n]+))?(?P<linefeed>\r\n)?$')
GOLD_REQUEST_RE = re.compile(r'^(?P<type>\?)(?P<name>[a-zA-Z][a-zA-Z0-9-]*)(,(?P<arguments>[^\r\n]+))?'
                             r'(?P<linefeed>\r\n)?$')
GENERIC_COMMANDS = ['status', 'version', 'get-configuration', 'set-configuration', 'set-integration',
                    'get-integration', 'set-section', 'get-tpi', 'get-tp0', 'cal-on', 'set-enable', 'time',
                    'start', 'stop', 'set-filename', 'get-filename', 'convert-data']
MISTRAL_COMMANDS = ['setup', 'target-sweep', 'vna-sweep', 'reset']


def key_of(x):
    """order-preserving integer key of a finite float/Fraction of seconds"""
    fr = Fraction(x) * 1024
    fl = math.floor(fr)
    return 2 * fl + (0 if fr == fl else 1)


class Clock:
    def __init__(self, key=T0_KEY):
        assert key % 2 == 0
        self.key = key

    def time(self):
        return (self.key // 2) / 1024.0


class VTimer:
    """stand-in for threading.Timer on the wheel of the current Env"""
    wheel = None

    def __init__(self, interval, function, args=None, kwargs=None):
        self.interval = interval
        self.function = function
        self.args = args or []
        self.kwargs = kwargs or {}
        self.state = 'new'
        self.daemon = False
        self.due = None
        self.seq = None
        self.weird = False
        self.wheel = VTimer.wheel

    def start(self):
        if self.state != 'new':
            raise RuntimeError('threads can only be started once')
        w = self.wheel
        w.seq += 1
        self.seq = w.seq
        iv = self.interval
        # non-finite or negative intervals are not produced by the fixed code; such timers are exempt from
        # the exactness bookkeeping so that the case is compared (and mismatches) rather than skipped
        self.weird = isinstance(iv, float) and (not math.isfinite(iv) or iv < 0)
        if isinstance(iv, float) and math.isnan(iv):
            # Event.wait(nan) returns at once: the real Timer fires immediately
            self.due = w.clock.key
        elif isinstance(iv, float) and math.isinf(iv):
            # +inf: the real timer thread dies with OverflowError and never fires; -inf: fires at once
            if iv > 0:
                self.state = 'dead'
                return
            self.due = w.clock.key
        else:
            # like threading.Timer: the deadline is the float sum clock + interval
            self.due = max(key_of(w.clock.time() + iv), w.clock.key)
        self.state = 'live'
        w.live.append(self)

    def cancel(self):
        if self.state == 'live':
            self.state = 'cancelled'
            self.wheel.live.remove(self)

    def join(self, timeout=None):
        if self.state == 'live':
            # a real join() would block until the timer fires
            self.wheel.blocked_joins += 1

    def is_alive(self):
        return self.state == 'live'

    def kind(self):
        return KINDS.get(getattr(self.function, '__name__', ''), 9)


class Wheel:
    def __init__(self, clock):
        self.clock = clock
        self.live = []
        self.seq = 0
        self.blocked_joins = 0

    def advance(self, key):
        """move the clock to `key` (even), firing every due timer: earliest first, creation order on ties.
        Returns [(kind, returned_normally)]."""
        assert key % 2 == 0 and key >= self.clock.key
        fired = []
        due = sorted([t for t in self.live if t.due <= key], key=lambda t: (t.due, t.seq))
        for t in due:
            if t.state != 'live':
                continue
            self.live.remove(t)
            t.state = 'fired'
            try:
                t.function(*t.args, **t.kwargs)
                fired.append((t.kind(), True))
            except Exception:       # in a real timer thread: printed by threading.excepthook, thread ends
                fired.append((t.kind(), False))
        self.clock.key = key
        return fired

    def snapshot(self):
        return [(t.kind(), t.due) for t in sorted(self.live, key=lambda t: t.seq)]

    def regular_dues(self):
        """due keys of the live start/stop timers created with a finite interval"""
        return [t.due for t in self.live if t.kind() in (0, 1) and not t.weird]


class Env:
    """context manager: virtual clock / wheel / masked random installed in the backend modules"""

    def __enter__(self):
        from simulators.backend import genericbackend as gb, mistral
        self.gb, self.mistral = gb, mistral
        self.saved = (gb.time, gb.random, gb.Timer, mistral.Timer)
        self.clock = Clock()
        self.wheel = Wheel(self.clock)
        self._tpi = 0

        def rnd():
            self._tpi += 1
            return TPI[(self._tpi - 1) % 2]
        VTimer.wheel = self.wheel
        gb.time = types.SimpleNamespace(time=self.clock.time)
        gb.random = types.SimpleNamespace(random=rnd)
        gb.Timer = VTimer
        mistral.Timer = VTimer
        return self

    def __exit__(self, *exc):
        gb, mistral = self.gb, self.mistral
        gb.time, gb.random, gb.Timer, mistral.Timer = self.saved
        VTimer.wheel = None
        return False

    def make(self, variant):
        self._tpi = 0
        if variant == 'generic':
            return self.gb.GenericBackendSystem()
        if variant == 'sardara':
            from simulators.backend import sardara
            return sardara.System()
        return self.mistral.System()

    def time_str(self):
        return self.gb.GenericBackendSystem._get_time()


def snapshot(system, wheel):
    g = lambda n: bool(getattr(system, n, False))     # noqa: E731
    flags = [g('acquiring'), g('_waiting_for_start_time'), g('_waiting_for_stop_time'), g('ready'),
             g('_running_setup'), g('_running_target_sweep'), g('_running_vna_sweep'), g('failure')]
    integ = system.integration
    il = system.interleave
    if isinstance(integ, bool) or not isinstance(integ, int) or isinstance(il, bool) or not isinstance(il, int):
        raise TypeError('integration/interleave are no longer ints: %r %r' % (integ, il))
    return dict(flags=flags, conf=str(system.configuration_string), fname=str(system._filename),
                integ=integ, il=il, live=wheel.snapshot())


def feed(system, data):
    """data: str of code points 0..255.  Returns [(index, reply)]; anything else than True / a str reply
    raises."""
    outs = []
    for i, ch in enumerate(data):
        r = system.parse(ch)
        if r is True:
            continue
        if isinstance(r, str):
            outs.append((i, r))
        else:
            raise TypeError('parse returned %r' % (r,))
    return outs


# ---------------------------------------------------------------------------
# oracles (Python builtins on tokens)

def tok_oracle(tok, acs):
    try:
        i = int(tok)
    except ValueError:
        i = None
    try:
        f = float(tok)
    except ValueError:
        f = None
    if f is None:
        fl, ts = 'FErr', 'TsErr'
    else:
        if math.isnan(f):
            fl = 'FNaN'
        elif math.isinf(f):
            fl = 'FPInf' if f > 0 else 'FNInf'
        else:
            n, d = f.as_integer_ratio()
            fl = '(FFin %s %s)' % (zlit(n), zlit(d))
        x = f / acs
        if math.isnan(x):
            ts = 'TsNaN'
        elif math.isinf(x):
            ts = 'TsPInf' if x > 0 else 'TsNInf'
        else:
            ts = '(TsFin %s)' % zlit(key_of(x))
    return '(%s, %s, %s)' % (optlit(i), fl, ts)


def tokens_of(data):
    """argument tokens of every CRLF-terminated piece of `data` that starts like a request"""
    toks = []
    for piece in re.split('\r\n', data):
        piece = piece.strip('\r\n')
        if piece.startswith('?') and ',' in piece:
            for t in piece.split(',')[1:]:
                if t not in toks:
                    toks.append(t)
    return toks


# ---------------------------------------------------------------------------
# Coq rendering

def zs(s):
    return zlist([ord(c) for c in s])


def snap_term(sn):
    return '(Sn [%s] %s %s %s %s [%s])' % (
        '; '.join(blit(b) for b in sn['flags']), zs(sn['conf']), zs(sn['fname']), zlit(sn['integ']),
        zlit(sn['il']), '; '.join('(%s, %s)' % (zlit(k), zlit(d)) for k, d in sn['live']))


class History:
    """runs one history on the implementation and records the Coq case"""

    def __init__(self, env, variant):
        self.env = env
        self.variant = variant
        env.clock.key = T0_KEY
        env.wheel.live[:] = []
        env.wheel.blocked_joins = 0
        self.system = env.make(variant)
        self.evs = []
        self.toks = []
        self.times = {}
        self.log = []                 # python-level record for the oracle / replays
        self.ts_keys = set()
        self.inexact = False
        self.note_time()
        self.acs = env.gb.ACS_TO_UNIX_TIME

    def note_time(self):
        self.times[self.env.clock.key] = self.env.time_str()

    def snap(self):
        return snapshot(self.system, self.env.wheel)

    def bytes(self, data):
        for t in tokens_of(self.pending_prefix() + data):
            if t not in self.toks:
                self.toks.append(t)
        self.last_attempt = data        # kept for the oracle when parse raises inside feed
        outs = feed(self.system, data)
        self.last_attempt = None
        sn = self.snap()
        for t in self.toks:
            try:
                x = float(t) / self.acs
            except ValueError:
                continue
            if math.isfinite(x):
                self.ts_keys.add(key_of(x))
        if any(d not in self.ts_keys for d in self.env.wheel.regular_dues()):
            self.inexact = True
        self.evs.append('XBytes %s [%s] %s' % (
            zs(data), '; '.join('(%s, %s)' % (zlit(i), zs(r)) for i, r in outs), snap_term(sn)))
        self.log.append(('bytes', data, outs, sn))
        return outs

    def pending_prefix(self):
        return getattr(self.system, 'msg', '')

    def advance(self, key):
        fired = self.env.wheel.advance(key)
        self.note_time()
        sn = self.snap()
        self.evs.append('XAdvance %s [%s] %s' % (
            zlit(key), '; '.join('(%s, %s)' % (zlit(k), blit(b)) for k, b in fired), snap_term(sn)))
        self.log.append(('advance', key, fired, sn))
        return fired

    def stop(self):
        ack = self.system.system_stop()
        sn = self.snap()
        self.evs.append('XStop %s %s' % (zs(ack if isinstance(ack, str) else repr(ack)), snap_term(sn)))
        self.log.append(('stop', None, ack, sn))
        return ack

    def set_failure(self, f):
        self.system.failure = f
        sn = self.snap()
        self.evs.append('XSetFailure %s %s' % (blit(f), snap_term(sn)))
        self.log.append(('failure', f, None, sn))

    def exact(self):
        """False when a live start/stop timer (finite interval) is not due exactly at the key of one of the
        case's timestamp tokens: the float subtraction/addition of the interval was inexact (timestamps
        beyond 2^43 s).  Such a case is skipped and counted, not compared."""
        return not self.inexact

    def term(self):
        v = VARIANTS.index(self.variant)
        toks = '; '.join('(%s, %s)' % (zs(t), tok_oracle(t, self.acs)) for t in self.toks)
        times = '; '.join('(%s, %s)' % (zlit(k), zs(s)) for k, s in sorted(self.times.items()))
        return 'BHist %d %s [%s] [%s] %s %s [\n  %s]' % (
            v, zlit(T0_KEY), toks, times, zs(str(TPI[0] * 100)), zs(str(TPI[1] * 100)),
            ';\n  '.join(self.evs))


# ---------------------------------------------------------------------------
# generators

def ts_token(rng, key):
    """a decimal token whose float()/ACS value has exactly the (even) key `key`, in several spellings"""
    assert key % 2 == 0
    v = Fraction(key // 2, 1024) * 10000000          # exact decimal with <= 3 fractional digits
    n, d = v.numerator, v.denominator
    whole, rem = divmod(n, d)
    frac = ('%03d' % (rem * 1000 // d)).rstrip('0')
    s = '%d.%s' % (whole, frac) if frac else '%d' % whole
    style = rng.randrange(8)
    if style == 0 and not frac:
        s = s + '.0'
    elif style == 1:
        s = '+' + s
    elif style == 2:
        s = ' ' + s + ' '
    elif style == 3 and not frac:
        s = s + 'e0'
    elif style == 4 and not frac and len(s) > 4:
        s = s[:-3] + '_' + s[-3:]
    elif style == 5:
        s = '0' + s
    return s


def offgrid_token(rng, key):
    """a token whose timestamp lies strictly between two clock instants (odd key `key`)"""
    assert key % 2 == 1
    sec = Fraction(key - 1, 2048) + Fraction(rng.choice([1, 3, 5]), 10000)   # < 2^-10 s above the grid
    v = sec * 10000000
    return '%d' % (v.numerator // v.denominator)


BAD_TS = ['nan', 'NaN', '-nan', 'inf', '-inf', 'Infinity', '+inf', '1e400', '-1e400', 'abc', '', ' ', '1,2',
          '0x10', '--5', '1e', '1.2.3', '\xa0', '12\xa0', '\xb2', '1e308', '-0', '0', '1', '1e-400',
          '9' * 30]
INT_TOKS = ['0', '1', '5', '6', '7', '13', '14', '15', '-1', '-0', '+3', ' 4 ', '1_0', '007', '2000', '2001',
            '1.0', '1e3', 'abc', '', '*', '**', ' *', '0x1F', '9' * 25, '-' + '9' * 25, '\xb2', '4\n',
            'inf', '-inf', 'nan', 'Infinity', '1e999', '10.0']
FLT_TOKS = ['0', '1.5', '2000', '2000.0', '2000.0000001', '2001', '1e3', '1e4', '-5', 'nan', 'inf', '-inf',
            '1e400', 'abc', '', '*', '1_000.5', ' 7 ', '.5', '5.', '0x1p3', '1e-400', 'Infinity', '-nan']
NAMES_OTHER = ['foo', 'Status', 'STATUS', 'statuss', 'get', 'a', 'z9', 'a-', 'a--b', 'start-', 'stop1', 'get_tpi', 'a_b',
               'undefined', 'set-section-', 'reset', 'setup', 'target-sweep', 'vna-sweep', 'x' * 40]
CONFS = ['valid', 'x', '9', 'K', 'KKC', 'Zband', 'zBand', '_a', '-a', ' a', '', 'a b', 'a\x00b', '\xe9t\xe9',
         '0', 'unconfigured', '*', 'A' * 30, 'k' * 30, '\x7f', '!x', '?x']
FILES = ['file.fits', 'a', '', ' ', '/tmp/x,y', 'x' * 50, '\xff\xfe', 'a\tb', '!f', '?f', '\x00']


def rand_token(rng):
    r = rng.random()
    if r < 0.3:
        return rng.choice(INT_TOKS)
    if r < 0.55:
        return rng.choice(FLT_TOKS)
    if r < 0.7:
        return rng.choice(CONFS)
    if r < 0.8:
        return rng.choice(BAD_TS)
    n = rng.randrange(0, 6)
    return ''.join(chr(rng.choice([rng.randrange(256), rng.randrange(32, 127)])) for _ in range(n)) \
        .replace('\r', 'r').replace('\n', 'n').replace(',', ';')


def time_arg(rng, hist):
    """timestamp argument for ?start/?stop relative to the current virtual time and the pending timers"""
    now = hist.env.clock.key
    r = rng.random()
    if r < 0.12:
        return rng.choice(BAD_TS)
    deltas = [-UNITS * 5, -2, 0, 2, 4, UNITS // 2, UNITS, 3 * UNITS, 10 * UNITS, 59 * UNITS, 60 * UNITS,
              61 * UNITS, 300 * UNITS, 400 * UNITS]
    key = now + rng.choice(deltas)
    if r < 0.22:
        live = [t for t in hist.env.wheel.snapshot() if t[1] < MAX_KEY]
        if live:
            key = rng.choice(live)[1] + rng.choice([-2, 0, 2])
            key += key % 2
    if r > 0.93:
        key = key - (key % 2) + 1
        return offgrid_token(rng, key)
    key -= key % 2
    if key < 0:
        key = 0
    return ts_token(rng, key)


def request_line(rng, hist):
    """a request from the grammar: known and unknown names, argument lists of every length"""
    variant = hist.variant
    names = GENERIC_COMMANDS + (MISTRAL_COMMANDS if variant == 'mistral' or rng.random() < 0.15 else [])
    r = rng.random()
    if r < 0.08:
        name = rng.choice(NAMES_OTHER)
    else:
        w = []
        for n in names:
            w.append(4 if n in ('start', 'stop') else 3 if n in MISTRAL_COMMANDS else
                     2 if n.startswith('set-') or n == 'status' else 1)
        name = rng.choices(names, w)[0]
    args = []
    if name in ('start', 'stop'):
        if rng.random() < 0.55:
            args = [time_arg(rng, hist)]
            if rng.random() < 0.1:
                args.append(rand_token(rng))
    elif name == 'set-configuration':
        args = [rng.choice(CONFS)] if rng.random() < 0.9 else []
    elif name == 'set-integration':
        args = [rng.choice(INT_TOKS)] if rng.random() < 0.9 else []
    elif name == 'cal-on':
        args = [rng.choice(INT_TOKS)] if rng.random() < 0.7 else []
    elif name == 'set-filename':
        args = [rng.choice(FILES)] if rng.random() < 0.9 else []
        if rng.random() < 0.2:
            args.append(rng.choice(FILES))
    elif name == 'set-enable':
        args = [rng.choice(INT_TOKS[:12] if rng.random() < 0.7 else INT_TOKS)
                for _ in range(rng.choice([0, 1, 2, 2, 2, 2, 3]))]
    elif name == 'set-section':
        k = rng.choice([0, 3, 6, 7, 7, 7, 7, 7, 8])
        good = [['0', '5', '14', '15', '*', '13'], ['0', '1.5', '*', '100'], ['2000', '2000.0000001', '*', '10',
                'nan', 'inf', '1e3'], ['0', '*', '3'], ['xx', '*', ''], ['0.5', '*', '1e-3'], ['1', '*', '1024']]
        for j in range(k):
            pool = good[j] if j < 7 and rng.random() < 0.8 else (INT_TOKS if j in (0, 3, 6) else FLT_TOKS)
            args.append(rng.choice(pool))
    elif rng.random() < 0.2:
        args = [rand_token(rng) for _ in range(rng.randrange(1, 4))]
    if any(',' in a for a in args):
        pass                                # a comma inside a token simply splits it: still a valid line
    line = '?' + name + ''.join(',' + a for a in args)
    return line


def reply_line(rng):
    name = rng.choice(GENERIC_COMMANDS + NAMES_OTHER)
    code = rng.choice(['ok', 'fail', 'invalid'])
    args = ''
    if rng.random() < 0.6:
        args = ',' + ','.join(rand_token(rng) for _ in range(rng.randrange(1, 4)))
    return '!' + name + ',' + code + args


def malformed_line(rng, hist):
    """lines outside the grammar, over the full byte alphabet (no CR LF pair inside)"""
    k = rng.randrange(14)
    if k == 0:
        s = ''
    elif k == 1:
        s = ''.join(chr(rng.randrange(256)) for _ in range(rng.randrange(1, 30)))
    elif k == 2:
        s = rng.choice('&#$ \x00\xff,;-9aZ') + rng.choice(GENERIC_COMMANDS)
    elif k == 3:
        s = '?' + rng.choice(['', '9abc', '-a', ',a', ' status', '\xe9', '?status', '!status'])
    elif k == 4:
        s = '?' + rng.choice(GENERIC_COMMANDS) + rng.choice([' ', ';', ', ', ',', ',,', '\t', '\x00', ':'])
    elif k == 5:
        s = '!' + rng.choice(GENERIC_COMMANDS) + rng.choice(['', ',', ',okay', ',OK', ',ok ', ',ok,', ',fail;',
                                                             ',invalid,', ',ok\rx', ',o', ',okfail', ' ,ok'])
    elif k == 6:
        base = request_line(rng, hist)
        i = rng.randrange(len(base) + 1)
        s = base[:i] + rng.choice(['\r', '\n', '\n\r', '\r\r', '\x0b', '\x85']) + base[i:]
    elif k == 7:
        s = rng.choice(['\r', '\n', '\n\n', '\r\r', '\n\r']) + request_line(rng, hist)
    elif k == 8:
        s = request_line(rng, hist) + rng.choice(['\r', '\n', '\n\n', '\r\r', '\n\r'])
    elif k == 9:
        base = request_line(rng, hist)
        i = rng.randrange(len(base))
        s = base[:i] + chr(rng.randrange(256)) + base[i + 1:]
    elif k == 10:
        s = reply_line(rng).replace('!', rng.choice(['!!', '! ', '']), 1)
    elif k == 11:
        s = '?' + ''.join(rng.choice('abcXYZ019-_') for _ in range(rng.randrange(1, 12)))
    elif k == 12:
        s = rng.choice(['?', '!', ',', '?,', '!,', '?a,', '!a,ok,', '?a,\r', '?a,b\n,c'])
    else:
        s = ''.join(rng.choice('?!,ab-1\r\n \xff') for _ in range(rng.randrange(1, 16)))
    return s.replace('\r\n', '\n\r')


def next_line(rng, hist, p_bad=0.22, p_reply=0.1):
    r = rng.random()
    if r < p_bad:
        return malformed_line(rng, hist)
    if r < p_bad + p_reply:
        return reply_line(rng)
    return request_line(rng, hist)


def advance_target(rng, hist):
    now = hist.env.clock.key
    live = [t for t in hist.env.wheel.snapshot() if t[1] < MAX_KEY]
    r = rng.random()
    if live and r < 0.6:
        due = rng.choice(live)[1]
        if due % 2:
            key = due + rng.choice([-1, 1, 1])
        else:
            key = due + rng.choice([-2, 0, 0, 0, 2])
    else:
        key = now + rng.choice([0, 2, UNITS // 4, UNITS, 5 * UNITS, 60 * UNITS, 61 * UNITS, 299 * UNITS,
                                300 * UNITS, 1000 * UNITS])
    key -= key % 2
    return min(max(key, now), max(now, MAX_KEY))


def register_line(rng, hist):
    """set/get of the registers that have a read-back path, reset, and a few bystanders (C05)"""
    r = rng.random()
    if r < 0.2:
        return '?set-configuration' + (',' + rng.choice(CONFS) if rng.random() < 0.95 else '')
    if r < 0.4:
        return '?set-filename' + (',' + rng.choice(FILES) if rng.random() < 0.95 else '')
    if r < 0.6:
        return '?set-integration' + (',' + rng.choice(INT_TOKS) if rng.random() < 0.95 else '')
    if r < 0.8:
        return rng.choice(['?get-configuration', '?get-filename', '?get-integration'])
    if r < 0.85:
        return '?reset'
    return request_line(rng, hist)


def query_block():
    """every query of the catalogue, each on its own line (C02)"""
    return ''.join('?%s\r\n' % q for q in ('status', 'version', 'time', 'get-configuration', 'get-integration',
                                            'get-filename', 'get-tpi', 'get-tp0'))


def scenario(rng, hist):
    """short scripted command sequences around re-scheduling (lines; the caller terminates them)"""
    now = hist.env.clock.key
    t1 = ts_token(rng, now + rng.choice([2, UNITS, 30 * UNITS]))
    t2 = ts_token(rng, now + rng.choice([4, 2 * UNITS, 40 * UNITS]))
    k = rng.randrange(8)
    if k == 0:
        return ['?start,' + t1, '?start', '?start,' + t2]
    if k == 1:
        return ['?start,' + t1, '?start', '?stop', '?start,' + t2]
    if k == 2:
        return ['?start', '?stop,' + t1, '?stop', '?start', '?stop,' + t2]
    if k == 3:
        return ['?start,' + t1, '?start,' + t2, '?start,' + t1]
    if k == 4:
        return ['?stop,' + t1, '?stop,' + t2]
    if k == 5:
        return ['?start,' + t1, '?stop,' + t2, '?reset']
    if k == 6:
        return ['?start,' + t2, '?stop,' + t1]
    return ['?start', '?stop,' + t1, '?start,' + t2]


def gen_history(rng, env, variant, length, p_stop=0.04, p_fail=0.03, chunked=0.25, h=None, p_bad=0.22,
                p_reply=0.1, p_reg=0.0):
    """one random history (continuing `h` when given); returns the History"""
    if h is None:
        h = History(env, variant)

    def line():
        if rng.random() < p_reg:
            return register_line(rng, h)
        return next_line(rng, h, p_bad, p_reply)
    carry = ''
    for _ in range(length):
        r = rng.random()
        if r < 0.2:
            h.advance(advance_target(rng, h))
        elif r < 0.2 + p_stop:
            h.stop()
        elif r < 0.2 + p_stop + p_fail or (h.system.failure and rng.random() < 0.3):
            h.set_failure(not h.system.failure)
        else:
            if rng.random() < 0.08:
                data = carry + ''.join(x + '\r\n' for x in scenario(rng, h))
            else:
                data = carry + line() + '\r\n'
            carry = ''
            if rng.random() < 0.1:
                data += line() + '\r\n'
            if rng.random() < chunked and len(data) > 3:
                i = rng.randrange(1, len(data))
                h.bytes(data[:i])
                if rng.random() < 0.5:
                    h.advance(advance_target(rng, h))
                carry = data[i:]
            else:
                h.bytes(data)
    if carry:
        h.bytes(carry)
    return h


def mistral_warmup(rng, h):
    """bring a MISTRAL instance to `ready` (setup + its timer) so that guarded commands are reachable"""
    h.bytes('?setup\r\n')
    h.advance(h.env.clock.key + 60 * UNITS + rng.choice([0, 2, UNITS]))


# ---------------------------------------------------------------------------
# Python twins of the specification (used by the oracles)

def py_reply_ok(reply):
    """independent recogniser of a reply LINE (with its CR LF): returns (name, code, args-or-None) or None"""
    if not isinstance(reply, str) or not reply.endswith('\r\n'):
        return None
    body = reply[:-2]
    if not body.startswith('!'):
        return None
    i = 1
    if i >= len(body) or not (body[i].isascii() and body[i].isalpha()):
        return None
    j = i + 1
    while j < len(body) and body[j].isascii() and (body[j].isalnum() or body[j] == '-'):
        j += 1
    name = body[i:j]
    rest = body[j:]
    if not rest.startswith(','):
        return None
    rest = rest[1:]
    for code in ('ok', 'fail', 'invalid'):
        if rest.startswith(code):
            tail = rest[len(code):]
            if tail == '':
                return name, code, None
            if tail.startswith(',') and len(tail) > 1 and '\r' not in tail and '\n' not in tail:
                return name, code, tail[1:]
    return None


def classify_line(line):
    """what a stripped line is under the Golden grammar: ('request', name, args) | ('reply',) | ('bad',)"""
    if line.startswith('?'):
        m = GOLD_REQUEST_RE.match(line)
        if m:
            a = m.group('arguments')
            return ('request', m.group('name'), a.split(',') if a else [])
    elif line.startswith('!'):
        if GOLD_REPLY_RE.match(line):
            return ('reply',)
    return ('bad',)


@contextlib.contextmanager
def quiet():
    yield
