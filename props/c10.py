"""C10 — aggregator: the per-simulator parts live in props/parts/c10_*.py (see FRAMEWORK.md)."""

META = dict(
    id='C10',
    title="Shipped command encoders and the simulators' decoders agree on every message",
    design_ref='DESIGN.md section 7, C10',
    technique='Coq proof (encoder/decoder agreement theorems) + in-Coq differential correspondence per simulator part',
    level_text='Coq theorems that every frame built by the modelled client-side encoders from in-domain arguments is consumed by the modelled simulator parser as one complete valid message decoding to the same arguments; encoder and parser models compared byte-for-byte with the shipped code' + '. Partial in breadth: the evidence file lists the simulator parts covered on each run; '
               'simulators without a part are not covered.',
    level_note='Trusted: Coq kernel + vm_compute; the hand-written models as validated by the correspondence '
               'suites; CPython builtins mirrored by the models (see DESIGN.md section 8).',
    partial='breadth: only the simulators that have a ready part (see coverage.parts)',
    rule='one case = one byte history / request sequence on one simulator instance; non-trivial = distinct '
         'history that reaches an executed command, a refused command or a framing error',
)
