"""C20 — minor-servo PLC: limits, PRESET/SETUP/OFFSET semantics, operative-mode sequence.

gen: gen/msv_tables.py -> coq/Gen/MsvTables.v (every run).
correspondence: random command/refresh histories on the real System (virtual clock, no threads)
  against Model/MsvModel.v on binary64 (Corr/MsvCorr.v): every reply text, every byte outcome and
  the final attribute snapshot are compared inside Coq.
oracle: the statement of C20 transcribed to Python over the real classes.
"""
import math

from vlib.core import GenError
from props import msv_harness as H

META = dict(
    id='C20',
    title='Minor-servo PLC keeps axes inside limits, honours SETUP/PRESET/OFFSET semantics',
    design_ref='DESIGN.md section 7, C20',
    coq_target='Properties/C20.vo',
    coq_extra=['Corr/MsvCorr.vo'],
    technique='Coq proof over an executable Gallina model of minor_servos/__init__.py (generic in the '
              'number type: binary64 via Flocq for the correspondence, reals for the kinematic theorems) '
              '+ generated tables (commands, servo limits, status layouts, setup.csv) '
              '+ in-Coq differential correspondence with the real System under a virtual clock',
    level_text='Proved for every instance of the number operations (hence for the bit-exact binary64 model): '
               'a refused command (OUTPUT:BAD) changes no device state; PRESET is refused exactly when a '
               'coordinate plus offset is not finite or outside the limits, an accepted one commands exactly '
               'those values inside the limits; SETUP commands every tabulated cell and keeps the commanded '
               'value of every * cell, from any state (the table is not part of the mutable state); '
               'operative mode 0 after SETUP/PRESET/STOW, future mode on arrival, 30 at once on STOP, 20 '
               'when the STOW timer fires. Proved over the reals (ideal arithmetic): from the initial state, '
               'under any history, commanded and actual coordinates stay inside the limits, each refresh '
               'moves an axis towards its target by at most max_delta x dt, and an axis arrives (mode := '
               'future mode) as soon as max_delta x dt covers the distance. Partial: the binary64 rounding '
               'of the motion step (overshoot of a few ulps is possible and was observed) is not bounded by '
               'a theorem; PROGRAMTRACK trajectory bookkeeping and the spline are oracle inputs.',
    level_note='Trusted: Coq kernel + vm_compute, Flocq binary64 operations (correspondence only), the '
               'translator gen/msv_tables.py, the harness (virtual clock, timer wheel, recorded '
               'random/splev), CPython float()/int()/format as oracles.',
    partial='binary64 rounding link of the speed/limit theorems (C20_speed_partial is over the reals); '
            'PROGRAMTRACK trajectory acceptance and spline values are oracle inputs; real threads/timers',
    rule='one case = one history (commands, refresh instants) on one System instance; non-trivial = distinct '
         'history containing at least one accepted write',
    trusted=['Flocq 4 IEEE754.BinarySingleNaN (Bplus/Bminus/Bmult/Bcompare) for the correspondence',
             'gen/msv_tables.py'],
    assumptions=['CPython float arithmetic is IEEE-754 binary64 round-to-nearest-even',
                 'the int 0 of the initial coordinate lists behaves as +0.0',
                 'kinematic theorems: ideal real arithmetic (float rounding not bounded)',
                 'splev returns a non-NaN value; PROGRAMTRACK bookkeeping is an oracle',
                 'one command / one update-thread iteration is atomic'],
)


def gen(ctx):
    from gen import msv_tables
    msv_tables.generate()


# ---------------------------------------------------------------------------------------------
def make_case(ctx, seed, nops, scripted=None):
    rng = __import__('random').Random(seed)
    rig = H.Rig(t0=rng.choice([1000.0, 1.0, 1759276800.0, 12345.5]),
                timer_value=rng.choice([5, 5, 5, 1, 0.5, 2]), seed=seed)
    try:
        if scripted is not None:
            for line, dt in scripted:
                if line is None:
                    rig.refresh(dt)
                else:
                    rig.feed(line, dt)
            hist = scripted
        else:
            hist = H.gen_history(rng, rig, nops)
        term = rig.case_term()
    finally:
        rig.close()
    return term, hist


SCRIPTS = [
    # the three defects (fixed code): out-of-range PRESET after STOP; nan; SETUP twice around a PRESET
    [(None, 0), ('STOP=GFR\r\n', 10), ('PRESET=GFR,9999\r\n', 10), ('STATUS=GFR\r\n', 10)],
    [(None, 0), ('PRESET=GFR,nan\r\n', 10), ('STATUS=GFR\r\n', 10), ('OFFSET=GFR,nan\r\n', 0),
     ('PRESET=GFR,1\r\n', 0), ('STATUS=GFR\r\n', 5)],
    [(None, 0), ('PRESET=M3R,50\r\n', 10), ('SETUP=Gregoriano1\r\n', 10), (None, 200000), ('PRESET=M3R,-20\r\n', 1),
     (None, 200000), ('SETUP=Gregoriano1\r\n', 10), (None, 1024), ('STATUS=M3R\r\n', 0), ('STATUS=GFR\r\n', 0)],
    [(None, 0), ('STOW=SRP,1\r\n', 0), (None, 5119), ('STATUS=SRP\r\n', 0), (None, 1), ('STATUS=SRP\r\n', 0),
     ('STOW=GREGORIAN_CAP,3\r\n', 0), ('STATUS\r\n', 10), (None, 5120), ('STATUS\r\n', 0),
     ('STOW=GREGORIAN_CAP,2\r\n', 0), ('STATUS\r\n', 10), ('SETUP=Primario\r\n', 5), ('STATUS\r\n', 10240)],
    [(None, 0), ('PRESET=PFP,100,-20,5\r\n', 1024), ('STATUS=PFP\r\n', 1024), ('STATUS=PFP\r\n', 1024),
     ('STOP=PFP\r\n', 0), ('STATUS=PFP\r\n', 1024), ('PRESET=PFP,100,-20,5\r\n', 0), (None, 1024), (None, 10240),
     ('STATUS=PFP\r\n', 1)],
]


def pair_traces(servo='GFR', coords='12.5', bad='9999'):
    """every ordered pair of commands on one servo, close in time, then past the timer delay"""
    cmds = ['SETUP=Gregoriano2', 'SETUP=Gregoriano7', 'STOW=%s,1' % servo, 'STOP=%s' % servo,
            'PRESET=%s,%s' % (servo, coords), 'PRESET=%s,%s' % (servo, bad), 'OFFSET=%s,%s' % (servo, '1.5'),
            'STATUS=%s' % servo]
    if servo == 'SRP':
        cmds = [c.replace('12.5', '1,2,3,0.1,0.1,0.1').replace('9999', '1,2,3,0.1,0.1,9').replace('1.5', '1,1,1,0,0,0')
                for c in cmds]
    out = []
    for a in cmds:
        for b in cmds:
            out.append([[None, 0], [a, 10], [b, 100], [None, 3000], ['STATUS=%s' % servo, 3000], [None, 200000],
                        ['STATUS=%s' % servo, 10]])
    return out


def correspondence(ctx):
    cases = []
    for sc in SCRIPTS:
        term, _ = make_case(ctx, 1, 0, scripted=sc)
        cases.append(term)
        ctx.count('scripted')
    rig0 = H.Rig()
    try:
        lim0 = H.limits(rig0)
    finally:
        rig0.close()
    for key, tr in sorted(H.refused_prefix_traces(lim0).items()):
        term, _ = make_case(ctx, 3, 0, scripted=[(None if l is None else l + '\r\n', dt) for l, dt in tr])
        cases.append(term)
        ctx.count('refused-prefix')
    for tr in pair_traces('GFR') + (pair_traces('SRP') if not ctx.quick() else []):
        term, _ = make_case(ctx, 2, 0, scripted=[(None if l is None else l + '\r\n', dt) for l, dt in tr])
        cases.append(term)
        ctx.count('pairs')
    n = ctx.n(70, 700)
    for k in range(n):
        seed = ctx.rng.randrange(1 << 30)
        nops = ctx.rng.choice([8, 15, 25, 40])
        term, hist = make_case(ctx, seed, nops)
        cases.append(term)
        for line, dt, out in hist:
            kind = line.split('=')[0].split(',')[0].strip() if line != '<refresh>' else 'refresh'
            if kind not in ('STATUS', 'SETUP', 'STOW', 'STOP', 'PRESET', 'OFFSET', 'PROGRAMTRACK', 'refresh'):
                kind = 'other'
            good = bool(out) and isinstance(out[-1], str) and out[-1].startswith('OUTPUT:GOOD')
            ctx.count(kind + ('' if kind == 'refresh' else ('/GOOD' if good else '/BAD')))
        if any(o and isinstance(o[-1], str) and o[-1].startswith('OUTPUT:GOOD') and not l.startswith('STATUS')
               for l, _, o in hist if o is not None):
            ctx.nontriv(('hist', seed, nops))
    ctx.sample(cases[0][:600])
    ctx.run_cases('msv-history', 'From DS Require Import Corr.MsvCorr.', 'mcase', 'ok', cases,
                  show='show', shard=ctx.n(6, 25))


# ---------------------------------------------------------------------------------------------
# property-level oracle on the implementation

def parse_status(reply):
    """KEY=VALUE fields of a STATUS=<servo> reply"""
    body = reply.strip('\r\n').split(',', 2)
    out = {}
    if len(body) < 3:
        return out
    for f in body[2].split('|'):
        if '=' in f:
            k, v = f.split('=', 1)
            out[k] = v
    return out


COORD_KEYS = {
    'PFP': ['PFP_TX', 'PFP_TZ', 'PFP_RTHETA'],
    'SRP': ['SRP_TX', 'SRP_TY', 'SRP_TZ', 'SRP_RX', 'SRP_RY', 'SRP_RZ'],
    'M3R': ['M3R_ROTATION'], 'GFR': ['GFR_ROTATION'],
    'DR_GFR1': ['DR_GFR1_ROTATION'], 'DR_GFR2': ['DR_GFR2_ROTATION'], 'DR_GFR3': ['DR_GFR3_ROTATION'],
    'DR_PFP': ['DR_PFP_ROTATION'],
}


class Watch:
    """runs one history on the real System and checks the statement of C20 after every step"""

    def __init__(self, ctx, seed, timer_value=5):
        self.ctx = ctx
        self.rig = H.Rig(t0=1000.0, timer_value=timer_value, seed=seed)
        self.trace = []
        self.lim = H.limits(self.rig)
        self.failed = set()
        self.checked = 0
        self.pristine = self.table_snapshot()
        self.expect = {}          # servo -> ('stop',) | ('stow', fire tick, allowed) | ('move', future mode)
        self.inflight = {}        # servo -> future mode of a SETUP/PRESET whose arrival was not yet seen
        self.pt_nonfinite_start = False
        # when each servo's get_status really ran (harness clock): the elapsed time of the speed bound is measured
        # between two runs of get_status, independently of the attribute the implementation keeps for it
        self.status_ran = {}
        for n, sv in self.rig.system.servos.items():
            self._spy_status(n, sv)

    def _spy_status(self, n, sv):
        orig = sv.get_status
        rig = self.rig
        ran = self.status_ran

        def get_status(*a, **k):
            ran[n] = rig.now()
            return orig(*a, **k)
        sv.get_status = get_status

    def last_runs(self):
        """per servo: the earlier of the implementation's last_status_read and the harness's own record (they are
        equal on the unchanged tree; the own record is the newer one when the implementation forgets to advance)"""
        out = {}
        for n, sv in self.rig.system.servos.items():
            own = self.status_ran.get(n)
            impl = sv.last_status_read
            out[n] = impl if (own is None or abs(own - impl) < 1e-6) else max(own, impl)
        return out

    def table_snapshot(self):
        c = self.rig.system.configurations
        return {k: {n: list(v) for n, v in row.items() if n != 'ID'} for k, row in c.items()}

    def state(self):
        sn = self.rig.snapshot()
        for d in sn['servos']:
            d.pop('last')
            d.pop('alias')
            d['times'] = [H.fbits(x) for x in d['times']]
            d['tstart'] = None if d['tstart'] is None else H.fbits(d['tstart'])
            d['coords'] = [H.fbits(x) for x in d['coords']]
            d['cmd'] = [H.fbits(x) for x in d['cmd']]
            d['offs'] = [H.fbits(x) for x in d['offs']]
        sn.pop('msg')
        return sn

    CONSEQUENCES = ('msv_coordinate_not_finite', 'msv_reported_not_finite', 'msv_no_arrival', 'msv_mode_sequence')

    def fail(self, klass, what, **extra):
        if self.pt_nonfinite_start and klass in self.CONSEQUENCES:
            # NaN coordinates downstream of an accepted PROGRAMTRACK with a nan/inf start time: one finding
            what = 'after PROGRAMTRACK with a non-finite start time was accepted: ' + what
            klass = 'msv_pt_nonfinite_start_time'
        if klass in self.failed:
            return
        self.failed.add(klass)
        self.ctx.fail(klass, what, dict(trace=list(self.trace), timer_value=self.rig.timer_value, **extra))

    def check_invariants(self, moved_dt=None, before=None):
        """coordinates finite, inside limits (on the .6f text scale), speed bounded"""
        for n, sv in self.rig.system.servos.items():
            lo, hi, md, dof, _ = self.lim[n]
            for i in range(dof):
                for what, v in (('coords', sv.coords[i]), ('cmd_coords', sv.cmd_coords[i])):
                    v = float(v)
                    self.checked += 1
                    if not math.isfinite(v):
                        self.fail('msv_coordinate_not_finite', '%s.%s[%d] is %r' % (n, what, i, v))
                    elif v < lo[i] - 1e-9 or v > hi[i] + 1e-9:
                        self.fail('msv_coordinate_outside_limits', '%s.%s[%d] = %r outside [%r, %r]'
                                  % (n, what, i, v, lo[i], hi[i]))
                if before is not None and moved_dt is not None:
                    d = abs(float(sv.coords[i]) - before[n][i])
                    if d > md[i] * moved_dt * (1 + 1e-9) + 1e-9:
                        self.fail('msv_speed_exceeded', '%s axis %d moved %r in %r s (max_delta %r)'
                                  % (n, i, d, moved_dt, md[i]))
        for n, ex in self.expect.items():
            sv = self.rig.system.servos[n]
            m = sv.operative_mode.value
            if ex[0] == 'stop' and m != 30:
                self.fail('msv_stop_not_kept', '%s reads mode %r after STOP with no later command' % (n, m))
            elif ex[0] == 'stow':
                if self.rig.tick >= ex[1] and m != 20:
                    self.fail('msv_stow_not_reached', '%s reads mode %r after the stow delay' % (n, m))
                elif self.rig.tick < ex[1] and m not in ex[2]:
                    self.fail('msv_stow_early', '%s reads mode %r before the stow delay' % (n, m))
            elif ex[0] == 'move':
                arrived = [float(x) for x in sv.coords] == [float(x) for x in sv.cmd_coords]
                if m not in (0, ex[1]) or (m == ex[1] and not arrived):
                    self.fail('msv_mode_sequence', '%s reads mode %r (future %r, arrived %r)' % (n, m, ex[1], arrived))
        for n, f in list(self.inflight.items()):
            if f and self.rig.system.servos[n].operative_mode.value == f:
                self.inflight[n] = 0          # arrival seen: nothing is pending any more
        if self.table_snapshot() != self.pristine:
            self.fail('msv_setup_table_overwritten', 'the configuration table differs from setup.csv')

    def coords(self):
        return {n: [float(x) for x in sv.coords] for n, sv in self.rig.system.servos.items()}

    def refresh(self, dt):
        before = self.coords()
        lasts = self.last_runs()
        self.rig.refresh(dt)
        self.trace.append([None, dt])
        if self.rig.update_exc is not None:
            self.fail('msv_update_thread_raised', 'System._update raised %r' % (self.rig.update_exc,))
        now = self.rig.now()
        # per-servo elapsed time differs (STATUS=<servo> refreshes one servo only)
        for n, sv in self.rig.system.servos.items():
            lo, hi, md, dof, _ = self.lim[n]
            el = now - lasts[n]
            for i in range(dof):
                d = abs(float(sv.coords[i]) - before[n][i])
                if el >= 0 and d > md[i] * el * (1 + 1e-9) + 1e-9:
                    self.fail('msv_speed_exceeded', '%s axis %d moved %r in %r s (max_delta %r)'
                              % (n, i, d, el, md[i]))
        self.check_invariants()

    def command(self, line, dt=0):
        """one complete command line; checks the per-command clauses"""
        rig = self.rig
        sysm = rig.system
        rig.advance(dt)
        pre = self.state()
        before = self.coords()
        pre_cmd = {n: [float(x) for x in sv.cmd_coords] for n, sv in sysm.servos.items()}
        pre_offs = {n: [float(x) for x in sv.offsets] for n, sv in sysm.servos.items()}
        lasts = self.last_runs()
        out = rig.feed(line + '\r\n', 0)
        self.trace.append([line + '\r\n', dt])
        reply = out[-1] if out else None
        toks = [t.strip() for t in __import__('re').split('=|,', line + '\r\n')]
        cmd, args = toks[0], toks[1:]
        post = self.state()
        if not isinstance(reply, str):
            self.fail('msv_no_reply', 'command %r got %r' % (line, reply))
            return reply
        good = reply.startswith('OUTPUT:GOOD')
        if not good and reply != 'OUTPUT:BAD\r\n':
            self.fail('msv_malformed_reply', 'reply %r' % reply)
        # refused commands change nothing
        if not good and post != pre:
            diff = [k for k in pre if pre[k] != post[k]]
            if diff == ['servos']:
                diff = [(a['name'], [k for k in a if a[k] != b[k]]) for a, b in zip(pre['servos'], post['servos'])
                        if a != b]
            self.fail('msv_refused_%s_changed_state' % (cmd.lower() if cmd in sysm.commands else 'command'),
                      'answered BAD but the state changed: %r' % (diff,))
        if cmd == 'PRESET' and len(args) >= 1 and args[0] in sysm.servos:
            n = args[0]
            lo, hi, md, dof, _ = self.lim[n]
            vals = None
            if len(args) - 1 == dof:
                try:
                    vals = [float(a) for a in args[1:]]
                except ValueError:
                    vals = None
            if vals is not None:
                tgt = [v + o for v, o in zip(vals, pre_offs[n])]
                legal = all(math.isfinite(t) and lo[i] <= t <= hi[i] for i, t in enumerate(tgt))
                if good != legal:
                    self.fail('msv_preset_nonfinite_accepted' if (good and not all(map(math.isfinite, tgt)))
                              else 'msv_preset_range_check',
                              'PRESET target %r (limits %r..%r) answered %s' % (tgt, lo, hi, reply.strip()))
                if good:
                    sv = sysm.servos[n]
                    if [H.fbits(x) for x in sv.cmd_coords] != [H.fbits(t) for t in tgt]:
                        self.fail('msv_preset_target', 'commanded %r, expected %r' % (list(sv.cmd_coords), tgt))
                    if sv.operative_mode.value != 0 or sv.future_oper_mode != 40:
                        self.fail('msv_mode_after_preset', 'mode %r future %r after an accepted PRESET'
                                  % (sv.operative_mode.value, sv.future_oper_mode))
            elif good:
                self.fail('msv_preset_range_check', 'malformed PRESET %r accepted' % line)
        if cmd == 'SETUP' and good and len(args) == 1 and args[0] in self.pristine:
            row = self.pristine[args[0]]
            for n, sv in sysm.servos.items():
                lo, hi, md, dof, _ = self.lim[n]
                cells = row[n]
                ok_row = all(c is None or (math.isfinite(c) and lo[i] <= c <= hi[i]) for i, c in enumerate(cells))
                want = [pre_cmd[n][i] if c is None else c for i, c in enumerate(cells)] if ok_row else pre_cmd[n]
                if not ok_row:
                    self.fail('msv_setup_table_cell_outside_limits',
                              'SETUP=%s cannot drive %s to its tabulated coordinates %r (limits %r..%r)'
                              % (args[0], n, cells, lo, hi))
                if [H.fbits(x) for x in sv.cmd_coords] != [H.fbits(x) for x in want]:
                    self.fail('msv_setup_star_cell', 'SETUP=%s: %s commanded %r, expected %r (cells %r)'
                              % (args[0], n, list(sv.cmd_coords), want, cells))
                if sv.operative_mode.value != 0 or (ok_row and sv.future_oper_mode != 10):
                    self.fail('msv_mode_after_setup', '%s: mode %r future %r after SETUP'
                              % (n, sv.operative_mode.value, sv.future_oper_mode))
        if cmd == 'STOP' and good:
            sv = sysm.servos[args[0]]
            if sv.operative_mode.value != 30:
                self.fail('msv_mode_after_stop', 'mode %r right after STOP' % sv.operative_mode.value)
            if rig.timer_of(sv.operative_mode_timer) is not None:
                self.fail('msv_stop_timer_pending', 'a mode timer is still pending after STOP')
            self.expect[args[0]] = ('stop',)
        if good and cmd == 'PROGRAMTRACK' and args and args[0] in sysm.servos:
            self.expect.pop(args[0], None)
            if len(args) > 3 and args[3] != '*':
                try:
                    st = float(args[3])
                except ValueError:
                    st = 0.0
                if not math.isfinite(st):
                    self.pt_nonfinite_start = True
                    self.fail('msv_pt_nonfinite_start_time',
                              'PROGRAMTRACK with start time %r answered GOOD (nan/inf pass the past-time check; '
                              'the spline computed from such times makes the reported coordinates nan)' % args[3])
        if good and cmd == 'PRESET' and args and args[0] in sysm.servos:
            self.expect[args[0]] = ('move', 40)
            self.inflight[args[0]] = 40
        if good and cmd == 'SETUP':
            for n, sv in sysm.servos.items():
                self.expect[n] = ('move', sv.future_oper_mode) if sv.future_oper_mode else None
            self.expect = {k: v for k, v in self.expect.items() if v}
            for n, sv in sysm.servos.items():
                if sv.future_oper_mode == 10:
                    self.inflight[n] = 10
        if good and cmd == 'STOW' and args and args[0] in sysm.servos:
            sv = sysm.servos[args[0]]
            self.expect[args[0]] = ('stow', rig.tick + int(rig.timer_value * H.TICKS),
                                    (0, self.inflight.get(args[0], 0)))
        if cmd == 'STOW' and good and args[0] in sysm.servos:
            sv = sysm.servos[args[0]]
            t = rig.timer_of(sv.operative_mode_timer)
            if sv.operative_mode.value != 0 or t != (rig.tick + int(rig.timer_value * H.TICKS), 20):
                self.fail('msv_mode_after_stow', 'mode %r timer %r after STOW' % (sv.operative_mode.value, t))
        if cmd == 'OFFSET' and good:
            sv = sysm.servos[args[0]]
            if [H.fbits(x) for x in sv.offsets] != [H.fbits(float(a)) for a in args[1:]]:
                self.fail('msv_offset_readback', 'offsets %r after %r' % (list(sv.offsets), line))
        if cmd == 'STATUS' and good and len(args) == 1 and args[0] in sysm.servos:
            n = args[0]
            lo, hi, md, dof, _ = self.lim[n]
            sv = sysm.servos[n]
            f = parse_status(reply)
            el = rig.now() - lasts[n]
            for i, key in enumerate(COORD_KEYS[n]):
                txt = f.get(key)
                try:
                    v = float(txt)
                except (TypeError, ValueError):
                    v = float('nan')
                if not math.isfinite(v):
                    self.fail('msv_reported_not_finite', '%s=%r' % (key, txt))
                elif v < lo[i] - 1e-6 or v > hi[i] + 1e-6:
                    self.fail('msv_reported_outside_limits', '%s=%r outside [%r, %r]' % (key, txt, lo[i], hi[i]))
                d = abs(float(sv.coords[i]) - before[n][i])
                if el >= 0 and d > md[i] * el * (1 + 1e-9) + 1e-9:
                    self.fail('msv_speed_exceeded', '%s axis %d moved %r in %r s' % (n, i, d, el))
            mode_txt = f.get('%s_OPERATIVE_MODE' % n)
            if mode_txt != str(pre['servos'][rig.names.index(n)]['mode']):
                self.fail('msv_reported_mode', 'reported mode %r, attribute was %r'
                          % (mode_txt, pre['servos'][rig.names.index(n)]['mode']))
        self.check_invariants()
        return reply

    def close(self):
        self.rig.close()


def arrival_check(w, n):
    """after enough refreshes the servo reaches its commanded position and shows the future mode"""
    sv = w.rig.system.servos[n]
    fut = sv.future_oper_mode
    if sv.operative_mode.value in (20, 30, 50) or fut == 0:
        return
    if w.rig.timer_of(sv.operative_mode_timer) is not None:
        return
    tgt = [float(x) for x in sv.cmd_coords]
    for _ in range(6):
        if sv.operative_mode.value != 0:
            break
        if [float(x) for x in sv.coords] != tgt and sv.operative_mode.value != 0:
            w.fail('msv_mode_nonzero_while_moving', '%s mode %r while not arrived' % (n, sv.operative_mode.value))
        w.refresh(200 * H.TICKS)
    if sv.operative_mode.value != fut or [float(x) for x in sv.coords] != tgt:
        w.fail('msv_no_arrival', '%s: mode %r coords %r, target %r future mode %r after 1200 s'
               % (n, sv.operative_mode.value, list(sv.coords), tgt, fut))


def run_trace(ctx, trace, timer_value=5, seed=0):
    w = Watch(ctx, seed, timer_value)
    try:
        for line, dt in trace:
            if line is None:
                w.refresh(dt)
            else:
                w.command(line.rstrip('\r\n') if line.endswith('\r\n') else line, dt)
    finally:
        w.close()
    return w


def corpus_traces():
    """minimised past failures: corpus/C20/*.json, each {"trace": [[line or null, dticks], ...], "timer_value": n}"""
    import glob
    import json
    import os
    d = os.path.join(os.path.dirname(os.path.dirname(os.path.abspath(__file__))), 'corpus', 'C20')
    out = []
    for f in sorted(glob.glob(os.path.join(d, '*.json'))):
        o = json.load(open(f))
        out.append((o['trace'], o.get('timer_value', 5)))
    return out


DIRECTED = [
    [[None, 0], ['STOP=GFR', 10], ['PRESET=GFR,9999', 10]],
    [[None, 0], ['STOW=M3R,1', 10], ['PRESET=M3R,-9999', 10]],
    [[None, 0], ['PRESET=GFR,nan', 10], ['STATUS=GFR', 10], [None, 10]],
    [[None, 0], ['OFFSET=SRP,0,0,0,0,0,nan', 10], ['PRESET=SRP,0,0,0,0,0,0', 10], ['STATUS=SRP', 10]],
    [[None, 0], ['PRESET=M3R,50', 10], ['SETUP=Gregoriano1', 10], [None, 200000], ['PRESET=M3R,-20', 10],
     [None, 200000], ['SETUP=Gregoriano1', 10], [None, 200000], ['STATUS=M3R', 0]],
    [[None, 0], ['SETUP=BWG1', 0], ['SETUP=Gregoriano7', 0], ['SETUP=BWG3', 0], [None, 400000], ['STATUS=M3R', 0]],
    # a servo held in STOP / after a completed STOW while the status is refreshed, then moved again: the first
    # refresh afterwards must integrate over its own period only (seeded change C20-r5m3)
    [[None, 0], ['STOP=M3R', 0], [None, 10240], [None, 10240], ['STATUS=M3R', 5120], ['PRESET=M3R,50', 0],
     [None, 512], ['STATUS=M3R', 512], [None, 512]],
    [[None, 0], ['STOW=GFR,1', 0], [None, 10240], [None, 10240], ['STATUS=GFR', 10240], ['SETUP=Gregoriano1', 0],
     [None, 512], ['STATUS=GFR', 512], [None, 512]],
    [[None, 0], ['PRESET=SRP,10,10,10,0,0,0', 0], [None, 1024], ['STOP=SRP', 0], [None, 20480], ['STATUS=SRP', 20480],
     ['PRESET=SRP,-10,-10,-10,0,0,0', 0], [None, 205], ['STATUS=SRP', 205], [None, 205]],
]


def oracle(ctx):
    import random
    checked = 0
    histories = 0
    rig0 = H.Rig()
    try:
        lim0 = H.limits(rig0)
    finally:
        rig0.close()
    for tr, tv in corpus_traces():        # past failures first
        w = run_trace(ctx, tr, tv)
        checked += w.checked
        histories += 1
    for tr in DIRECTED + [v for _, v in sorted(H.refused_prefix_traces(lim0).items())] \
            + pair_traces('GFR') + pair_traces('SRP'):
        w = run_trace(ctx, tr)
        checked += w.checked
        histories += 1
    n = ctx.n(60, 1200)
    for k in range(n):
        seed = ctx.rng.randrange(1 << 30)
        rng = random.Random(seed)
        w = Watch(ctx, seed, rng.choice([5, 5, 1, 2]))
        try:
            lim = w.lim
            ptstate = {'_focus': rng.choice(w.rig.names) if rng.random() < 0.75 else None}
            if rng.random() < 0.8:
                w.refresh(0)
            for _ in range(rng.choice([10, 20, 40])):
                dt = rng.choice(H.DTS)
                if rng.random() < 0.2:
                    w.refresh(dt)
                    continue
                if rng.random() < 0.05:
                    H.pt_burst(rng, w.rig, lim, lambda d, t: w.command(d[:-2], t), w.refresh,
                               nonfinite_offset=rng.random() < 0.3)
                    continue
                line = H.gen_command(rng, w.rig, lim, ptstate)
                if '\r' in line or '\n' in line:
                    continue
                w.command(line, dt)
            for nme in w.rig.names:
                arrival_check(w, nme)
        finally:
            w.close()
        checked += w.checked
        histories += 1
    # two instances: a history on A must not change what a later B does (table sharing, F20/C06)
    wa = Watch(ctx, 1)
    try:
        wa.refresh(0)
        wa.command('PRESET=M3R,50', 0)
        wa.command('SETUP=Gregoriano1', 0)
        cls_tab = {k: {n: list(v) for n, v in row.items() if n != 'ID'}
                   for k, row in type(wa.rig.system).configurations.items()}
        for k, row in cls_tab.items():
            for nme, cells in row.items():
                if cells != wa.pristine[k].get(nme):
                    wa.fail('msv_setup_table_overwritten', 'class-level table cell %s/%s = %r' % (k, nme, cells))
    finally:
        wa.close()
    ctx.oracle_stats = dict(histories=histories, coordinate_checks=checked)
    ctx.evaluations += histories


def replay(ctx, obj):
    w = obj.get('witness', {})
    tr = w.get('trace')
    if not tr:
        return False
    before = len(ctx.failures)
    run_trace(ctx, tr, w.get('timer_value', 5))
    return any(f['klass'] == obj.get('klass') for f in ctx.failures[before:])
