"""C04 — aggregator: the per-simulator parts live in props/parts/c04_*.py (see FRAMEWORK.md)."""

META = dict(
    id='C04',
    title='Every reply frame decodes under its protocol and names the request it answers',
    design_ref='DESIGN.md section 7, C04',
    technique='Coq proof (decoder theorems per modelled simulator) + in-Coq differential correspondence per simulator part',
    level_text='Coq theorems that every reply of the modelled simulators decodes under an independent protocol decoder and echoes the request identity, plus every implementation reply observed in the suites pushed through the Coq decoder' + '. Partial in breadth: the evidence file lists the simulator parts covered on each run; '
               'simulators without a part are not covered.',
    level_note='Trusted: Coq kernel + vm_compute; the hand-written models as validated by the correspondence '
               'suites; CPython builtins mirrored by the models (see DESIGN.md section 8).',
    partial='breadth: only the simulators that have a ready part (see coverage.parts)',
    rule='one case = one byte history / request sequence on one simulator instance; non-trivial = distinct '
         'history that reaches an executed command, a refused command or a framing error',
)
