"""C08 -- ACU status publisher under any interleaving of client subscriptions, unsubscriptions,
frame consumption and publisher iterations.

The harness runs the REAL static method `simulators.acu.System._update_loop` and the REAL
`simulators.server.SendHandler.handle` (one thread each) under a strict baton-passing scheduler:
exactly one thread runs at any time, and a thread gives the baton back at its next queue
operation (publisher) or at its next `socket.recv` (handler).  A schedule is therefore executed
deterministically, at the granularity of single queue operations, with no real sleeping and no
dependence on thread timing.

  correspondence: the schedule and everything observed (result of every queue operation, thread
                  state, queue contents at every loop head, the publisher's local subscriber
                  list) is replayed through Model/PubModel.v inside Coq (Corr/PubCorr.v).
  oracle:         the four clauses of the property checked directly on the observed trace.
"""
import itertools
import os
import queue as _queue
import socket as _socket
import sys
import threading
import types

from vlib.core import zlit, zlist, optlit

META = dict(
    id='C08',
    title='Status publisher survives any connect/disconnect interleaving and serves all',
    design_ref='DESIGN.md section 7, C08',
    coq_target='Properties/C08.vo',
    coq_extra=['Corr/PubCorr.vo'],
    technique='Coq proof (invariant over the reachability relation of a small-step interleaving '
              'model of _update_loop and SendHandler.handle, unbounded clients and steps) + in-Coq '
              'differential correspondence with the real loop and the real handler driven one queue '
              'operation at a time',
    level_text='Liveness of the update thread (no exception, never blocked on a client queue), '
               'take-up of every subscription before the second loop head after it was posted, '
               'exactly-one-newest-frame at each publication, and no frame after a processed '
               'unsubscription are proved in Coq for every number of clients and every interleaving '
               'of single queue operations, over an executable model of the (fixed) loop; a bound on '
               'the number of publisher steps per iteration is proved as well. The model is '
               'compared with the real _update_loop and the real SendHandler.handle on seeded random, '
               'adversarial and exhaustively enumerated small schedules on every run. Partial: '
               'queue.Queue operations and list operations are assumed atomic (CPython Queue mutex, '
               'GIL); real time and real sockets are not modelled.',
    level_note='Trusted: Coq kernel + vm_compute; atomicity of queue.Queue.get/put and of list '
               'append/remove in CPython; the harness scheduler (props/c08.py).',
    partial='preemption inside queue.Queue / list primitives (assumed atomic); wall-clock length of a '
            'tick; TCP accept and thread start-up of socketserver',
    rule='one case = one schedule (client steps and publisher steps) executed on the real loop and '
         'handlers; non-trivial = distinct schedule with at least one subscription taken up',
    trusted=['CPython queue.Queue semantics (FIFO, maxsize, Empty/Full)',
             'baton-passing scheduler and fakes in props/c08.py'],
    assumptions=['each SendHandler.handle call uses a fresh Queue object (checked on every run)',
                 'a handler calls system.subscribe before system.unsubscribe, each at most once '
                 '(program order of SendHandler.handle; checked on every run)',
                 'single queue operations are atomic'],
)

# Seconds the scheduler waits for a thread to give the baton back.  Under strict alternation a
# hand-off takes microseconds; the limit only exists so that a run cannot hang for ever.  Reaching
# it says nothing about the property (a loaded machine, a stopped process): the schedule is
# retried and, if need be, skipped with a note -- it is NEVER reported as a violation.
WAIT = float(os.environ.get('VERIF_C08_WAIT', '600'))
RETRIES = 3
MJD = 60000.5


class HarnessError(Exception):
    pass


class HarnessTimeout(HarnessError):
    """a baton hand-off (or thread start / join) did not complete within WAIT: inconclusive"""


class _Blocked(BaseException):
    """the publisher called put on a full client queue: it would wait for the client for ever"""


class _Abort(BaseException):
    pass


# ---------------------------------------------------------------------------
# environment: the real modules with time/Queue instrumented for the duration of a batch

class Env:
    """Imports the real modules once and installs the instrumentation:
       * simulators.acu.time -> object whose sleep() does nothing
       * simulators.server.Queue -> subclass of queue.Queue that reports every get/put to the rig
         that is currently running (the client queues stay real queue.Queue objects)."""

    def __init__(self):
        from simulators import acu, server, utils
        self.acu, self.server, self.utils = acu, server, utils
        self.rig = None
        env = self

        class LoggedQueue(_queue.Queue):
            def __init__(self, maxsize=0):
                super().__init__(maxsize)
                self.cid = None
                self.rig = env.rig          # the rig this queue belongs to, for good
                if self.rig is not None:
                    self.rig.new_queue(self)

            def get(self, block=True, timeout=None):
                rig = self.rig
                if rig is None or self.cid is None:
                    return super().get(block, timeout)
                return rig.q_get(self, lambda: _queue.Queue.get(self, False), block, timeout)

            def put(self, item, block=True, timeout=None):
                rig = self.rig
                if rig is None or self.cid is None:
                    return super().put(item, block, timeout)
                return rig.q_put(self, item, lambda: _queue.Queue.put(self, item, False),
                                 block, timeout)

        self.LoggedQueue = LoggedQueue

        class _Sys(acu.System):
            def __init__(self):     # no axes, no threads: only the two hand-over queues
                pass

            def __del__(self):
                pass

        self.Sys = _Sys
        self.mjd_bytes = utils.real_to_bytes(MJD, precision=2)
        assert abs(utils.bytes_to_real(self.mjd_bytes, precision=2) - MJD) < 1e-9

    def __enter__(self):
        self.saved_time = self.acu.time
        self.saved_queue = self.server.Queue
        real_time = self.saved_time
        fake = types.SimpleNamespace(sleep=lambda s: None, time=real_time.time,
                                     monotonic=real_time.monotonic)
        self.acu.time = fake
        self.server.Queue = self.LoggedQueue
        return self

    def __exit__(self, *a):
        self.acu.time = self.saved_time
        self.server.Queue = self.saved_queue
        self.rig = None


class Actor:
    def __init__(self, rig, name):
        self.rig = rig
        self.name = name
        self.go = threading.Semaphore(0)
        self.thread = None
        self.done = False
        self.error = None
        self.free = False        # teardown: hooks do not park any more
        self.where = None
        self.kind = None         # what the next client step is (set by the scheduler)

    def park(self, where):
        if self.free:
            return
        if self.rig.aborting:
            raise _Abort()
        self.where = where
        self.rig.back.release()
        self.go.acquire()           # no limit: a thread may wait for its turn as long as it takes
        if self.rig.aborting and not self.free:
            raise _Abort()

    def start(self, target):
        def body():
            try:
                target()
            except _Blocked:
                self.error = 'blocked'
            except _Abort:
                self.error = 'abort'
            except BaseException as ex:     # noqa
                self.error = ex
            finally:
                self.done = True
                if not self.rig.aborting:
                    self.rig.back.release()
        self.thread = threading.Thread(target=body, daemon=True)
        self.rig.current = self
        try:
            self.thread.start()
        except RuntimeError as ex:      # "can't start new thread": resources, not the property
            self.thread = None
            self.rig.abandon()
            raise HarnessTimeout('cannot start a thread: %s' % ex)
        self.rig.wait_back()

    def resume(self):
        self.rig.current = self
        self.go.release()
        self.rig.wait_back()


class FakeStatus:
    """stands for the multiprocessing Array holding the status message: frame number in bytes
    8..12 (where the real message has its time stamp), a valid MJD where the loop reads it"""

    def __init__(self, env):
        self.buf = bytearray(813)
        self.buf[721:729] = env.mjd_bytes
        self.n = 0

    def bump(self):
        self.n += 1
        self.buf[8:12] = self.n.to_bytes(4, 'little')

    @property
    def raw(self):
        return bytes(self.buf)

    def __getitem__(self, k):
        return bytes(self.buf[k])

    def __setitem__(self, k, v):
        self.buf[k] = v

    def __len__(self):
        return len(self.buf)


def frame_no(data):
    return int.from_bytes(bytes(data)[8:12], 'little')


class HandQ:
    """subscribe_q / unsubscribe_q: FIFO hand-over queue; the publisher parks before every get"""

    def __init__(self, rig, tag):
        self.rig, self.tag, self.items = rig, tag, []

    def put(self, q, block=True, timeout=None):
        if self.rig.aborting:
            raise _Abort()
        self.items.append(q)
        self.rig.client_log.append((self.tag, q))

    put_nowait = put

    def get(self, block=True, timeout=None):
        rig = self.rig
        if rig.aborting:
            raise _Abort()
        if threading.current_thread() is rig.pub.thread:
            rig.pub.park(self.tag)
        if not self.items:
            rig.pub_event((self.tag, None))
            if block and timeout is None and not rig.pub.free:
                raise _Blocked()
            raise rig.env.acu.Empty
        q = self.items.pop(0)
        rig.pub_event((self.tag, getattr(q, 'cid', -1)))
        return q

    def get_nowait(self):
        return self.get(False)

    def empty(self):
        return not self.items

    def qsize(self):
        return len(self.items)


class FakeSock:
    def __init__(self, rig, actor, udp):
        self.rig, self.actor = rig, actor
        self.type = _socket.SOCK_DGRAM if udp else _socket.SOCK_STREAM
        self.sent = []
        self.failed = []

    def setblocking(self, flag):
        pass

    def settimeout(self, t):
        pass

    def recv(self, n):
        a = self.actor
        a.park('recv')
        if a.free or a.kind == 'C':
            return b''
        if a.kind == 'X':
            return b'$no_such_command%%%%%'
        raise BlockingIOError()

    def sendto(self, data, addr=None):
        if self.actor.kind == 'F' and not self.actor.free:
            self.failed.append(frame_no(data))
            raise BrokenPipeError()
        self.sent.append(frame_no(data))
        return len(data)

    send = sendall = sendto

    def close(self):
        pass


class Rig:
    """one schedule on fresh threads"""

    def __init__(self, env):
        self.env = env
        self.back = threading.Semaphore(0)
        self.current = None
        self.aborting = False
        self.stopping = False
        self.pub = Actor(self, 'pub')
        self.clients = {}          # cid -> Actor
        self.socks = {}
        self.queues = {}           # cid -> LoggedQueue
        self.client_log = []       # operations of the running client step
        self.pub_log = []          # events of the running publisher step
        self.status = FakeStatus(env)
        self.pub_ticks = 0
        self.sys = env.Sys()
        self.sys.sampling_time = 0
        self.sys.subscribe_q = HandQ(self, 'S')
        self.sys.unsubscribe_q = HandQ(self, 'U')
        self.extra_queues = 0

    def wait_back(self):
        if not self.back.acquire(timeout=WAIT):
            name = self.current.name if self.current else '?'
            self.abandon()
            raise HarnessTimeout('scheduler: thread %s did not give the baton back within %.0f s'
                                 % (name, WAIT))

    def abandon(self):
        """give the rig up: every thread of it unwinds (with _Abort) as soon as it runs again and
        never touches another rig"""
        self.aborting = True
        for a in [self.pub] + list(self.clients.values()):
            a.go.release()

    # -- instrumentation call-backs -------------------------------------------------
    def new_queue(self, q):
        a = self.current
        if a is None or a is self.pub or threading.current_thread() is not a.thread:
            return
        if a.cid in self.queues:        # a second Queue made by the same handler
            self.extra_queues += 1
            return
        q.cid = a.cid
        self.queues[a.cid] = q

    def q_get(self, q, do_get, block, timeout):
        Empty = _queue.Empty
        if self.aborting:
            raise _Abort()
        if threading.current_thread() is self.pub.thread:
            self.pub.park('C')
            try:
                item = do_get()
            except Empty:
                self.pub_event(('C', q.cid, None))
                if block and timeout is None and not self.pub.free:
                    raise _Blocked()
                raise
            self.pub_event(('C', q.cid, frame_no(item)))
            return item
        # the client: under strict alternation nothing can arrive while it waits, so a timed
        # get on an empty queue is a time-out
        try:
            item = do_get()
        except Empty:
            self.client_log.append(('G', q, None))
            raise
        self.client_log.append(('G', q, frame_no(item)))
        return item

    def q_put(self, q, item, do_put, block, timeout):
        if self.aborting:
            raise _Abort()
        if threading.current_thread() is self.pub.thread:
            self.pub.park('P')
            if q.full():
                self.pub_event(('F', q.cid))
                if block and timeout is None:
                    raise _Blocked()
                raise _queue.Full
            do_put()
            self.pub_event(('P', q.cid, frame_no(item)))
            return None
        self.client_log.append(('PUT', q, None))
        return do_put()

    def pub_event(self, ev):
        if not self.pub.free:
            self.pub_log.append(ev)

    # -- actors ---------------------------------------------------------------------------
    def start_publisher(self):
        rig = self

        class Stop:
            @property
            def value(self_):
                rig.pub.park('T')
                rig.pub_event(('T',))
                rig.pub_ticks += 1
                return rig.stopping

        class CmdQ:
            def get_nowait(self_):
                raise rig.env.acu.Empty

            def get(self_, block=True, timeout=None):
                raise rig.env.acu.Empty

            def put(self_, x):
                pass

        def upd_status(status, statuses):
            status.bump()

        def target():
            self.env.acu.System._update_loop(
                Stop(), 0.0, self.status, [], [], CmdQ(), lambda subsystems: None, upd_status,
                self.sys.subscribe_q, self.sys.unsubscribe_q)
        self.pub.start(target)

    def pub_step(self):
        """returns (event, status) with status in Running/Dead/Blocked/Exited"""
        p = self.pub
        if p.done:
            return ('I',), self.pub_status()
        self.pub_log = []
        p.resume()
        if len(self.pub_log) != 1:
            raise HarnessError('publisher step produced %r' % (self.pub_log,))
        return self.pub_log[0], self.pub_status()

    def pub_status(self):
        p = self.pub
        if not p.done:
            return 'Running'
        if p.error == 'blocked':
            return 'Blocked'
        if p.error is None:
            return 'Exited'
        return 'Dead'

    def client_step(self, kind, c, udp=False):
        """returns the list of operations the handler performed on the system / its queue, or None
        when the step does not apply (client not started, already finished, started twice)"""
        self.client_log = []
        if kind == 'S':
            if c in self.clients:
                return None
            a = Actor(self, 'client%d' % c)
            a.cid = c
            a.kind = 'S'
            self.clients[c] = a
            sock = FakeSock(self, a, udp)
            self.socks[c] = sock
            H = self.env.server.SendHandler
            h = H.__new__(H)
            h.request = (b'x', sock) if udp else sock
            h.client_address = ('127.0.0.1', 40000 + c)
            h.server = None
            h.system = self.sys

            def target():
                h.setup()
                h.handle()
                h.finish()
            a.start(target)
        else:
            a = self.clients.get(c)
            if a is None or a.done:
                return None
            a.kind = kind
            a.resume()
        return list(self.client_log)

    def snapshot(self):
        return sorted((c, [frame_no(x) for x in list(q.queue)]) for c, q in self.queues.items())

    def subscribers_local(self):
        """the publisher's local list `subscribers`, read from the parked thread's frame"""
        t = self.pub.thread
        if t is None or self.pub.done:
            return None
        f = sys._current_frames().get(t.ident)
        while f is not None and f.f_code.co_name != '_update_loop':
            f = f.f_back
        if f is None:
            return None
        subs = f.f_locals.get('subscribers')
        if not isinstance(subs, list):
            return None
        return [getattr(q, 'cid', -1) for q in subs]

    def teardown(self):
        self.stopping = True
        if self.aborting:
            self.abandon()
            return
        p = self.pub
        if p.thread is not None and not p.done:
            p.free = True
            p.go.release()
            p.thread.join(WAIT)
        for a in self.clients.values():
            if not a.done:
                a.free = True
                a.go.release()
                a.thread.join(WAIT)
        alive = [a.name for a in [p] + list(self.clients.values()) if a.thread and a.thread.is_alive()]
        if alive:
            self.abandon()
            raise HarnessTimeout('threads still alive %.0f s after teardown: %s' % (WAIT, alive))


# ---------------------------------------------------------------------------
# running a schedule
#
# schedule item:  ('P',)            one publisher step
#                 ('S', c, udp)     client c connects (handler thread runs up to its first recv)
#                 ('G', c)          one pass of the handler loop, nothing received on the socket
#                 ('X', c)          the same, a custom command arrives on the socket
#                 ('F', c)          the same, but sending on the socket fails (peer gone)
#                 ('C', c)          the peer closed the connection: recv returns b''

def run_schedule(env, sched):
    """-> trace: list of dict(item=..., ops=[...]) where ops are observation tuples:
         ('sub', c) ('get', c, f|None) ('unsub', c)
         ('pub', event, status)  ('snap', [(c, frames)])  ('subs', [c...])
       plus trace-level facts in the returned dict"""
    rig = Rig(env)
    env.rig = rig
    trace = []
    facts = dict(order_violations=[], sent={}, handler_errors=[])
    phase = {}
    try:
        rig.start_publisher()
        for item in sched:
            ops = []
            if item[0] == 'P':
                ev, st = rig.pub_step()
                ops.append(('pub', ev, st, rig.status.n))
                if st == 'Running' and rig.pub.where == 'T':
                    ops.append(('snap', rig.snapshot()))
                    sl = rig.subscribers_local()
                    if sl is not None:
                        ops.append(('subs', sl))
            else:
                kind, c = item[0], item[1]
                log = rig.client_step(kind, c, udp=bool(item[2]) if kind == 'S' else False)
                if log is None:
                    trace.append(dict(item=item, ops=[], skipped=True))
                    continue
                myq = rig.queues.get(c)
                for tag, q, f in [(x[0], x[1], x[2] if len(x) > 2 else None) for x in log]:
                    if q is not myq or myq is None:
                        facts['order_violations'].append((c, 'operation %s on a queue that is not '
                                                             'the handler\'s own' % tag))
                        continue
                    if tag == 'S':
                        ops.append(('sub', c))
                    elif tag == 'U':
                        ops.append(('unsub', c))
                    elif tag == 'G':
                        ops.append(('get', c, f))
                    else:
                        facts['order_violations'].append((c, 'handler put into its own queue'))
                a = rig.clients[c]
                if a.done and a.error is not None:
                    facts['handler_errors'].append((c, repr(a.error)))
            trace.append(dict(item=item, ops=ops))
        facts['final_snapshot'] = rig.snapshot()
        facts['extra_queues'] = rig.extra_queues
        facts['sent'] = {c: list(s.sent) + list(s.failed) for c, s in rig.socks.items()}
        facts['done'] = {c: a.done for c, a in rig.clients.items()}
        facts['cap'] = {c: q.maxsize for c, q in rig.queues.items()}
    finally:
        try:
            rig.teardown()
        finally:
            env.rig = None
    return trace, facts


def run_schedule_robust(env, sched, ctx=None):
    """run_schedule, retried when a hand-off timed out; None when it cannot be completed (the
    schedule is then skipped: inconclusive, never a violation)"""
    last = None
    for _ in range(RETRIES):
        try:
            return run_schedule(env, sched)
        except HarnessTimeout as ex:
            last = ex
    if ctx is not None:
        ctx.count('skipped_handoff_timeout')
        if ctx.histogram.get('skipped_handoff_timeout', 0) <= 3:
            ctx.note('schedule skipped (inconclusive): %s' % last)
    return None


def measure_period_robust(env):
    last = None
    for _ in range(RETRIES):
        try:
            return measure_period(env)
        except HarnessTimeout as ex:
            last = ex
    raise last


def measure_period(env):
    """number of iterations between two publications of the real loop (no clients)"""
    rig = Rig(env)
    env.rig = rig
    marks = []
    try:
        rig.start_publisher()
        last = 0
        for _ in range(4000):
            ev, st = rig.pub_step()
            if st != 'Running':
                raise HarnessError('publisher %s without clients' % st)
            if ev == ('T',):
                if rig.status.n != last:
                    pass
                marks.append(rig.status.n)
            if rig.status.n >= 4:
                break
    finally:
        try:
            rig.teardown()
        finally:
            env.rig = None
    # marks[i] = number of publications completed before loop head i
    gaps = []
    heads = {}
    for i, n in enumerate(marks):
        heads.setdefault(n, i)
    ks = sorted(heads)
    for a, b in zip(ks, ks[1:]):
        gaps.append(heads[b] - heads[a])
    gaps = gaps[1:]     # the gap 0 -> 1 is the first iteration
    if len(gaps) < 2 or len(set(gaps)) != 1:
        raise HarnessError('publication is not periodic: %r' % (gaps,))
    return gaps[0]


# ---------------------------------------------------------------------------
# Coq terms

STAT = dict(Running='Running', Dead='Dead', Blocked='Blocked')


def ev_term(ev):
    k = ev[0]
    if k == 'T':
        return 'ETop'
    if k == 'U':
        return '(EUns %s)' % optlit(ev[1])
    if k == 'S':
        return '(ESubs %s)' % optlit(ev[1])
    if k == 'C':
        return '(EClr %s %s)' % (zlit(ev[1]), optlit(ev[2]))
    if k == 'P':
        return '(EPut %s %s)' % (zlit(ev[1]), zlit(ev[2]))
    if k == 'F':
        return '(EFull %s)' % zlit(ev[1])
    if k == 'I':
        return 'EIdle'
    raise HarnessError('unknown publisher event %r' % (ev,))


def op_term(op):
    k = op[0]
    if k == 'sub':
        return 'OSub %s' % zlit(op[1])
    if k == 'unsub':
        return 'OUnsub %s' % zlit(op[1])
    if k == 'get':
        return 'OGet %s %s' % (zlit(op[1]), optlit(op[2]))
    if k == 'pub':
        if op[2] not in STAT:
            raise HarnessError('publisher left the loop: %r' % (op,))
        return 'OPub %s %s' % (ev_term(op[1]), STAT[op[2]])
    if k == 'snap':
        return 'OSnap [%s]' % '; '.join('(%s, %s)' % (zlit(c), zlist(fs)) for c, fs in op[1])
    if k == 'subs':
        return 'OSubsList %s' % zlist(op[1])
    raise HarnessError('unknown op %r' % (op,))


def case_term(period, cap, trace):
    ops = [op_term(o) for t in trace for o in t['ops']]
    return 'Case (Cfg %s %s) [%s]' % (zlit(period), zlit(cap), ';\n '.join(ops))


# ---------------------------------------------------------------------------
# schedule generators

def gen_random(rng, period, nclients, length, p_pub=0.55):
    """clients arrive, poll, leave at random; the publisher advances at random"""
    sched = []
    nxt = 1
    live = []
    for _ in range(length):
        r = rng.random()
        if r < p_pub:
            sched += [('P',)] * rng.choice([1, 1, 1, 2, 3, 5])
        elif r < p_pub + 0.12 and nxt <= nclients:
            sched.append(('S', nxt, 1 if rng.random() < 0.15 else 0))
            live.append(nxt)
            nxt += 1
        elif live:
            c = rng.choice(live)
            k = rng.choice('GGGGGXFCC')
            sched.append((k, c))
            if k == 'C':
                live.remove(c)
        else:
            sched.append(('P',))
    return sched


def gen_burst(rng, period, nclients):
    """adversarial: bursts of connects/disconnects packed between single publisher steps, slow
    consumers that never read, then enough publisher steps to reach the next publications"""
    sched = []
    nxt = 1
    live = []
    slow = set()
    for rnd in range(rng.randrange(2, 6)):
        # advance the publisher to a random point of an iteration
        sched += [('P',)] * rng.randrange(0, 7)
        k = rng.randrange(1, 5)
        new = []
        for _ in range(k):
            if nxt > nclients:
                break
            new.append(nxt)
            if rng.random() < 0.3:
                slow.add(nxt)
            nxt += 1
        burst = [('S', c, 0) for c in new]
        # some of the new (and some of the old) clients leave at once
        leavers = [c for c in new if rng.random() < 0.6] + [c for c in live if rng.random() < 0.3]
        rng.shuffle(leavers)
        events = burst + [('C', c) for c in leavers]
        # keep each client's S before its C, otherwise arbitrary order, with publisher steps mixed in
        order = []
        pool = list(events)
        started = set(live)
        while pool:
            cand = [e for e in pool if e[0] == 'S' or e[1] in started]
            e = rng.choice(cand)
            pool.remove(e)
            order.append(e)
            if e[0] == 'S':
                started.add(e[1])
            if rng.random() < 0.4:
                order += [('P',)] * rng.randrange(1, 4)
        sched += order
        live = [c for c in live + new if c not in leavers]
        # run to (and through) a publication, readers polling now and then
        n = rng.choice([3, 3 * period + 5, 4 * period + 9, 8 * period])
        for i in range(n):
            sched.append(('P',))
            if live and rng.random() < 0.15:
                c = rng.choice(live)
                if c not in slow:
                    sched.append(('G', c))
    sched += [('P',)] * (3 * period + 10)
    for c in live:
        if rng.random() < 0.5:
            sched.append(('C', c))
    sched += [('P',)] * (2 * period + 10)
    return sched


def gen_dense(rng, period, k):
    """k clients connected from the start; readers poll in the middle of the publications (between
    the publisher's clear and put, between two clients' puts), some leave or join meanwhile"""
    sched = [('S', c, 0) for c in range(1, k + 1)]
    live = list(range(1, k + 1))
    nxt = k + 1
    lazy = set(c for c in live if rng.random() < 0.3)
    for rnd in range(rng.randrange(2, 5)):
        n = 0
        while n < 3 * len(live) + 12:
            r = rng.random()
            if r < 0.6 or not live:
                sched.append(('P',))
                n += 1
            elif r < 0.92:
                c = rng.choice(live)
                if c not in lazy or rng.random() < 0.1:
                    sched.append(('G', c))
            elif r < 0.96:
                c = rng.choice(live)
                live.remove(c)
                sched.append(('C', c))
            else:
                sched.append(('S', nxt, 0))
                live.append(nxt)
                nxt += 1
        sched += [('P',)] * (3 * (period - 1) - rng.randrange(0, 9))
    sched += [('P',)] * (3 * len(live) + 8)
    return sched


def gen_exhaustive(period, pub_steps):
    """every interleaving of two clients' [connect, close] with `pub_steps` publisher steps"""
    a = [('S', 1, 0), ('C', 1)]
    b = [('S', 2, 0), ('C', 2)]
    p = [('P',)] * pub_steps
    n = len(a) + len(b) + len(p)
    for pa in itertools.combinations(range(n), 2):
        rest = [i for i in range(n) if i not in pa]
        for pb in itertools.combinations(rest, 2):
            seq = [None] * n
            seq[pa[0]], seq[pa[1]] = a
            seq[pb[0]], seq[pb[1]] = b
            yield [x if x is not None else ('P',) for x in seq]


def tail_to_publication(period, k=2):
    """enough publisher steps for k full periods with a handful of subscribers"""
    return [('P',)] * (k * (period * 3 + 12))


F08 = [('S', 1, 0), ('S', 2, 0), ('C', 2)] + [('P',)] * 8


def corpus_schedules():
    d = os.path.join(os.path.dirname(os.path.dirname(os.path.abspath(__file__))), 'corpus', 'C08')
    out = []
    if os.path.isdir(d):
        import json
        for f in sorted(os.listdir(d)):
            if f.endswith('.json'):
                obj = json.load(open(os.path.join(d, f)))
                out.append([tuple(x) for x in obj['schedule']])
    return out


def all_schedules(ctx, period, for_oracle):
    rng = ctx.rng
    scheds = [('corpus', s) for s in corpus_schedules()]
    scheds.append(('f08', F08 + tail_to_publication(period, 1)))
    # connect + disconnect inside one tick at every position of the iteration
    for pre in range(0, 8):
        for mid in range(0, 3):
            s = [('S', 1, 0)] + [('P',)] * pre + [('S', 2, 0)] + [('P',)] * mid + [('C', 2)]
            scheds.append(('one_tick', s + tail_to_publication(period, 1)))
    # a slow consumer next to a fast one over several publications
    s = [('S', 1, 0), ('S', 2, 0)]
    for k in range(4):
        s += [('P',)] * (3 * period + 7) + [('G', 2)]
    s += [('G', 1), ('G', 1), ('C', 1)] + [('P',)] * (3 * period) + [('G', 2), ('F', 2)] + [('P',)] * 10
    scheds.append(('slow', s))
    # exhaustive small interleavings
    ex = list(gen_exhaustive(period, ctx.n(7, 10)))
    if for_oracle:
        take = ex if not ctx.quick() else rng.sample(ex, 600)
    else:
        take = rng.sample(ex, ctx.n(150, 1200))
    scheds += [('exhaustive', s + [('P',)] * 4) for s in take]
    for _ in range(ctx.n(60, 1200) if not for_oracle else ctx.n(150, 3000)):
        scheds.append(('random', gen_random(rng, period, rng.randrange(1, 9), rng.randrange(20, 160))))
    for _ in range(ctx.n(40, 800) if not for_oracle else ctx.n(100, 2000)):
        scheds.append(('burst', gen_burst(rng, period, rng.randrange(2, 12))))
    for _ in range(ctx.n(40, 800) if not for_oracle else ctx.n(100, 2000)):
        scheds.append(('dense', gen_dense(rng, period, rng.randrange(1, 6))))
    return scheds


# ---------------------------------------------------------------------------
# correspondence

def gen_cases(ctx):
    """run the correspondence schedules on the implementation -> list of Coq case terms"""
    with Env() as env:
        period = measure_period_robust(env)
        ctx.note('measured publication period = %d iterations' % period)
        cases = []
        for kind, sched in all_schedules(ctx, period, for_oracle=False):
            res = run_schedule_robust(env, sched, ctx)
            if res is None:
                continue
            trace, facts = res
            caps = set(facts['cap'].values()) or {1}
            if len(caps) != 1:
                raise HarnessError('client queues of different capacity: %r' % caps)
            if facts['order_violations'] or facts['extra_queues']:
                ctx.fail('handler_program_order',
                         'SendHandler.handle does not follow subscribe -> get* -> unsubscribe on one '
                         'fresh queue', dict(schedule=sched, detail=repr(facts['order_violations'])))
            term = case_term(period, caps.pop(), trace)
            cases.append(term)
            ctx.count(kind)
            taken = any(o[0] == 'pub' and o[1][0] == 'S' and o[1][1] is not None
                        for t in trace for o in t['ops'])
            if taken:
                ctx.nontriv(tuple(sched))
            ctx.count('steps', sum(len(t['ops']) for t in trace))
            for k, v in trace_features(trace).items():
                ctx.count(k, v)
    return cases


def correspondence(ctx):
    try:
        cases = gen_cases(ctx)
    except HarnessTimeout as ex:      # machine too loaded even to measure the period: inconclusive
        ctx.note('correspondence not run (inconclusive): %s' % ex)
        return
    if not cases:
        ctx.note('correspondence: every schedule was skipped (hand-off timeouts)')
        return
    ctx.sample(cases[0][:600])
    ctx.run_cases('publisher', 'From DS Require Import Model.PubModel Corr.PubCorr.', 'pcase',
                  'ok', cases, show='show', shard=ctx.n(20, 60), timeout=3000)


# ---------------------------------------------------------------------------
# oracle: the four clauses on the observed trace

TAKEUP_TICKS = 2      # C08_taken_up: posted during tick i => taken before tick i+2 begins


def check_trace(trace, facts):
    """-> (klass, what, step index) of the first violation, or None"""
    tick = 0
    posted = {}         # c -> tick of system.subscribe
    unposted = set()    # system.unsubscribe called
    unposted_tick = {}
    taken = set()       # returned by subscribe_q.get_nowait
    removed = set()     # returned by unsubscribe_q.get_nowait
    lastput = {}        # c -> newest frame put and not yet read
    mail = {}           # c -> content of the queue as implied by the operations
    recv = {}           # c -> frames read by the handler
    pub_frame = None    # frame of the publication in progress
    served = None
    newest = 0
    n_at_head = 0       # update_status calls seen at the previous loop head
    for i, t in enumerate(trace):
        for op in t['ops']:
            k = op[0]
            if k == 'sub':
                c = op[1]
                if c in posted:
                    return ('handler_program_order', 'client %d subscribed twice' % c, i)
                posted[c] = tick
                mail[c] = []
                recv[c] = []
            elif k == 'unsub':
                c = op[1]
                if c not in posted or c in unposted:
                    return ('handler_program_order', 'client %d unsubscribed out of order' % c, i)
                unposted.add(c)
                unposted_tick[c] = tick
            elif k == 'get':
                c, f = op[1], op[2]
                if c not in posted or c in unposted:
                    return ('handler_program_order', 'client %d reads out of order' % c, i)
                exp = mail[c][0] if mail[c] else None
                if f != exp:
                    return ('client_frame', 'client %d read %r, its queue held %r' % (c, f, mail[c]), i)
                if f is not None:
                    mail[c].pop(0)
                    if recv[c] and f <= recv[c][-1]:
                        return ('stale_frame', 'client %d read frame %d after frame %d' % (c, f, recv[c][-1]), i)
                    recv[c].append(f)
            elif k == 'pub':
                ev, st = op[1], op[2]
                if ev[0] == 'T':
                    # the previous iteration is complete
                    if op[3] != n_at_head:
                        missing = sorted((taken - removed) - (served or set()))
                        if missing:
                            return ('not_served', 'publication of frame %d skipped the taken-up clients %s'
                                    % (op[3], missing), i)
                    elif served:
                        return ('stale_frame', 'frames put without update_status', i)
                    n_at_head = op[3]
                    served = None
                    pub_frame = None
                    tick += 1
                    late = sorted(c for c in posted if c not in taken and tick >= posted[c] + TAKEUP_TICKS)
                    if late:
                        return ('takeup_late', 'clients %s subscribed during tick %d are still waiting '
                                'when tick %d begins' % (late, posted[late[0]], tick), i)
                    late = sorted(c for c in unposted if c not in removed
                                  and tick >= unposted_tick[c] + TAKEUP_TICKS)
                    if late:
                        return ('unsubscribe_late', 'clients %s unsubscribed during tick %d are still '
                                'subscribed when tick %d begins' % (late, unposted_tick[late[0]], tick), i)
                elif ev[0] == 'S' and ev[1] is not None:
                    taken.add(ev[1])
                elif ev[0] == 'U' and ev[1] is not None:
                    removed.add(ev[1])
                elif ev[0] == 'C':
                    c, f = ev[1], ev[2]
                    if c in removed:
                        return ('frame_after_unsubscribe', 'queue of client %d touched after its '
                                'unsubscription was processed' % c, i)
                    if f is not None and mail.get(c):
                        mail[c].pop(0)
                elif ev[0] == 'P':
                    c, f = ev[1], ev[2]
                    if c in removed:
                        return ('frame_after_unsubscribe', 'client %d got frame %d after its '
                                'unsubscription was processed' % (c, f), i)
                    if c not in taken:
                        return ('frame_without_subscription', 'client %d got a frame before being taken up' % c, i)
                    if pub_frame is None:
                        pub_frame = f
                        served = set()
                        if f <= newest:
                            return ('stale_frame', 'publication of frame %d after frame %d' % (f, newest), i)
                        newest = f
                    if f != pub_frame:
                        return ('stale_frame', 'frames %d and %d in one publication' % (pub_frame, f), i)
                    if f != op[3]:
                        return ('stale_frame', 'frame %d published after update_status number %d'
                                % (f, op[3]), i)
                    if c in served:
                        return ('two_frames', 'client %d served twice in one publication' % c, i)
                    served.add(c)
                    mail.setdefault(c, []).append(f)
                    if mail[c] != [f]:
                        return ('two_frames', 'after the publication of frame %d client %d has %r pending'
                                % (f, c, mail[c]), i)
                if st == 'Dead':
                    return ('publisher_dead', 'the update loop died with an exception', i)
                if st == 'Blocked':
                    return ('publisher_blocked', 'the update loop blocks on a client queue', i)
                if st == 'Exited':
                    return ('publisher_exited', 'the update loop returned although stop was not set', i)
            elif k == 'snap':
                for c, fs in op[1]:
                    if fs != mail.get(c, []):
                        return ('mailbox', 'queue of client %d holds %r, operations imply %r'
                                % (c, fs, mail.get(c, [])), i)
                    if len(fs) > 1:
                        return ('two_frames', 'client %d has %d frames pending' % (c, len(fs)), i)
            elif k == 'subs':
                want = taken - removed
                if set(op[1]) != want or len(op[1]) != len(set(op[1])):
                    return ('subscribers', 'subscribers = %r at the loop head, expected the set %r'
                            % (op[1], sorted(want)), i)
    for c, s in facts.get('sent', {}).items():
        if s != recv.get(c, []):
            return ('client_frame', 'client %d passed %r to its socket but read %r' % (c, s, recv.get(c)), len(trace))
    for c, d in facts.get('done', {}).items():
        if d and c in posted and c not in unposted:
            return ('handler_no_unsubscribe', 'handler of client %d returned without unsubscribing' % c,
                    len(trace))
    for c, e in facts.get('handler_errors', []):
        return ('handler_died', 'handler of client %d ended with %s' % (c, e), len(trace))
    if facts.get('order_violations'):
        return ('handler_program_order', repr(facts['order_violations'][0]), len(trace))
    return None


def trace_features(trace):
    """how often the interesting interleavings occur (for the evidence file)"""
    feat = dict(stale_frame_replaced=0, read_between_clear_and_put=0, unsubscribed_before_takeup=0,
                left_within_one_tick=0, publications_with_subscribers=0)
    taken, posted_tick, tick = set(), {}, 0
    cleared = None
    in_pub = False
    for t in trace:
        for op in t['ops']:
            if op[0] == 'sub':
                posted_tick[op[1]] = tick
            elif op[0] == 'unsub':
                if op[1] not in taken:
                    feat['unsubscribed_before_takeup'] += 1
                if posted_tick.get(op[1]) == tick:
                    feat['left_within_one_tick'] += 1
            elif op[0] == 'get':
                if cleared == op[1]:
                    feat['read_between_clear_and_put'] += 1
            elif op[0] == 'pub':
                ev = op[1]
                if ev[0] == 'T':
                    tick += 1
                    in_pub = False
                elif ev[0] == 'S' and ev[1] is not None:
                    taken.add(ev[1])
                elif ev[0] == 'C':
                    if ev[2] is not None:
                        feat['stale_frame_replaced'] += 1
                        cleared = None
                    else:
                        cleared = ev[1]
                elif ev[0] == 'P':
                    cleared = None
                    if not in_pub:
                        feat['publications_with_subscribers'] += 1
                        in_pub = True
    return feat


def shrink(env, sched, klass):
    """greedy: cut after the failing step, then drop single items / whole clients"""
    def fails(s):
        try:
            res = run_schedule_robust(env, s)
        except HarnessError:
            return None
        if res is None:
            return None
        tr, fa = res
        v = check_trace(tr, fa)
        return v if v and v[0] == klass else None
    v = fails(sched)
    if not v:
        return sched
    cur = sched[:v[2] + 1]
    if not fails(cur):
        cur = sched
    changed = True
    budget = 400
    while changed and budget > 0:
        changed = False
        clients = sorted({x[1] for x in cur if x[0] != 'P'})
        for c in clients:
            cand = [x for x in cur if x[0] == 'P' or x[1] != c]
            budget -= 1
            if len(cand) < len(cur) and fails(cand):
                cur, changed = cand, True
        i = 0
        while i < len(cur) and budget > 0:
            cand = cur[:i] + cur[i + 1:]
            budget -= 1
            if fails(cand):
                cur, changed = cand, True
            else:
                i += 1
    return cur


def oracle(ctx):
    checked = steps = 0
    seen = set()
    period = None
    with Env() as env:
        try:
            period = measure_period_robust(env)
        except HarnessTimeout as ex:
            ctx.note('oracle not run (inconclusive): %s' % ex)
            return
        for kind, sched in all_schedules(ctx, period, for_oracle=True):
            res = run_schedule_robust(env, sched, ctx)
            if res is None:
                continue
            trace, facts = res
            checked += 1
            steps += len(sched)
            v = check_trace(trace, facts)
            if v and v[0] not in seen:
                seen.add(v[0])
                small = shrink(env, sched, v[0])
                res2 = run_schedule_robust(env, small)
                v2 = (check_trace(*res2) if res2 else None) or v
                if v2 is v:
                    small = sched
                ctx.fail(v2[0], v2[1], dict(schedule=[list(x) for x in small], step=v2[2], kind=kind))
    ctx.oracle_stats = dict(schedules=checked, steps=steps, period=period)
    ctx.evaluations += checked


def replay(ctx, obj):
    w = obj['witness']
    sched = [tuple(x) for x in w['schedule']]
    with Env() as env:
        res = run_schedule_robust(env, sched)
    if res is None:
        print('  replay: inconclusive (hand-off timeouts)')
        return False
    v = check_trace(*res)
    if v:
        print('  replay: %s: %s (step %d)' % v)
    return v is not None
