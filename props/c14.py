"""C14 — the ACU executes exactly the well-formed, permitted, in-range commands (agent Acmd).

Correspondence: Model/AcmdFrame.v + Model/AcmdAxis.v against the real `System.parse` ->
`_parse_commands` -> `MasterAxisStatus._mode_command` / `_parameter_command` /
`PointingStatus._parameter_command`, on generated histories (props/acmd_lib.py explains how the
command threads are kept from running free).  Oracle: the theorem statements transcribed to
Python over the real classes."""
import math
import struct

from vlib.core import zlit, zlist, GenError
from props import acmd_lib as L

META = dict(
    id='C14',
    title='ACU executes exactly the well-formed, permitted, in-range commands',
    design_ref='DESIGN.md section 7, C14',
    coq_target='Properties/C14.vo',
    coq_extra=['Corr/AcmdCorr.vo', 'Corr/AcmdResetCorr.vo', 'Corr/AcmdStatusCorr.vo'],
    technique='Coq proof (framing automaton + _parse_commands + mode/parameter command acceptance on '
              'Flocq binary64 values, constants from a generated table) + in-Coq differential '
              'correspondence with the real System.parse and subsystem handlers',
    level_text='Theorems over an executable Gallina model of System.parse/_parse_commands and of '
               'MasterAxisStatus._mode_command/_validate_mode_command/_parameter_command: a message is '
               'executed iff it is well-formed and is dropped whole otherwise; the answer is 9 iff the '
               'axis state permits the mode and the parameters are finite and within the limits (real-'
               'number statement through Bcompare_correct), else 5 / 4; unknown modes are recorded as '
               '"no command"; refused commands leave motion, brakes, stow pins and offsets untouched; '
               'counters are echoed; an accepted reset (mode 15) clears exactly the named flags of the error '
               'word and nothing else, a refused one and every other command leave all status flags alone; '
               'update_status sets the five limit / rate warning bits from the position and rate and keeps '
               'the rest; the cable wrap receives no command and its brakes follow the master state. '
               'The model is compared with the real classes on every run. '
               'Partial: a command thread is one atomic step up to its first sleep (later loop '
               'iterations and real thread interleaving are C15 / runtime behaviour); the pointing '
               'time-source/time-offset parameter commands and the program-track table load are '
               'dispatched but not interpreted (C17).',
    level_note='Trusted: Coq kernel + vm_compute, Flocq 4 (binary64 arithmetic and comparison; pulls '
               'the stdlib real-number/classical axioms listed by Print Assumptions), the translator '
               'gen/acmd_tables.py, CPython float/int/struct semantics as mirrored by the model and '
               'checked by correspondence, the synchronous-thread harness props/acmd_lib.py.',
    partial='thread interleaving and handler loop iterations after the first sleep are outside the model; '
            'PS parameter ids 50/51 and program-track loads are dispatched, not interpreted',
    rule='one case = one history of messages (plus direct state pokes) on a fresh System; non-trivial = '
         'distinct history reaching an executed command, a refused command or a framing error',
    trusted=['Flocq 4 IEEE754.BinarySingleNaN (Bcompare, Bmult, Bplus, Bdiv, Bnearbyint, Btrunc)',
             'gen/acmd_tables.py (source shapes and literals of parse/_parse_commands/_validate_mode_command, '
             '_reset, the error/warning flag setters, both update_status methods)'],
    assumptions=['a command thread runs atomically up to its first time.sleep (no preemption inside '
                 '_mode_command/_parameter_command)',
                 'bytes reaching System.parse are single latin-1 characters (code points 0..255)'],
)

NAN = 0x7ff8000000000000
NAN2 = 0xfff0000000000001
PINF = 0x7ff0000000000000
NINF = 0xfff0000000000000
PZERO = 0
NZERO = 1 << 63
MODES = [0, 1, 2, 3, 4, 5, 7, 8, 14, 15, 50, 51, 52]
BAD_MODES = [6, 9, 13, 16, 49, 53, 100, 0x7fff, 0x8000, 0xffff, 0xff00]


def gen(ctx):
    from gen import acmd_tables
    ctx.acmd_tables = acmd_tables.generate(ctx)


def tables(ctx):
    T = getattr(ctx, 'acmd_tables', None)
    if T is None:
        from gen import acmd_tables
        from vlib import core
        try:
            T = acmd_tables.tables(core.REPO)
        except GenError:
            # the translator's refusal is already recorded as a broken tie; the harness and the
            # oracle keep going with the protocol's literals so that a concrete input is found
            T = acmd_tables.tables(core.REPO, strict=False)
        ctx.acmd_tables = T
    return T


# ---------------------------------------------------------------------------
# value pools

def ulp_neighbours(x):
    b = L.bits_of(float(x))
    out = [b]
    for d in (-2, -1, 1, 2):
        nb = b + d
        if 0 <= nb < 2 ** 64:
            out.append(nb)
    return out


def double_pool(T, rng):
    pool = [NAN, NAN2, PINF, NINF, PZERO, NZERO, 1, (1 << 63) | 1, 0x7fefffffffffffff, 0xffefffffffffffff]
    # ordinary doubles whose wire bytes contain the end flag / the start flag (1.0000006.., 0.50000002..):
    # a payload may contain them, framing goes by the declared length only
    pool += [0x3ff00000a1fccfd1, 0x3fe000001dfccf1a, 0x3ff00000a1fccfd1, 0x3fe000001dfccf1a,
             0xa1fccfd13ff00000 & (2 ** 64 - 1)]
    for name in ('AZ', 'EL'):
        c = T[name]
        for v in (c['min_pos'], c['max_pos'], c['start_pos'], c['max_velocity'], -c['max_velocity'],
                  0.5 * c['max_velocity'], -0.5 * c['max_velocity'], c['min_pos'] - c['start_pos'],
                  c['max_pos'] - c['start_pos'], 1.0, -1.0, len(c['stow_pos']), 0.5, -0.5, 0.9, 0.86,
                  1e-7, 2.5e-6, 1.5e-6, 2147.483647, 2147.483648, -2147.483649, 86400000.0,
                  86400000.1, 2147483.6, 2147483.7):
            pool += ulp_neighbours(v)
    return pool


def rnd_double(ctx, T, pool, kind=None):
    rng = ctx.rng
    r = rng.random() if kind is None else kind
    if r < 0.45:
        return rng.choice(pool)
    if r < 0.6:
        return L.bits_of(rng.uniform(-1.2, 1.2))
    if r < 0.8:
        return L.bits_of(rng.uniform(-120, 480))
    if r < 0.9:
        return L.bits_of(rng.choice([rng.uniform(-1e4, 1e4), rng.uniform(-1e12, 1e12), rng.uniform(-3, 3)]))
    return rng.getrandbits(64)


def rnd_counter(rng, used):
    r = rng.random()
    if r < 0.15 and used:
        return rng.choice(used)
    if r < 0.3:
        return rng.choice([0, 1, 2 ** 31 - 1, 2 ** 31, 2 ** 31 + 5, 2 ** 32 - 1, 2 ** 32 - 2])
    return rng.randrange(2 ** 32)


# ---------------------------------------------------------------------------
# message generators

def mode_cmd(sub, counter, mode, b1=0, b2=0):
    return L.cmd26(1, sub, counter, mode, b1, b2)


def gen_command(ctx, T, pool, sub=None, kind=None):
    rng = ctx.rng
    if sub is None:
        sub = rng.choice([1, 1, 1, 2, 2, 2, 5, 5, rng.choice([0, 3, 4, 9, 255, 256, 65535])])
    if kind is None:
        kind = rng.choice(['mode'] * 6 + ['param'] * 3 + ['track'])
    c = rng.randrange(2 ** 32) if rng.random() < 0.8 else rng.choice([0, 2 ** 31, 2 ** 32 - 1, 2 ** 31 - 1])
    if kind == 'mode':
        mode = rng.choice(MODES * 4 + BAD_MODES)
        return mode_cmd(sub, c, mode, rnd_double(ctx, T, pool), rnd_double(ctx, T, pool))
    if kind == 'param':
        pid = rng.choice([11, 12, 11, 12, 60, 60, 0, 13, 49, 50, 51, 61, 65535])
        return L.cmd26(2, sub, c, pid, rnd_double(ctx, T, pool), rnd_double(ctx, T, pool))
    n = rng.choice([0, 1, 2, 5, 5, 6, 50, 51]) if rng.random() < 0.7 else rng.randrange(0, 8)
    entries = [(i * 100, rnd_double(ctx, T, pool), rnd_double(ctx, T, pool)) for i in range(n)]
    nseq = n if rng.random() < 0.85 else max(0, n + rng.choice([-1, 1, 2]))
    return L.cmd_pt(sub, c, rng.choice([61, 61, 60, 0]), rng.choice([4, 4, 1]), rng.choice([1, 1, 2]),
                    rng.choice([1, 1, 2, 3]), nseq, rnd_double(ctx, T, pool), rnd_double(ctx, T, pool),
                    rnd_double(ctx, T, pool), entries)


def gen_message(ctx, T, pool, used, cmds=None):
    """a frame, usually valid, with one of the corruptions below applied now and then;
    returns (bytes, tag)"""
    rng = ctx.rng
    if cmds is None:
        n = rng.choice([0, 1, 1, 1, 2, 2, 3, 3, 4])
        subs = rng.sample([1, 2, 5], min(n, 3)) + [None] * max(0, n - 3)
        if rng.random() < 0.2:
            subs = [None] * n
        cmds = [gen_command(ctx, T, pool, sub=s) for s in subs]
    counter = rnd_counter(rng, used)
    used.append(counter)
    r = rng.random()
    if r < 0.55:
        return L.frame(counter, cmds), 'valid-structure'
    k = rng.randrange(16)
    body = b''.join(cmds)
    if k == 0:
        s = bytearray(L.START)
        s[rng.randrange(4)] ^= rng.choice([1, 0x80, 0xff])
        return L.frame(counter, cmds, start=bytes(s)), 'bad-start'
    if k == 1:
        e = bytearray(L.END)
        e[rng.randrange(4)] ^= rng.choice([1, 0x80, 0xff])
        return L.frame(counter, cmds, end=bytes(e)), 'bad-end'
    if k == 2:
        return L.frame(counter, cmds, length=rng.choice([0, 1, 8, 10, 15, 16, 17, 18, 19])), 'short-length'
    if k == 3:
        real = 20 + len(body)
        return L.frame(counter, cmds, length=max(20, real - rng.choice([1, 2, 4, 26]))), 'length-under'
    if k == 4:
        real = 20 + len(body)
        return L.frame(counter, cmds, length=real + rng.choice([1, 2, 4, 26])), 'length-over'
    if k == 5:
        return L.frame(counter, cmds, count=len(cmds) + rng.choice([-1, 1, 2, -2 ** 31, 2 ** 31 - 1])), 'bad-count'
    if k == 6 and cmds:
        i = rng.randrange(len(cmds))
        c = bytearray(cmds[i])
        c[0:2] = L.u16(rng.choice([0, 3, 5, 6, 255, 256, 0x0104, 0x0401]))
        cs = list(cmds)
        cs[i] = bytes(c)
        return L.frame(counter, cs), 'unknown-command-id'
    if k == 7 and cmds:
        cs = list(cmds)
        cs[-1] = cs[-1][:rng.choice([1, 2, 3, 4, 8, 10, 17, 25, 41])]
        return L.frame(counter, cs), 'truncated-command'
    if k == 8 and cmds:
        i = rng.randrange(len(cmds))
        cs = list(cmds) + [cmds[i][:2] + cmds[i][2:4] + gen_command(ctx, T, pool, kind='mode')[4:]]
        rng.shuffle(cs)
        return L.frame(counter, cs), 'duplicate-subsystem'
    if k == 9:
        junk = bytes(rng.randrange(256) for _ in range(rng.randrange(1, 12)))
        return junk + L.frame(counter, cmds), 'junk-prefix'
    if k == 10:
        f = L.frame(counter, cmds)
        return f[:rng.randrange(1, len(f))], 'truncated-frame'
    if k == 11:
        return L.START[:rng.randrange(1, 4)] + L.frame(counter, cmds), 'nested-start'
    if k == 12:
        f = bytearray(L.frame(counter, cmds))
        f[rng.randrange(len(f))] ^= 1 << rng.randrange(8)
        return bytes(f), 'bit-flip'
    if k == 13:
        return L.frame(counter, cmds + [bytes(rng.randrange(256) for _ in range(rng.randrange(1, 30)))]), 'trailing-bytes'
    if k == 14:
        return L.frame(counter, [L.cmd26(rng.choice([1, 2]), rng.choice([1, 2, 5, 9]), 7, 2, 0, 0),
                                 L.cmd26(rng.choice([1, 2, 4]), rng.choice([5, 9, 1]), 8, 2, 0, 0)]), 'handler-missing'
    return L.frame(counter, cmds), 'valid-structure'


def setup_ops(ctx, T, used):
    """a prefix bringing the axes into one of the reachable configurations"""
    rng = ctx.rng
    ops = []
    base = rng.randrange(1, 2 ** 20)

    def msg(cmds):
        nonlocal base
        base += 10
        used.append(base)
        ops.append(('feed', L.frame(base, cmds)))
    r = rng.random()
    if r < 0.15:
        return ops
    if r < 0.55:
        msg([mode_cmd(1, base + 1, 51), mode_cmd(2, base + 2, 51)])
        msg([mode_cmd(1, base + 1, 2), mode_cmd(2, base + 2, 2)])
    elif r < 0.7:
        msg([mode_cmd(1, base + 1, 2), mode_cmd(2, base + 2, 2)])      # active, EL still stowed
    elif r < 0.8:
        msg([mode_cmd(2, base + 2, 51)])
    else:
        for which in (0, 1):
            ops.append(('poke', which, 0, rng.choice([0, 1, 2, 3])))
    if rng.random() < 0.5:
        which = rng.randrange(2)
        c = T['AZ' if which == 0 else 'EL']
        lo, hi = c['min_pos'] * 10 ** 6, c['max_pos'] * 10 ** 6
        stow = [s * 10 ** 6 for s in c['stow_pos']]
        v = rng.choice([lo, hi, lo - 1, hi + 1, lo - 5, hi + 7, lo + 1, hi - 1, rng.randrange(lo, hi + 1)]
                       + stow + [s + d for s in stow for d in (-1, 1)])
        ops.append(('poke', which, 1, v))
        if rng.random() < 0.7:
            ops.append(('tick',))
    if rng.random() < 0.2:
        ops.append(('poke', rng.randrange(2), 2, rng.choice([0, 1, -1, 2 ** 31 - 1, -2 ** 31, 123456789])))
    return ops


def directed_history(ctx, T, pool, used):
    """acceptance matrix: axis state x mode x boundary parameters"""
    rng = ctx.rng
    ops = setup_ops(ctx, T, used)
    for _ in range(rng.randrange(1, 5)):
        sub = rng.choice([1, 2])
        c = T['AZ' if sub == 1 else 'EL']
        mode = rng.choice(MODES + [3, 4, 5, 8, 52, 3, 4, 5, 8, 52] + BAD_MODES[:3])
        mv = c['max_velocity']
        if mode == 3:
            p1 = rng.choice(ulp_neighbours(c['min_pos']) + ulp_neighbours(c['max_pos'])
                            + [L.bits_of(rng.uniform(c['min_pos'] - 2, c['max_pos'] + 2)), NAN, PINF, NINF])
        elif mode == 4:
            p1 = rng.choice([L.bits_of(rng.uniform(-600, 600)), L.bits_of(rng.uniform(-2, 2)), NAN, PINF,
                             L.bits_of(float(c['max_pos'] - c['start_pos'])),
                             L.bits_of(float(c['min_pos'] - c['start_pos'])), L.bits_of(1e-6), L.bits_of(-1e-6)]
                            + ulp_neighbours(c['max_pos'] - c['start_pos']))
        elif mode == 5:
            p1 = rng.choice(ulp_neighbours(1.0) + ulp_neighbours(-1.0) + [L.bits_of(rng.uniform(-1.5, 1.5)), NAN,
                                                                         PINF, PZERO, NZERO])
        elif mode == 52:
            p1 = rng.choice([PZERO, NZERO, L.bits_of(0.5), L.bits_of(-0.5), L.bits_of(1.0), L.bits_of(0.999),
                             L.bits_of(-1e-300), L.bits_of(7.0), NAN, PINF, NINF] + ulp_neighbours(1.0))
        else:
            p1 = rnd_double(ctx, T, pool)
        lim = 0.5 * mv if mode == 52 else mv
        p2 = rng.choice(ulp_neighbours(lim) + ulp_neighbours(-lim)
                        + [L.bits_of(rng.uniform(-1.2 * lim, 1.2 * lim)), L.bits_of(0.9), L.bits_of(0.86),
                           L.bits_of(-0.9), NAN, PINF, NINF, PZERO, L.bits_of(mv), L.bits_of(0.25)])
        counter = rnd_counter(rng, used)
        used.append(counter)
        cc = rng.choice([counter + 1, rng.randrange(2 ** 32), 2 ** 31 + rng.randrange(100), 2 ** 32 - 1]) % 2 ** 32
        cmds = [mode_cmd(sub, cc, mode, p1, p2)]
        if rng.random() < 0.3:
            cmds.append(gen_command(ctx, T, pool, sub=3 - sub))
        ops.append(('feed', L.frame(counter, cmds)))
        if rng.random() < 0.2:
            ops.append(('tick',))
    return ops


def random_history(ctx, T, pool, used):
    rng = ctx.rng
    ops = setup_ops(ctx, T, used) if rng.random() < 0.6 else []
    tags = []
    for _ in range(rng.randrange(1, 5)):
        m, tag = gen_message(ctx, T, pool, used)
        tags.append(tag)
        ops.append(('feed', m))
        if rng.random() < 0.15:
            ops.append(('tick',))
    return ops, tags


def param_history(ctx, T, pool, used):
    rng = ctx.rng
    ops = setup_ops(ctx, T, used)
    for _ in range(rng.randrange(1, 4)):
        cmds = []
        for sub in rng.sample([1, 2, 5], rng.randrange(1, 4)):
            pid = rng.choice([11, 12, 11, 12, 13, 0]) if sub != 5 else rng.choice([60, 60, 60, 61, 0, 50, 51])
            p1 = rng.choice([L.bits_of(rng.uniform(-3000, 3000)), L.bits_of(rng.uniform(-5, 5)), NAN, PINF, NINF,
                             L.bits_of(0.0000005), L.bits_of(0.0000015), L.bits_of(0.0000025)]
                            + ulp_neighbours(2147.483647) + ulp_neighbours(-2147.483648)
                            + ulp_neighbours(86400000.0) + ulp_neighbours(2147483.647))
            cmds.append(L.cmd26(2, sub, rng.randrange(2 ** 32), pid, p1, rnd_double(ctx, T, pool)))
        counter = rnd_counter(rng, used)
        used.append(counter)
        ops.append(('feed', L.frame(counter, cmds)))
    return ops


CORPUS = [
    # F03, F09, F10, F11, F12, F13 reproductions and their neighbours, run first
    lambda: [('feed', L.START + L.u32(10)), ('feed', L.frame(5, [mode_cmd(1, 6, 2)]))],
    lambda: [('feed', L.frame(5, [mode_cmd(1, 6, 2)])), ('feed', L.frame(7, [mode_cmd(1, 8, 3, NAN, L.bits_of(0.5))]))],
    lambda: [('feed', L.frame(5, [mode_cmd(1, 6, 2)])),
             ('feed', L.frame(7, [mode_cmd(1, 8, 4, L.bits_of(1.0), L.bits_of(0.9))]))],
    lambda: [('feed', L.frame(5, [mode_cmd(1, 2 ** 31 + 5, 2)]))],
    lambda: [('feed', L.frame(5, [mode_cmd(1, 6, 2), mode_cmd(9, 7, 2)]))],
    lambda: [('feed', L.frame(5, [mode_cmd(1, 6, 2), mode_cmd(5, 7, 2)]))],
    lambda: [('feed', L.frame(5, [L.cmd_pt(1, 6, 61, 4, 1, 1, 0, 0, 0, 0, [])]))],
    lambda: [('feed', L.frame(5, [mode_cmd(1, 6, 2)])),
             ('feed', L.frame(7, [mode_cmd(1, 8, 52, L.bits_of(7.0), L.bits_of(99.0))])),
             ('feed', L.frame(9, [mode_cmd(1, 10, 52, NAN, L.bits_of(99.0))]))],
    lambda: [('feed', L.frame(5, [L.u16(1) + L.u16(1) + L.u32(6) + L.u16(2)]))],
    lambda: [('feed', L.frame(5, []))],
    # boundary values of the message counter, first on a fresh system and repeated (seeded change C14-r5m1:
    # a 'previous counter' that never existed) and of the per-command counter
    lambda: [('feed', L.frame(0, [mode_cmd(1, 6, 2)])), ('feed', L.frame(1, [mode_cmd(2, 7, 2)]))],
    lambda: [('feed', L.frame(0, [mode_cmd(2, 0, 2)])), ('feed', L.frame(0, [mode_cmd(1, 7, 2)])),
             ('feed', L.frame(2 ** 32 - 1, [mode_cmd(1, 2 ** 32 - 1, 2)])), ('feed', L.frame(2 ** 31, [mode_cmd(1, 0, 1)]))],
    lambda: [('feed', L.frame(5, [mode_cmd(2, 6, 51)])), ('feed', L.frame(7, [mode_cmd(2, 8, 2)])),
             ('feed', L.frame(9, [mode_cmd(2, 10, 3, L.bits_of(45.0), L.bits_of(0.5))])),
             ('feed', L.frame(11, [mode_cmd(2, 12, 52, 0, L.bits_of(0.25))])),
             ('feed', L.frame(13, [mode_cmd(2, 14, 7)])), ('feed', L.frame(15, [mode_cmd(2, 16, 8, 0, L.bits_of(0.3))])),
             ('feed', L.frame(17, [mode_cmd(2, 18, 8, 0, L.bits_of(0.3))])), ('tick',),
             ('feed', L.frame(19, [mode_cmd(2, 20, 50)])), ('feed', L.frame(21, [mode_cmd(2, 22, 1)]))],
]


def build_cases(ctx):
    T = tables(ctx)
    rng = ctx.rng
    pool = double_pool(T, rng)
    histories = []
    for mk in CORPUS:
        histories.append(('corpus', mk()))
    for _ in range(ctx.n(220, 3000)):
        histories.append(('directed', directed_history(ctx, T, pool, [])))
    for _ in range(ctx.n(260, 4000)):
        ops, tags = random_history(ctx, T, pool, [])
        histories.append(('random:' + ','.join(sorted(set(tags))), ops))
    for _ in range(ctx.n(60, 800)):
        histories.append(('param', param_history(ctx, T, pool, [])))
    return histories


def correspondence(ctx):
    histories = build_cases(ctx)
    cases = []
    with L.patched() as A:
        for kind, ops in histories:
            rec = L.run_history(A, ops)
            cases.append(L.coq_case(rec))
            ctx.count(kind.split(':')[0])
            for r in rec:
                if r['op'] != 'feed':
                    continue
                if any(o == L.O_VALUEERROR for o in r['outs']):
                    ctx.count('feed:framing-error')
                for sub, cid, cmd, t, exn in r['threads']:
                    ctx.count('thread:%s' % ['done', 'parked', 'died', 'skipped'][t])
                    if cid == 1 and sub in (1, 2):
                        ax = r['az'] if sub == 1 else r['el']
                        ctx.count('mode-answer:%d' % ax[17])
                ctx.nontriv((kind, r['bs'], tuple(r['outs'][-1:]), tuple(r['az']), tuple(r['el'])))
    for c in cases[:2]:
        ctx.sample(c[:600])
    ctx.run_cases('acu_commands', 'From DS Require Import Corr.AcmdCorr.', 'acase', 'ok', cases,
                  show='show', shard=ctx.n(40, 120))
    reset_correspondence(ctx)
    status_correspondence(ctx)


# ---------------------------------------------------------------------------
# property-level oracle on the implementation: the statement of C14 transcribed to Python
# (exact rational comparisons, independent of the model and of the code's float tests)

from fractions import Fraction


def spec_split(T, body):
    """the commands of a message body, or None when it is not a sequence of commands with known
    ids and the lengths those ids prescribe"""
    cmds = []
    while body:
        if len(body) < 2:
            return None
        cid = body[0] | body[1] << 8
        if cid in (1, 2):
            n = T['cmd_len']
        elif cid == 4:
            if len(body) < 18:
                return None
            n = T['pt_head'] + (body[16] | body[17] << 8) * T['pt_entry']
        else:
            return None
        if len(body) < n:
            return None
        cmds.append(bytes(body[:n]))
        body = body[n:]
    return cmds


def spec_verdict(T, prev, data):
    """what C14 prescribes for `data` arriving at an idle parser whose previous message counter
    is `prev`: ('executed', [(sub, cid, cmd)]), ('dropped',), ('pending',) or None (no claim:
    the bytes could be framed in more than one way)"""
    first = bytes([T['start_flag'][0]])
    start = bytes(T['start_flag'])
    end = bytes(T['end_flag'])

    def clean(rest):
        return first not in rest
    if data[:4] != start:
        k = 0
        while k < min(4, len(data)) and data[k] == start[k]:
            k += 1
        if len(data) <= k:
            return ('pending',)
        return ('dropped',) if clean(data[k:]) else None
    if len(data) < 8:
        return ('pending',)
    declared = struct.unpack('<I', data[4:8])[0]
    if declared < 20:
        return ('dropped',) if clean(data[8:]) else None
    if len(data) < 12:
        return ('pending',)
    counter = struct.unpack('<I', data[8:12])[0]
    if prev is not None and counter == prev:
        return ('dropped',) if clean(data[12:]) else None
    if declared > len(data):
        return ('pending',)
    frame, rest = data[:declared], data[declared:]
    if not clean(rest):
        return None
    if frame[-4:] != end:
        return ('dropped',)
    count = struct.unpack('<i', frame[12:16])[0]
    cmds = spec_split(T, frame[16:-4])
    if cmds is None or len(cmds) != count:
        return ('dropped',)
    subs = [c[2] | c[3] << 8 for c in cmds]
    if len(set(subs)) != len(subs):
        return ('dropped',)
    out = []
    for c, sub in zip(cmds, subs):
        cid = c[0] | c[1] << 8
        if (sub, cid) not in T['handlers']:
            return ('dropped',)
        out.append((sub, cid, c))
    return ('executed', out)


def spec_answer(T, name, snap, mode, b1, b2):
    """(received mode, answer) C14 prescribes for a mode command on axis `name` whose state
    before the command is the snapshot `snap`"""
    c = T[name]
    if mode not in T['mode_commands'] or T['mode_commands'][mode] == '_ignore':
        return 0, 0
    x1, x2 = L.float_of(b1), L.float_of(b2)
    st, stow_ok, p_ist = snap[0], snap[9], snap[3]
    permitted = True
    if mode == 2:
        permitted = st == 0
    elif mode in (3, 4, 5, 7, 8, 52):
        permitted = st == 3
    elif mode == 15:
        permitted = st in (0, 1)
    elif mode == 50:
        permitted = bool(stow_ok)

    def fin(x):
        return math.isfinite(x)

    def rate_ok(x, lim):
        return fin(x) and abs(Fraction(x)) <= Fraction(lim)

    def pos_ok(x):
        return fin(x) and c['min_pos'] <= Fraction(x) <= c['max_pos']
    ok = True
    if mode == 3:
        ok = pos_ok(x1) and rate_ok(x2, c['max_velocity'])
    elif mode == 4:
        ok = fin(x1) and pos_ok(p_ist / 1000000 + x1) and rate_ok(x2, c['max_velocity'])
    elif mode == 5:
        ok = rate_ok(x1, 1) and rate_ok(x2, c['max_velocity'])
    elif mode == 8:
        ok = rate_ok(x2, c['max_velocity'])
    elif mode == 52:
        # a valid stow index and |rate| within half the maximum rate
        ok = fin(x1) and 0 <= Fraction(x1) < max(len(c['stow_pos']), 0) and \
            rate_ok(x2, T['stow_rate_factor'] * c['max_velocity'])
    return mode, (5 if not ok else 9 if permitted else 4)


def examine(A, T, ops, report):
    """run a history on a fresh System and check every statement of C14 at every message;
    report(klass, what, **details) is called for each failure"""
    s = L.new_system(A)
    # the previous message counter as the statement defines it (none on a fresh system; the counter of the last
    # message whose header was read), tracked here while every message so far arrived at an idle parser with a
    # complete start flag -- independently of the attribute the implementation keeps (seeded change C14-r5m1)
    own_prev, own_known = None, True
    start_flag = bytes(T['start_flag'])
    for k, op in enumerate(ops):
        if op[0] == 'poke':
            L.poke(s, op[1], op[2], op[3])
            continue
        if op[0] == 'tick':
            L.tick(s)
            continue
        data = bytes(op[1])
        idle_before = (s.msg == '')
        prev = own_prev if own_known else s.cmd_counter
        if own_known and idle_before and data[:4] == start_flag and len(data) >= 12 \
                and struct.unpack('<I', data[4:8])[0] >= 20:
            c12 = struct.unpack('<I', data[8:12])[0]
            if c12 != own_prev:
                own_prev = c12
            if start_flag[:1] in data[struct.unpack('<I', data[4:8])[0]:]:
                own_known = False   # bytes after the declared length could open another frame
        elif not (idle_before and len(data) >= 8 and data[:4] == start_flag
                  and struct.unpack('<I', data[4:8])[0] < 20 and start_flag[:1] not in data[8:]):
            own_known = False       # framing not certain any more: fall back to the implementation's own record
        before = dict(AZ=L.axis_snapshot(s.AZ), EL=L.axis_snapshot(s.EL), PS=L.ps_snapshot(s.PS))
        outs = L.feed(s, data)
        ev = L.take_events()
        after = dict(AZ=L.axis_snapshot(s.AZ), EL=L.axis_snapshot(s.EL), PS=L.ps_snapshot(s.PS))
        where = dict(op=k, msg=data.hex())
        if L.O_EXCEPTION in outs or L.O_OTHER in outs:
            report('parse_unexpected_exception', 'System.parse raised something other than ValueError '
                   'or returned a non-bool', **where)
        verdict = spec_verdict(T, prev, data) if idle_before else None
        started = [(sub, cid, cmd) for sub, cid, cmd, t, exn in ev]
        if verdict is not None:
            if verdict[0] == 'executed':
                if started != verdict[1]:
                    report('wellformed_not_executed', 'a well-formed message was not executed as its commands, '
                           'in order', started=[(a, b, c.hex()) for a, b, c in started], **where)
                else:
                    # the frame proper ends at its declared length; bytes after it (present only in
                    # corrupted-length inputs, and free of start bytes, see spec_verdict) are discarded
                    declared = struct.unpack('<I', data[4:8])[0]
                    if s.msg != '' or any(o != L.O_TRUE for o in outs[:declared]) \
                            or any(o != L.O_FALSE for o in outs[declared:]):
                        report('wellformed_not_clean', 'a well-formed message did not answer True to every byte '
                               'or left the parser busy', outs=outs[-4:], **where)
            else:
                if started or after != before:
                    report('malformed_not_dropped_whole', 'a message that is not well-formed started commands or '
                           'changed subsystem state', started=[(a, b, c.hex()) for a, b, c in started], **where)
                if verdict[0] == 'dropped' and s.msg != '':
                    report('malformed_left_parser_busy', 'a rejected message left the parser waiting', **where)
                if verdict[0] == 'dropped' and len(data) >= 8 and data[:4] == bytes(T['start_flag']) \
                        and struct.unpack('<I', data[4:8])[0] < 20 and outs[7] != L.O_VALUEERROR:
                    report('impossible_length_not_rejected', 'a declared length below 20 was not rejected at '
                           'byte 8', **where)
        elif not started and after != before:
            report('state_changed_without_command', 'subsystem state changed although no command was started',
                   **where)
        # per command: answers, echo, refused commands change nothing.  Commands of one message go
        # to distinct subsystems, so `before` is the state each of them saw.
        if len({e[0] for e in ev}) != len(ev):
            continue        # more than one message completed inside this feed: no single `before` state
        for sub, cid, cmd, t, exn in ev:
            name = {1: 'AZ', 2: 'EL'}.get(sub)
            if name is None or len(cmd) != 26:
                continue
            b, a = before[name], after[name]
            counter = struct.unpack('<I', cmd[4:8])[0]
            w = dict(axis=name, cmd=cmd.hex(), state_before=b, **where)
            if cid == 1:
                mode = struct.unpack('<h', cmd[8:10])[0]
                b1, b2 = struct.unpack('<QQ', cmd[10:26])
                emode, eans = spec_answer(T, name, b, mode, b1, b2)
                rx = tuple(a[15:18])
                if rx[0] != counter:
                    report('mode_counter_not_echoed', 'received_mode_command_counter does not echo the command '
                           'counter (thread outcome %s %s)' % (t, exn), got=rx, **w)
                    continue
                if rx[1:] != (emode, eans):
                    klass = 'mode_answer_wrong'
                    if mode == 52 and not T[name]['stow_pos'] and rx[2] in (9, 4) and eans == 5:
                        klass = 'drive_to_stow_without_stow_positions_unvalidated'
                    report(klass, 'answer to a mode command differs from the one C14 prescribes: got %r, '
                           'expected %r' % (rx[1:], (emode, eans)), **w)
                    continue
                if eans == 9:
                    if tuple(a[18:20]) != (counter, mode) or a[20] not in (1, 2):
                        report('executed_counter_not_echoed', 'accepted command not reflected in the executed '
                               'counter/mode/answer', got=a[18:21], **w)
                    if t == L.T_DIED:
                        report('accepted_command_thread_died', 'the thread of an accepted command died (%s)' % exn, **w)
                else:
                    if [a[i] for i in L.MOTION_IDX] != [b[i] for i in L.MOTION_IDX] or a[18:21] != b[18:21]:
                        report('refused_command_altered_state', 'a command that was not accepted altered motion, '
                               'brakes, stow pins, offsets or the executed-command fields', after=a, **w)
                    if t != L.T_DONE:
                        report('refused_command_thread', 'the thread of a refused command did not end normally', **w)
                if a[21:24] != b[21:24]:
                    report('mode_command_touched_parameter_fields', 'parameter command fields changed', **w)
            elif cid == 2:
                if a[21] != counter:
                    report('parameter_counter_not_echoed', 'parameter_command_counter does not echo', got=a[21], **w)
                others = [i for i in L.MOTION_IDX if i != 6]
                if [a[i] for i in others] != [b[i] for i in others] or a[15:21] != b[15:21]:
                    report('parameter_command_altered_motion', 'a parameter command altered more than the offset', **w)
                if a[6] != b[6] and not (t == L.T_DONE and a[23] == 1 and b[0] == 3):
                    report('offset_changed_without_acceptance', 'the offset changed although the parameter '
                           'command was not executed', **w)


def corpus_files(prop, prefix='acmd_'):
    """minimised past cases kept in /verif/corpus/<prop>/acmd_*.json (run first on every run)"""
    import glob
    import json
    import os
    d = os.path.join(os.path.dirname(os.path.dirname(os.path.abspath(__file__))), 'corpus', prop)
    out = []
    for f in sorted(glob.glob(os.path.join(d, prefix + '*.json'))):
        try:
            out.append((os.path.basename(f), json.load(open(f))))
        except Exception:      # an unreadable corpus file must not break the check
            continue
    return out


def oracle(ctx):
    T = tables(ctx)
    pool = double_pool(T, ctx.rng)
    histories = [('corpus', mk()) for mk in CORPUS]
    histories += [('corpus', ops_from_json(js['history'])) for _, js in corpus_files('C14') if 'history' in js]
    for _ in range(ctx.n(500, 8000)):
        histories.append(('directed', directed_history(ctx, T, pool, [])))
    for _ in range(ctx.n(500, 8000)):
        ops, tags = random_history(ctx, T, pool, [])
        histories.append(('random', ops))
    for _ in range(ctx.n(100, 1500)):
        histories.append(('param', param_history(ctx, T, pool, [])))
    seen = set()
    checked = 0
    with L.patched() as A:
        for kind, ops in histories:
            def report(klass, what, **details):
                if klass in seen and len(ctx.failures) > 40:
                    return
                seen.add(klass)
                ctx.fail(klass, what, dict(history=ops_to_json(ops), **details))
            examine(A, T, ops, report)
            checked += sum(1 for o in ops if o[0] == 'feed')
    checked += reset_oracle(ctx, T, pool)
    checked += status_oracle(ctx, T, pool)
    ctx.oracle_stats = dict(histories=len(histories), messages=checked)
    ctx.evaluations += checked


def ops_to_json(ops):
    return [[o[0], bytes(o[1]).hex()] if o[0] == 'feed' else list(o) for o in ops]


def ops_from_json(js):
    return [('feed', bytes.fromhex(o[1])) if o[0] == 'feed' else tuple(o) for o in js]


def replay(ctx, obj):
    """re-execute the recorded history; True when the recorded class still fails"""
    T = tables(ctx)
    hits = []
    if 'status_case' in obj['witness']:
        with L.patched() as A:
            status_examine(A, T, obj['witness']['status_case'], lambda klass, what, **d: hits.append(klass))
        return obj.get('klass') in hits
    if 'reset_case' in obj['witness']:
        with L.patched() as A:
            reset_examine(A, T, obj['witness']['reset_case'], lambda klass, what, **d: hits.append(klass))
        return obj.get('klass') in hits
    with L.patched() as A:
        examine(A, T, ops_from_json(obj['witness']['history']),
                lambda klass, what, **d: hits.append(klass))
    return obj.get('klass') in hits


# ---------------------------------------------------------------------------
# status flags and `_reset` (mode command 15): Model/AcmdReset.v, Corr/AcmdResetCorr.v,
# theorems C14_reset_effect / C14_reset_refused_unchanged / C14_flags_only_by_reset.
# A reset case (JSON-able): dict(prep=[op, ..], frame=hex) on a fresh System (idle parser):
#   ['poke', which, field, value]   acmd_lib.poke (axis_state / p_Ist / p_Offset setters)
#   ['flag', which, name, bool]     a status flag through the class's own setter
#   ['rawerr', which, [bit, ..]]    the unnamed bits of the error word, written the way the
#                                   setters write it (no setter exists for them)

GEN_FLAGS = ['simulation', 'axis_ready', 'confOk', 'initOk', 'override', 'low_power_mode']
AUX_FIELDS = ['p_Bahn', 'p_AbwFil', 'v_Bahn', 'a_Bahn', 'motor_selection', 'power_module_ok', 'ptState',
              'stow_pin_selection']
XSNAP_FIELDS = L.SNAP_FIELDS + ['general_flags', 'warnings(without bit 25)', 'errors'] + AUX_FIELDS
WARN_OWNED_BY_MOTION = 1 << 25       # Stowpins_Extracted: field 12 of the axis snapshot
UNNAMED_ERR_BITS = [5, 10, 20, 21, 28]


def warning_flag_names(T):
    """the boolean flags of the warning word that have a setter (Stowpins_Extracted excluded: it
    is a field of the motion record), found by probing a scratch SimpleAxisStatus"""
    from simulators.acu.axis_status import SimpleAxisStatus
    skip = {n for n, _ in T['error_flags']} | set(GEN_FLAGS) | {'Stowpins_Extracted'}
    out = []
    for n, prop in vars(SimpleAxisStatus).items():
        if not isinstance(prop, property) or prop.fset is None or n in skip:
            continue
        probe = SimpleAxisStatus()
        v = getattr(probe, n)
        if not isinstance(v, bool):
            continue
        w0, e0 = probe.warnings, probe.errors
        setattr(probe, n, not v)
        if probe.warnings != w0 and probe.errors == e0:
            out.append(n)
    return out


def xsnapshot(ax):
    gen = sum(int(bool(getattr(ax, n))) << i for i, n in enumerate(GEN_FLAGS))
    warn = int(ax.warnings[::-1], 2) & ~WARN_OWNED_BY_MOTION
    err = int(ax.errors[::-1], 2)
    aux = [ax.p_Bahn, ax.p_AbwFil, ax.v_Bahn, ax.a_Bahn, L.b16(ax.motor_selection),
           L.b16(ax.power_module_ok), ax.ptState, L.b16(ax.stow_pin_selection)]
    return L.axis_snapshot(ax) + [gen, warn, err] + aux


def apply_prep(s, prep):
    from simulators import utils
    for op in prep:
        ax = s.AZ if op[1] == 0 else s.EL
        if op[0] == 'poke':
            L.poke(s, op[1], op[2], op[3])
        elif op[0] == 'flag':
            setattr(ax, op[2], bool(op[3]))
        elif op[0] == 'set':
            setattr(ax, op[2], op[3])
        elif op[0] == 'rawerr':
            errors = list(ax.errors)
            for k in op[2]:
                errors[k] = '1'
            ax.status[10:14] = utils.binary_to_bytes(''.join(errors)[::-1])


def run_reset_case(A, case):
    s = L.new_system(A)
    apply_prep(s, case['prep'])
    L.take_events()
    pre = (xsnapshot(s.AZ), xsnapshot(s.EL))
    data = bytes.fromhex(case['frame'])
    outs = L.feed(s, data)
    ev = L.take_events()
    post = (xsnapshot(s.AZ), xsnapshot(s.EL))
    return pre, outs, ev, post


def gen_reset_case(ctx, T, pool, wnames):
    rng = ctx.rng
    prep = []
    enames = [n for n, _ in T['error_flags']]
    for which in (0, 1):
        r = rng.random()
        if r < 0.8:
            prep.append(['poke', which, 0, rng.choice([0, 0, 1, 1, 2, 3, 3])])
        c = T['AZ' if which == 0 else 'EL']
        if rng.random() < 0.3:
            prep.append(['poke', which, 1, rng.randrange(c['min_pos'] * 10 ** 6, c['max_pos'] * 10 ** 6 + 1)])
        if rng.random() < 0.2:
            prep.append(['poke', which, 2, rng.choice([0, 1, -1, 123456789, -2 ** 31])])
        r = rng.random()
        pe = 1.0 if r < 0.2 else 0.0 if r < 0.3 else rng.choice([0.1, 0.5, 0.9])
        for n in enames:
            if rng.random() < pe:
                prep.append(['flag', which, n, True])
        if r < 0.2 and rng.random() < 0.5:       # all but one
            prep.append(['flag', which, rng.choice(enames), False])
        pw = rng.choice([0.0, 0.3, 1.0])
        for n in wnames:
            if rng.random() < pw:
                prep.append(['flag', which, n, True])
        for n in GEN_FLAGS:
            if rng.random() < 0.4:
                prep.append(['flag', which, n, rng.random() < 0.5])
        if rng.random() < 0.35:
            prep.append(['rawerr', which, [k for k in UNNAMED_ERR_BITS if rng.random() < 0.6]])
    subs = rng.choice([[1], [2], [1, 2], [2, 1], [1, 2], []])
    cmds = []
    for sub in subs:
        r = rng.random()
        c = rng.choice([rng.randrange(2 ** 32), 0, 2 ** 31, 2 ** 32 - 1, rng.randrange(1, 100)])
        if r < 0.7:
            cmds.append(mode_cmd(sub, c, 15, rnd_double(ctx, T, pool), rnd_double(ctx, T, pool)))
        elif r < 0.9:
            cmds.append(gen_command(ctx, T, pool, sub=sub, kind='mode'))
        else:
            cmds.append(gen_command(ctx, T, pool, sub=sub, kind='param'))
    counter = rng.choice([rng.randrange(2 ** 32), 0, 1, 2 ** 32 - 1])
    r = rng.random()
    if r < 0.8:
        f, tag = L.frame(counter, cmds), 'valid'
    elif r < 0.87:
        f, tag = L.frame(counter, cmds, end=b'\xd1\xcf\xfc\xa0'), 'bad-end'
    elif r < 0.94:
        f, tag = L.frame(counter, cmds, count=len(cmds) + 1), 'bad-count'
    else:
        f, tag = L.frame(counter, cmds)[:-rng.randrange(1, 6)], 'truncated'
    return dict(prep=prep, frame=f.hex()), tag


RESET_CORPUS = [
    # every flag set, AZ inactive: accepted; EL active: refused
    lambda T: dict(prep=[['flag', w, n, True] for w in (0, 1) for n, _ in T['error_flags']]
                   + [['rawerr', 0, UNNAMED_ERR_BITS], ['rawerr', 1, UNNAMED_ERR_BITS], ['poke', 1, 0, 3]],
                   frame=L.frame(5, [mode_cmd(1, 6, 15), mode_cmd(2, 7, 15)]).hex()),
    # deactivating axis: accepted
    lambda T: dict(prep=[['poke', 0, 0, 1]] + [['flag', 0, n, True] for n, _ in T['error_flags'][::2]],
                   frame=L.frame(5, [mode_cmd(1, 2 ** 31 + 6, 15, NAN, PINF)]).hex()),
    # activating (2): refused
    lambda T: dict(prep=[['poke', 1, 0, 2]] + [['flag', 1, n, True] for n, _ in T['error_flags']],
                   frame=L.frame(5, [mode_cmd(2, 6, 15)]).hex()),
] + [
    # every mode handler with every flag set, on the inactive and on the active axis: only reset clears
    (lambda m, st: (lambda T: dict(
        prep=[['flag', w, n, True] for w in (0, 1) for n, _ in T['error_flags']]
        + [['rawerr', 0, UNNAMED_ERR_BITS], ['poke', 0, 0, st], ['poke', 1, 0, st]],
        frame=L.frame(3, [mode_cmd(1, 100 + m, m, L.bits_of(1.0), L.bits_of(0.25)),
                          mode_cmd(2, 200 + m, m, L.bits_of(0.0), L.bits_of(0.25))]).hex())))(m, st)
    for m in MODES + BAD_MODES[:2] for st in (0, 3)
] + [
    # parameter commands with every flag set
    (lambda st: (lambda T: dict(
        prep=[['flag', w, n, True] for w in (0, 1) for n, _ in T['error_flags']]
        + [['poke', 0, 0, st], ['poke', 1, 0, st]],
        frame=L.frame(3, [L.cmd26(2, 1, 7, 11, L.bits_of(0.5), 0), L.cmd26(2, 2, 8, 12, L.bits_of(-0.5), 0)]).hex())))(st)
    for st in (0, 3)
] + [
    # one flag at a time
    (lambda k: (lambda T: dict(prep=[['flag', k % 2, T['error_flags'][k % len(T['error_flags'])][0], True]],
                               frame=L.frame(9, [mode_cmd(1 + k % 2, 10 + k, 15)]).hex())))(k)
    for k in range(27)
]


def reset_cases(ctx, T, pool, n):
    wnames = warning_flag_names(T)
    cases = [('corpus', mk(T)) for mk in RESET_CORPUS]
    for _ in range(n):
        case, tag = gen_reset_case(ctx, T, pool, wnames)
        cases.append((tag, case))
    return cases


def reset_correspondence(ctx):
    T = tables(ctx)
    pool = double_pool(T, ctx.rng)
    terms = []
    with L.patched() as A:
        for tag, case in reset_cases(ctx, T, pool, ctx.n(150, 2500)):
            pre, outs, ev, post = run_reset_case(A, case)
            th = '[' + '; '.join('(%s, %s, %s, %d)' % (zlit(a), zlit(b), zlist(c), d) for a, b, c, d, _ in ev) + ']'
            terms.append('RCase %s %s %s %s %s %s %s' % (zlist(pre[0]), zlist(pre[1]),
                                                         zlist(bytes.fromhex(case['frame'])), zlist(outs), th,
                                                         zlist(post[0]), zlist(post[1])))
            ctx.count('reset-case:' + tag)
            for sub, cid, cmd, t, exn in ev:
                if cid == 1 and len(cmd) == 26 and cmd[8:10] == b'\x0f\x00':
                    a = post[0] if sub == 1 else post[1]
                    ctx.count('reset-answer:%d' % a[17])
                    ctx.nontriv(('reset', sub, tuple(pre[sub - 1]), a[17]))
    ctx.sample(terms[0][:600])
    ctx.run_cases('acu_reset', 'From DS Require Import Corr.AcmdResetCorr.', 'rcase', 'rok', terms,
                  show='rshow', shard=ctx.n(60, 200))


def reset_examine(A, T, case, report):
    """the statements C14_reset_effect / C14_reset_refused_unchanged / C14_flags_only_by_reset over
    the real classes, for one reset case"""
    pre, outs, ev, post = run_reset_case(A, case)
    named = T['error_flags']
    named_mask = sum(1 << k for _, k in named)
    E = len(L.SNAP_FIELDS) + 2          # index of the error word in an xsnapshot
    touched = {}
    for e in ev:
        touched.setdefault(e[0], []).append(e)
    for which, sub in ((0, 1), (1, 2)):
        b, a = pre[which], post[which]
        name = L.AXES[which]

        def diff():
            return {XSNAP_FIELDS[i]: (b[i], a[i]) for i in range(len(b)) if a[i] != b[i]}
        w = dict(axis=name, reset_case=case, state_before=b[0], errors_before=b[E], errors_after=a[E])
        evs = touched.get(sub, [])
        if not evs:
            if a != b:
                report('flags_changed_without_command', 'axis status changed although no command was started '
                       'for the axis', changed=diff(), **w)
            continue
        if len(evs) != 1:
            continue
        _, cid, cmd, t, exn = evs[0]
        is_reset = cid == 1 and len(cmd) == 26 and struct.unpack('<h', cmd[8:10])[0] == T['reset_mode']
        flags_same = a[24:] == b[24:]
        if not is_reset:
            if not flags_same:
                report('flags_changed_without_reset', 'a command other than reset changed status flags',
                       changed=diff(), cmd=cmd.hex(), **w)
            continue
        counter = struct.unpack('<I', cmd[4:8])[0]
        if b[0] in (0, 1):
            left = [n for n, k in named if a[E] >> k & 1]
            if left:
                report('reset_flag_not_cleared', 'an accepted reset left error flags set: %s' % ', '.join(left),
                       cmd=cmd.hex(), **w)
            others = [i for i in range(len(b)) if i not in (15, 16, 17, 18, 19, 20, E)]
            if any(a[i] != b[i] for i in others) or (a[E] ^ b[E]) & ~named_mask:
                report('reset_changed_other_state', 'an accepted reset changed something besides the error '
                       'flags and the received / executed command fields', changed=diff(), cmd=cmd.hex(), **w)
            if a[15:21] != [counter, T['reset_mode'], 9, counter, T['reset_mode'], T['reset_answer']] \
                    or t != L.T_DONE:
                report('reset_not_acknowledged', 'an accepted reset is not reflected as (counter, 15, 9) / '
                       '(counter, 15, 1), or its thread did not end normally (%s %s)' % (t, exn),
                       got=a[15:21], cmd=cmd.hex(), **w)
        else:
            keep = [i for i in range(len(b)) if i not in (15, 16, 17)]
            if any(a[i] != b[i] for i in keep):
                report('reset_refused_changed_state', 'a reset that is not permitted (axis state %d) changed '
                       'status flags, motion or the executed fields' % b[0], changed=diff(), cmd=cmd.hex(), **w)
            if a[15:18] != [counter, T['reset_mode'], 4] or t != L.T_DONE:
                report('reset_refused_wrong_answer', 'a reset on an axis in state %d is not answered 4' % b[0],
                       got=a[15:18], cmd=cmd.hex(), **w)


def reset_oracle(ctx, T, pool):
    seen = set()
    cases = reset_cases(ctx, T, pool, ctx.n(400, 6000))
    with L.patched() as A:
        for tag, case in cases:
            def report(klass, what, **details):
                if klass in seen and len(ctx.failures) > 40:
                    return
                seen.add(klass)
                ctx.fail(klass, what, details)
            reset_examine(A, T, case, report)
    return len(cases)


# ---------------------------------------------------------------------------
# update_status (limit / rate warning bits) and the slave axis: Model/AcmdStatus.v,
# Corr/AcmdStatusCorr.v, theorems C14_update_status / C14_slave_axis.
# A status case: dict(prep=[..] (ops as above plus ['set', which, attribute, int]), which=0|1)
#             or dict(cw=True, master_state=n, garbage=mask)

def gen_status_case(ctx, T, wnames):
    rng = ctx.rng
    if rng.random() < 0.15:
        return dict(cw=True, master_state=rng.choice([0, 1, 2, 3, 3]), garbage=rng.choice([0, 1, 0xffff, 0x8001]))
    which = rng.randrange(2)
    c = T['AZ' if which == 0 else 'EL']
    lo, hi = c['min_pos'] * 10 ** 6, c['max_pos'] * 10 ** 6
    vmax = int(round(c['max_velocity'] * 1000000))
    stow = [x * 10 ** 6 for x in c['stow_pos']]
    prep = []
    if rng.random() < 0.9:
        prep.append(['poke', which, 1, rng.choice([lo, hi, lo - 1, hi + 1, lo + 1, hi - 1, lo - 7, hi + 7,
                                                    rng.randrange(lo, hi + 1)] + stow + [x + 1 for x in stow])])
    if rng.random() < 0.9:
        prep.append(['set', which, 'v_Ist', rng.choice([0, vmax, -vmax, vmax + 1, -vmax - 1, vmax - 1, 1 - vmax,
                                                         2 ** 31 - 1, -2 ** 31, rng.randrange(-2 * vmax, 2 * vmax)])])
    if rng.random() < 0.5:
        prep.append(['poke', which, 0, rng.choice([0, 1, 2, 3])])
    pw = rng.choice([0.0, 0.5, 1.0])
    for n in wnames:
        if rng.random() < pw:
            prep.append(['flag', which, n, True])
    pe = rng.choice([0.0, 0.5])
    for n, _ in T['error_flags']:
        if rng.random() < pe:
            prep.append(['flag', which, n, True])
    return dict(prep=prep, which=which)


def run_status_case(A, case):
    s = L.new_system(A)
    if case.get('cw'):
        s.AZ.axis_state = case['master_state']
        s.CW.brakes_open = [bool(case['garbage'] >> i & 1) for i in range(16)]
        before = bytes(s.CW.status[:])
        s.CW.update_status()
        return before, bytes(s.CW.status[:]), L.b16(s.CW.brakes_open), L.b16([True] * len(s.CW.motor_status))
    apply_prep(s, case['prep'])
    ax = s.AZ if case['which'] == 0 else s.EL
    pre = xsnapshot(ax)
    ax.update_status()
    return pre, xsnapshot(ax)


def status_cases(ctx, T, n):
    wnames = warning_flag_names(T)
    cases = [dict(cw=True, master_state=st, garbage=g) for st in (0, 1, 2, 3) for g in (0, 0xffff)]
    for which in (0, 1):
        c = T['AZ' if which == 0 else 'EL']
        lo, hi = c['min_pos'] * 10 ** 6, c['max_pos'] * 10 ** 6
        vmax = int(round(c['max_velocity'] * 1000000))
        for p in (lo - 1, lo, lo + 1, hi - 1, hi, hi + 1):
            for v in (vmax, vmax + 1, -vmax - 1):
                cases.append(dict(prep=[['poke', which, 1, p], ['set', which, 'v_Ist', v]], which=which))
    cases += [gen_status_case(ctx, T, wnames) for _ in range(n)]
    return cases


def status_correspondence(ctx):
    T = tables(ctx)
    terms = []
    with L.patched() as A:
        for case in status_cases(ctx, T, ctx.n(120, 2000)):
            r = run_status_case(A, case)
            if case.get('cw'):
                terms.append('SCw %s %s' % (zlit(case['master_state']), zlit(r[2])))
                ctx.count('status-case:cable-wrap')
            else:
                terms.append('STick %d %s %s' % (case['which'], zlist(r[0]), zlist(r[1])))
                ctx.count('status-case:update_status')
                ctx.nontriv(('tick', case['which'], tuple(r[0]), tuple(r[1])))
    ctx.run_cases('acu_status', 'From DS Require Import Corr.AcmdStatusCorr.', 'scase', 'sok', terms,
                  show='srun', shard=ctx.n(80, 300))


def status_examine(A, T, case, report):
    """C14_update_status / C14_slave_axis over the real classes"""
    r = run_status_case(A, case)
    if case.get('cw'):
        before, after, brakes, full = r
        want = full if case['master_state'] == T['cw_active_state'] else 0
        if brakes != want:
            report('cw_brakes_wrong', 'the cable wrap brakes do not follow the master axis state: got %#x, '
                   'expected %#x' % (brakes, want), status_case=case)
        return
    pre, post = r
    c = T['AZ' if case['which'] == 0 else 'EL']
    lo, hi = c['min_pos'] * 10 ** 6, c['max_pos'] * 10 ** 6
    vmax = Fraction(repr(c['max_velocity'])) * 10 ** 6
    p, v = pre[3], pre[5]
    W = len(L.SNAP_FIELDS) + 1
    bits = T['update_bits']
    want = {'Pre_Limit_Dn': p <= lo, 'Fin_Limit_Dn': p < lo, 'Pre_Limit_Up': p >= hi, 'Fin_Limit_Up': p > hi,
            'Rate_Limit': abs(v) > vmax}
    got = {n: bool(post[W] >> bits[n] & 1) for n in want}
    w = dict(status_case=case, p_Ist=p, v_Ist=v)
    if got != want:
        report('update_status_limit_bits_wrong', 'limit / rate warning bits after update_status: got %r, expected %r'
               % (got, want), **w)
    mask = sum(1 << bits[n] for n in want)
    same = all(post[i] == pre[i] for i in range(len(pre)) if i not in (9, W)) and \
        (post[W] ^ pre[W]) & ~mask == 0
    if not same:
        report('update_status_changed_other_state', 'update_status changed something besides stowPosOk and the '
               'five limit / rate bits',
               changed={XSNAP_FIELDS[i]: (pre[i], post[i]) for i in range(len(pre)) if pre[i] != post[i]}, **w)
    if c['stow_pos'] and bool(post[9]) != (p in [x * 10 ** 6 for x in c['stow_pos']]):
        report('update_status_stowPosOk_wrong', 'stowPosOk does not say whether the axis is at a stow position', **w)


def status_oracle(ctx, T, pool):
    seen = set()
    cases = status_cases(ctx, T, ctx.n(300, 5000))
    with L.patched() as A:
        for case in cases:
            def report(klass, what, **details):
                if klass in seen and len(ctx.failures) > 40:
                    return
                seen.add(klass)
                ctx.fail(klass, what, details)
            status_examine(A, T, case, report)
    return len(cases)
