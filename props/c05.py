"""C05 — aggregator: the per-simulator parts live in props/parts/c05_*.py (see FRAMEWORK.md)."""

META = dict(
    id='C05',
    title='Acknowledged writes are read back exactly; refused writes change nothing',
    design_ref='DESIGN.md section 7, C05',
    technique='Coq proof (read-back / frame theorems per modelled simulator) + in-Coq differential correspondence per simulator part',
    level_text='per-simulator Coq theorems: acknowledged write then read-back returns the written value until the next acknowledged write/reset; refused writes leave every catalogue read-back unchanged; models tied to the code by in-Coq differential correspondence' + '. Partial in breadth: the evidence file lists the simulator parts covered on each run; '
               'simulators without a part are not covered.',
    level_note='Trusted: Coq kernel + vm_compute; the hand-written models as validated by the correspondence '
               'suites; CPython builtins mirrored by the models (see DESIGN.md section 8).',
    partial='breadth: only the simulators that have a ready part (see coverage.parts)',
    rule='one case = one byte history / request sequence on one simulator instance; non-trivial = distinct '
         'history that reaches an executed command, a refused command or a framing error',
)
