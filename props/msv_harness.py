"""Minor-servo PLC (tag Msv): deterministic driver of the REAL simulators.minor_servos.System,
shared by props/c20.py and the parts c02_ms … c05_ms.

No repo hooks: while a `Rig` is alive the module attributes `threading`, `time`, `random` and
`splev` of simulators.minor_servos are replaced by fakes (restored by `close()`):
  * threading.Thread -> inert object (no update thread: the harness runs System._update itself,
    one iteration at a time); threading.Timer -> timer on the harness' integer tick clock;
  * time.time() -> T0 + tick/1024 (frozen while a command executes), time.sleep -> no-op;
  * random.uniform -> recorded draws from the case's seeded stream;
  * splev -> the real scipy splev, its results recorded per servo.
Every operation yields a Coq `MOp`/`MRefresh` term holding inputs, oracle inputs and the replies
the implementation gave; `case_term()` adds the oracle graphs (float(), int(), '.6f' computed by
the Python builtins) and the final attribute snapshot.
"""
import math
import random as _random
import struct
import threading as _threading
import types

from vlib.core import zlit, zlist, blit

TICKS = 1024          # ticks per second


def fbits(x):
    return struct.unpack('>Q', struct.pack('>d', float(x)))[0]


def olit(x, f=zlit):
    return 'None' if x is None else '(Some %s)' % f(x)


def pair(t):
    return '(%s, %s)' % (zlit(t[0]), zlit(t[1]))


def s2l(s):
    return [ord(c) for c in s]


class _Thread:
    def __init__(self, *a, **k):
        self.daemon = False
        self.target = k.get('target')
        self.args = k.get('args', ())

    def start(self):
        pass

    def join(self, timeout=None):
        pass

    def is_alive(self):
        return False


class Rig:
    def __init__(self, t0=1000.0, timer_value=5, seed=0):
        import simulators.minor_servos as ms
        self.ms = ms
        self.saved = {k: getattr(ms, k) for k in ('threading', 'time', 'random', 'splev', 'splrep')}
        self.tick = 0
        self.t0 = float(t0)
        self.timers = []          # live VTimer objects
        self.seq = 0
        self.rng = _random.Random(seed)
        self.draws = []
        self.spl_log = []         # (servo name, value)
        self.lines = []           # messages passed to _execute
        self.splrep_ok = True
        rig = self

        class VTimer:
            def __init__(self, interval, function, args=None, kwargs=None):
                self.interval, self.function = interval, function
                self.args = list(args or [])
                self.kwargs = dict(kwargs or {})
                self.daemon = False
                self.state = 'new'
                self.fire_tick = None

            def start(self):
                if self.state != 'new':
                    raise RuntimeError('threads can only be started once')
                ft = self.interval * TICKS
                if ft != int(ft):
                    raise AssertionError('timer interval not on the tick grid')
                self.fire_tick = rig.tick + int(ft)
                rig.seq += 1
                self.seq = rig.seq
                self.state = 'pending'
                rig.timers.append(self)

            def cancel(self):
                if self.state == 'pending':
                    self.state = 'cancelled'
                    rig.timers.remove(self)
                elif self.state == 'new':
                    self.state = 'cancelled'

            def is_alive(self):
                return self.state == 'pending'

            def join(self, timeout=None):
                if self.state == 'new':
                    raise RuntimeError('cannot join thread before it is started')

        self.VTimer = VTimer
        ms.threading = types.SimpleNamespace(Thread=_Thread, Timer=VTimer, Lock=_threading.Lock)
        ms.time = types.SimpleNamespace(time=self.now, sleep=lambda s: None)

        def uniform(a, b):
            x = rig.rng.uniform(a, b)
            rig.draws.append(x)
            return x
        ms.random = types.SimpleNamespace(uniform=uniform)
        real_splev = self.saved['splev']

        def splev(x, tck, *a, **k):
            r = real_splev(x, tck, *a, **k)
            name = None
            for n, sv in rig.system.servos.items():
                if any(t is tck for t in getattr(sv, 'pt_table', [])):
                    name = n
            rig.spl_log.append((name, float(r.item(0))))
            return r
        ms.splev = splev
        self.timer_value = timer_value
        self.system = None
        import os
        os.environ.pop('ACS_CDB', None)      # the packaged setup.csv, as the translator reads it
        try:
            self.system = ms.System(timer_value=timer_value, rest_api=False)
        except Exception:
            for k, v in self.saved.items():
                setattr(ms, k, v)
            raise
        orig = self.system._execute

        real_splrep = ms.splrep

        def splrep(*a, **k):
            try:
                return real_splrep(*a, **k)
            except Exception:
                rig.splrep_ok = False
                raise
        ms.splrep = splrep

        def _execute(msg):
            rig.lines.append(msg)
            return orig(msg)
        self.system._execute = _execute
        self.names = list(self.system.servos)
        self.ops = []
        self.update_exc = None
        self.rendered = {}        # bits -> text
        self.note_values()

    # -- clock -----------------------------------------------------------------
    def now(self):
        return self.t0 + self.tick / float(TICKS)

    def advance(self, dticks):
        self.tick += dticks
        due = sorted([t for t in self.timers if t.fire_tick <= self.tick], key=lambda t: (t.fire_tick, t.seq))
        for t in due:
            t.state = 'fired'
            self.timers.remove(t)
            t.function(*t.args, **t.kwargs)

    def close(self):
        for k, v in self.saved.items():
            setattr(self.ms, k, v)
        try:
            self.system.system_stop()
        except Exception:
            pass

    # -- bookkeeping ------------------------------------------------------------
    def note(self, x):
        x = float(x)
        self.rendered[fbits(x)] = format(x, '.6f')

    def note_values(self):
        self.note(self.now())
        for sv in self.system.servos.values():
            for x in list(sv.coords) + list(sv.offsets):
                self.note(x)

    def _begin(self):
        self.draws, self.spl_log, self.splrep_ok = [], [], True

    # -- operations ---------------------------------------------------------------
    def feed(self, data, dticks=0):
        """advance the clock, then feed the characters of `data` (str, code points < 256); the data
        are cut after every CRLF so that an operation completes at most one command"""
        out = []
        chunks, cur = [], ''
        for ch in data:
            cur += ch
            if cur.endswith('\r\n'):
                chunks.append(cur)
                cur = ''
        if cur or not chunks:
            chunks.append(cur)
        for k, chunk in enumerate(chunks):
            self.advance(dticks if k == 0 else 0)
            self._begin()
            obs = []
            for i, ch in enumerate(chunk):
                try:
                    r = self.system.parse(ch)
                except Exception as ex:     # noqa
                    r = ex
                if r is True:
                    continue
                if isinstance(r, str):
                    obs.append((i, s2l(r)))
                    out.append(r)
                else:
                    obs.append((i, [-1]))
                    out.append(r)
            self.note_values()
            for d in self.draws:
                self.note(d)
            spl = [v for _, v in self.spl_log]
            self.ops.append('MOp %s %s %s %s %s %s [%s]' % (
                zlit(self.tick), zlit(fbits(self.now())), zlist([fbits(d) for d in self.draws]),
                zlist([fbits(v) for v in spl]), blit(self.splrep_ok), zlist(s2l(chunk)),
                '; '.join('(%s, %s)' % (zlit(i), zlist(r)) for i, r in obs)))
        return out

    def refresh(self, dticks=0):
        """advance the clock, then run exactly one iteration of the real System._update"""
        self.advance(dticks)
        self._begin()

        class Stop:
            def __init__(self):
                self.n = 0

            @property
            def value(self):
                self.n += 1
                return self.n > 1
        exc = False
        try:
            self.ms.System._update(Stop(), self.system.servos)
        except Exception as ex:     # noqa: the real update thread would die here
            self.update_exc = ex
            exc = True
        self.note_values()
        per = []
        for n in self.names:
            per.append(zlist([fbits(v) for nm, v in self.spl_log if nm == n]))
        self.ops.append('MRefresh %s %s [%s] %s' % (zlit(self.tick), zlit(fbits(self.now())), '; '.join(per),
                                                    blit(exc)))

    # -- snapshot / case ------------------------------------------------------------
    def timer_of(self, t):
        if isinstance(t, self.VTimer) and t.state == 'pending':
            return (t.fire_tick, t.args[1])
        return None

    def snapshot(self):
        s = self.system
        svs = []
        for n in self.names:
            sv = s.servos[n]
            svs.append(dict(name=n, mode=sv.operative_mode.value, future=sv.future_oper_mode,
                            coords=[float(x) for x in sv.coords], cmd=[float(x) for x in sv.cmd_coords],
                            offs=[float(x) for x in sv.offsets], last=float(sv.last_status_read),
                            timer=self.timer_of(sv.operative_mode_timer),
                            alias=sv.cmd_coords is sv.coords,
                            tid=getattr(sv, 'trajectory_id', None), tstart=getattr(sv, 'trajectory_start_time', None),
                            tpid=getattr(sv, 'trajectory_point_id', None),
                            times=[float(x) for x in (getattr(sv, 'trajectory', None) or [[]])[0]],
                            pt=bool(getattr(sv, 'pt_table', []))))
        last = s.last_executed_command
        return dict(msg=s.msg, conf=s.configuration, gcap=s.gregorian_cap.value,
                    cover=self.timer_of(s.cover_timer),
                    last=None if last == 0 else last, servos=svs)

    def snap_term(self):
        sn = self.snapshot()
        svs = []
        for d in sn['servos']:
            svs.append('MSv %s %s %s %s %s %s %s %s %s %s %s %s %s' % (
                zlit(d['mode']), zlit(d['future']), zlist([fbits(x) for x in d['coords']]),
                zlist([fbits(x) for x in d['cmd']]), zlist([fbits(x) for x in d['offs']]),
                zlit(fbits(d['last'])), olit(d['timer'], pair), blit(d['alias']),
                olit(d['tid']), olit(None if d['tstart'] is None else fbits(d['tstart'])), olit(d['tpid']),
                zlist([fbits(x) for x in d['times']]), blit(d['pt'])))
        last = sn['last']
        if last is not None:
            # the text of plc_time(t): find the double it renders
            cands = [b for b, t in self.rendered.items() if t == last]
            last = cands[0] if cands else 0
        return 'MSnap %s %s %s %s %s [%s]' % (
            zlist(s2l(sn['msg'])), zlit(sn['conf']), zlit(sn['gcap']), olit(sn['cover'], pair),
            olit(last), '; '.join(svs))

    def oracle_tables(self):
        import re
        toks = []
        for msg in self.lines:
            for t in re.split('=|,', msg):
                t = t.strip()
                if t not in toks:
                    toks.append(t)
        fl, it = [], []
        for t in toks:
            try:
                f = fbits(float(t))
            except ValueError:
                f = None
            try:
                i = int(t)
            except ValueError:
                i = None
            fl.append('(%s, %s)' % (zlist(s2l(t)), olit(f)))
            it.append('(%s, %s)' % (zlist(s2l(t)), olit(i)))
        return fl, it

    def case_term(self):
        fl, it = self.oracle_tables()
        fmt = ['(%s, %s)' % (zlit(b), zlist(s2l(t))) for b, t in self.rendered.items()]
        ticks = self.timer_value * TICKS
        assert ticks == int(ticks)
        return 'MCase %s [%s] [%s] [%s] [%s] (%s)' % (
            zlit(int(ticks)), '; '.join(fl), '; '.join(it), '; '.join(fmt), ';\n '.join(self.ops),
            self.snap_term())


# ---------------------------------------------------------------------------------------------
# command generators (shared by the suites)

CONFIGS = ['Primario', 'Gregoriano1', 'Gregoriano2', 'Gregoriano3', 'Gregoriano4', 'Gregoriano5',
           'Gregoriano6', 'Gregoriano7', 'Gregoriano8', 'BWG1', 'BWG2', 'BWG3', 'BWG4']
WS = ['', '', '', ' ', '\t', '\xa0', '\x85', ' \x1c', '\n', '\r', '\x0b\x0c']
BADNUM = ['nan', 'NaN', '-nan', 'inf', '-inf', 'Infinity', '1e400', '-1e400', 'x', '', '1..2', '0x10', '1,5',
          '--1', '1e', 'None', '٣', '1_0', '+3', ' 7 ', '1e-320', '-0.0', '0']


def fnum(rng, lo, hi):
    k = rng.random()
    if k < 0.5:
        return repr(round(rng.uniform(lo, hi), rng.choice([0, 1, 3, 6])))
    if k < 0.7:
        return repr(rng.uniform(lo, hi))
    if k < 0.8:
        return str(int(rng.uniform(lo, hi)))
    return '%.3e' % rng.uniform(lo, hi)


def limits(rig):
    return {n: (list(sv.min_coord), list(sv.max_coord), list(sv.max_delta), sv.DOF,
                bool(sv.program_track_capable)) for n, sv in rig.system.servos.items()}


def preset_args(rng, lim, kind):
    """coordinate tokens for one servo.  kind: in / edge / out / nan / junk"""
    lo, hi, _, dof, _ = lim
    toks = [fnum(rng, lo[i], hi[i]) for i in range(dof)]
    j = rng.randrange(dof)
    if kind == 'edge':
        side = rng.choice([lo, hi])
        toks[j] = repr(float(side[j]))
    elif kind == 'edge_out':
        side = rng.choice(['lo', 'hi'])
        v = math.nextafter(lo[j], -math.inf) if side == 'lo' else math.nextafter(hi[j], math.inf)
        toks[j] = repr(v)
    elif kind == 'out':
        toks[j] = fnum(rng, hi[j] + 0.001, hi[j] + 500) if rng.random() < 0.5 else fnum(rng, lo[j] - 500, lo[j] - 0.001)
    elif kind == 'nan':
        toks[j] = rng.choice(['nan', 'NaN', '-nan', '+nan', 'nan ', 'inf', '-inf', '1e999'])
    elif kind == 'junk':
        toks[j] = rng.choice(BADNUM)
    elif kind == 'count':
        toks = toks + [toks[0]] if rng.random() < 0.5 else toks[:-1]
    return toks


def gen_command(rng, rig, lim, ptstate):
    """one command line (without the tail) from the grammar, mostly valid"""
    names = rig.names
    k = rng.random()
    w = lambda: rng.choice(WS) if rng.random() < 0.08 else ''
    # most histories concentrate on one servo, so that command interactions (STOW then STOP,
    # PRESET during SETUP, ...) on the same servo are frequent
    focus = ptstate.get('_focus')
    sv = focus if (focus is not None and rng.random() < 0.7) else rng.choice(names)
    if k < 0.22:
        return 'STATUS=' + w() + sv + w()
    if k < 0.27:
        return rng.choice(['STATUS', 'STATUS', 'STATUS=', 'STATUS=XYZ', 'STATUS=%s,%s' % (sv, sv), 'STATUS ',
                           'status', ' STATUS=%s' % sv])
    if k < 0.37:
        return 'SETUP=' + w() + rng.choice(CONFIGS) + w()
    if k < 0.40:
        return rng.choice(['SETUP', 'SETUP=', 'SETUP=Unknown', 'SETUP=Primario,BWG1', 'SETUP=primario', 'SETUP=ID'])
    if k < 0.47:
        return 'STOW=%s,%s' % (sv, rng.choice(['1', '1', '0', '2', '-1', '7', ' 1', 'x', '', '1.0', '+1']))
    if k < 0.51:
        return 'STOW=GREGORIAN_CAP,%s' % rng.choice(['0', '1', '2', '3', '4', '5', '-1', 'x', '1', '2'])
    if k < 0.53:
        return rng.choice(['STOW', 'STOW=%s' % sv, 'STOW=XYZ,1', 'STOW=%s,1,1' % sv, 'STOW=GREGORIAN_CAP'])
    if k < 0.60:
        return 'STOP=' + sv
    if k < 0.62:
        return rng.choice(['STOP', 'STOP=XYZ', 'STOP=%s,1' % sv, 'STOP=GREGORIAN_CAP'])
    if k < 0.80:
        kind = rng.choice(['in'] * 8 + ['edge', 'edge', 'edge_out', 'edge_out', 'out', 'out', 'nan', 'junk', 'count'])
        return 'PRESET=%s,%s' % (sv, ','.join(w() + t + w() for t in preset_args(rng, lim[sv], kind)))
    if k < 0.82:
        return rng.choice(['PRESET', 'PRESET=%s' % sv, 'PRESET=XYZ,1', 'PRESET=,1'])
    if k < 0.90:
        lo, hi, _, dof, _ = lim[sv]
        r = rng.random()
        if r < 0.6:
            vals = [fnum(rng, -(hi[i] - lo[i]) / 8, (hi[i] - lo[i]) / 8) for i in range(dof)]
        elif r < 0.8:
            vals = [rng.choice(['0', '0.0', '-0.0', '1', '-1.5']) for i in range(dof)]
        elif r < 0.9:
            vals = [fnum(rng, -3000, 3000) for i in range(dof)]
        else:
            vals = [rng.choice(BADNUM) for i in range(dof)]
        if rng.random() < 0.2:
            # a valid prefix and ONE malformed/empty element at a later position (refused as a whole)
            vals = [fnum(rng, -(hi[i] - lo[i]) / 8, (hi[i] - lo[i]) / 8) for i in range(dof)]
            vals[rng.randrange(dof) if rng.random() < 0.3 else dof - 1 - rng.randrange(max(1, dof - 1))] = \
                rng.choice(['x', '', ' ', '1..2', '--1', '1e', 'None', '0x10', '1,', 'e5'])
        if rng.random() < 0.08:
            vals = vals[:-1] if rng.random() < 0.5 else vals + ['1']
        return 'OFFSET=%s,%s' % (sv, ','.join(vals))
    if k < 0.98:
        return gen_pt(rng, rig, lim, ptstate)
    return rng.choice(['', 'FOO', 'FOO=1', '=', ',', '=,=', 'STATUS\r', '\nSTATUS', 'PRESET=GFR,1\n', 'OUTPUT:GOOD',
                       ''.join(chr(rng.randrange(256)) for _ in range(rng.randrange(1, 12)))])


def gen_pt(rng, rig, lim, ptstate):
    """PROGRAMTRACK lines: new trajectories in the near future, continuations, and refusals"""
    names = rig.names
    focus = ptstate.get('_focus')
    sv = focus if (focus is not None and rng.random() < 0.7) else rng.choice([n for n in names if lim[n][4]] * 3 + names)
    lo, hi, _, dof, cap = lim[sv]
    st = ptstate.get(sv)
    coords = [fnum(rng, lo[i] * 1.05, hi[i] * 1.05) for i in range(dof)]
    r = rng.random()
    if r < 0.08:
        coords[rng.randrange(dof)] = rng.choice(['nan', 'inf', 'x', '-inf'])
    if st is not None and r < 0.7:
        tid, pid = st
        pid += 1
        if rng.random() < 0.1:
            pid += rng.choice([-1, 1])
        ptstate[sv] = (tid, pid)
        return 'PROGRAMTRACK=%s,%d,%d,*,%s' % (sv, tid, pid, ','.join(coords))
    tid = rng.randrange(1, 1000)
    start = rig.now() + rng.choice([0.5, 1.0, 3.0, 10.0, -1.0, 0.0])
    pid = 0 if rng.random() < 0.9 else 1
    ptstate[sv] = (tid, pid)
    stxt = repr(start) if rng.random() < 0.92 else rng.choice(['nan', 'inf', 'x', '*'])
    line = 'PROGRAMTRACK=%s,%s,%d,%s,%s' % (sv, rng.choice([str(tid)] * 9 + ['x']), pid, stxt, ','.join(coords))
    if rng.random() < 0.05:
        line += ',1'
    return line


REFUSED_TOKENS = ['x', '', 'nan', '1..2']


def refused_prefix_traces(lim):
    """systematic: on every multi-axis servo, after an acknowledged OFFSET and PRESET, the commands
    OFFSET / PRESET / PROGRAMTRACK with valid values everywhere except ONE element — at every position,
    for several malformed values (and an out-of-range one for PRESET).  Such a command is refused as a whole
    (OFFSET ...,nan,... is the exception: float() accepts it) and must leave every read-back unchanged.
    Returns {(servo, command): trace} with trace = [[line or None, dticks], ...]"""
    out = {}
    for sv, (lo, hi, _, dof, cap) in lim.items():
        if dof < 2:
            continue
        mid = [repr(round(lo[i] + (hi[i] - lo[i]) * (i + 2.0) / (dof + 4), 4)) for i in range(dof)]
        ack_off = [repr(round((hi[i] - lo[i]) * 0.01 * (i + 1), 5)) for i in range(dof)]
        new_off = [repr(round(-(hi[i] - lo[i]) * 0.013 * (i + 1), 5)) for i in range(dof)]
        new_pos = [repr(round(lo[i] + (hi[i] - lo[i]) * (i + 1.0) / (dof + 6), 4)) for i in range(dof)]
        head = [[None, 0], ['OFFSET=%s,%s' % (sv, ','.join(ack_off)), 10], ['PRESET=%s,%s' % (sv, ','.join(mid)), 10],
                ['STATUS=%s' % sv, 1024]]
        for cmd in ('OFFSET', 'PRESET', 'PROGRAMTRACK'):
            tr = [list(x) for x in head]
            for j in range(dof):
                toks = REFUSED_TOKENS + (['1e9'] if cmd != 'OFFSET' else [])
                for bad in toks:
                    vals = list(new_off if cmd == 'OFFSET' else new_pos)
                    vals[j] = bad
                    if cmd == 'PROGRAMTRACK':
                        line = 'PROGRAMTRACK=%s,7,0,99999999999,%s' % (sv, ','.join(vals))
                    else:
                        line = '%s=%s,%s' % (cmd, sv, ','.join(vals))
                    tr.append([line, 10])
            tr.append(['STATUS=%s' % sv, 10])
            out[(sv, cmd)] = tr
    return out


PHASES = ('point0', 'before', 'during', 'ended-unseen', 'ended-seen')
MODES = (0, 10, 20, 30, 40)


def refusals(sv, lim, now):
    """refused commands of every kind addressed to servo `sv` at virtual time `now` (text depends on it)"""
    lo, hi, _, dof, cap = lim[sv]
    ok = [repr(round(lo[i] + (hi[i] - lo[i]) * 0.4, 3)) for i in range(dof)]
    def put(tok, j=None):
        v = list(ok)
        v[dof - 1 if j is None else j] = tok
        return ','.join(v)
    out = [
        'PROGRAMTRACK=%s,901,0,%r,%s' % (sv, now - 100.0, ','.join(ok)),       # start time in the past
        'PROGRAMTRACK=%s,902,3,%r,%s' % (sv, now + 50.0, ','.join(ok)),        # wrong first point id
        'PROGRAMTRACK=%s,903,0,%r,%s' % (sv, now + 50.0, put('x')),            # bad coordinate
        'PROGRAMTRACK=%s,904,0,%r,%s' % (sv, now + 50.0, put('nan')),
        'PROGRAMTRACK=%s,905,1,*,%s' % (sv, ','.join(ok)),                     # unknown trajectory
        'PROGRAMTRACK=%s,x,0,%r,%s' % (sv, now + 50.0, ','.join(ok)),
        'PROGRAMTRACK=%s,906,0,soon,%s' % (sv, ','.join(ok)),
        'PROGRAMTRACK=%s,907,0,%r' % (sv, now + 50.0),                         # wrong count
        'PRESET=%s,%s' % (sv, put('1e9')), 'PRESET=%s,%s' % (sv, put('nan')), 'PRESET=%s,%s' % (sv, put('')),
        'PRESET=%s' % sv, 'OFFSET=%s,%s' % (sv, put('x')), 'OFFSET=%s' % sv,
        'SETUP=Nowhere', 'SETUP', 'STOW=%s,x' % sv, 'STOW=%s' % sv, 'STOP=%s,1' % sv, 'STOP=XYZ', 'FOO=1',
    ]
    return out


def family_trace(sv, state, lim, t0, which=None, timer_value=5):
    """servo `sv` put into `state` (an operative mode 0/10/20/30/40, or a program-track phase), then refused
    commands (all of `refusals`, or only number `which`), interleaved with refreshes.  The caller appends the
    STATUS catalogue.  Times are absolute: t0 + tick/1024."""
    lo, hi, md, dof, cap = lim[sv]
    tr, tick = [[None, 0]], 0

    def add(line, dt):
        nonlocal tick
        tick += dt
        tr.append([line, dt])

    def now():
        return t0 + tick / float(TICKS)
    far = [repr(round(lo[i] + (hi[i] - lo[i]) * 0.9, 3)) for i in range(dof)]
    if state == 0:
        add('PRESET=%s,%s' % (sv, ','.join(far)), 10)
        add(None, 512)                                   # still moving
    elif state == 10:
        add('SETUP=BWG3', 10)
        add(None, 400000)
        add(None, 10)
    elif state == 20:
        add('STOW=%s,1' % sv, 10)
        add(None, int(timer_value * TICKS) + 1)
    elif state == 30:
        add('PRESET=%s,%s' % (sv, ','.join(far)), 10)
        add(None, 512)
        add('STOP=%s' % sv, 10)
        add(None, 100)
    elif state == 40:
        add('PRESET=%s,%s' % (sv, ','.join(far)), 10)
        add(None, 400000)
        add(None, 10)
    else:
        lead = 50.0 if state == 'before' else 0.5
        start = now() + lead
        pts = 1 if state == 'point0' else 6
        for pid in range(pts):
            c = [repr(round(lo[i] + (hi[i] - lo[i]) * (0.3 + 0.05 * pid), 3)) for i in range(dof)]
            add('PROGRAMTRACK=%s,77,%d,%s,%s' % (sv, pid, repr(start) if pid == 0 else '*', ','.join(c)),
                10 if pid == 0 else 100)
            if pid % 2:
                add(None, 50)
        if state == 'during':
            add('STATUS=%s' % sv, 200)
        elif state == 'ended-unseen':
            tick += 20000
            tr.append(['STATUS', 20000])                 # time passes, this servo is not refreshed
        elif state == 'ended-seen':
            add(None, 20000)
            add('STATUS=%s' % sv, 10)
    rs = refusals(sv, lim, now())
    for k, line in enumerate(rs):
        if which is None or which == k:
            add(line, 10)
            if k % 3 == 0:
                add(None, 10)
    add(None, 10)
    return tr


def pt_burst(rng, rig, lim, feed, refresh, nonfinite_offset=False):
    """a whole program-track episode on a capable servo: a new trajectory starting shortly, its points
    every 0.2 s (some beyond the limits), status refreshes while it is tracked"""
    sv = rng.choice([n for n in rig.names if lim[n][4]])
    lo, hi, _, dof, _ = lim[sv]
    tid = rng.randrange(1, 1000)
    start = rig.now() + rng.choice([0.25, 0.5, 1.0])
    base = [rng.uniform(lo[i], hi[i]) for i in range(dof)]
    step = [rng.uniform(-1, 1) * (hi[i] - lo[i]) / rng.choice([4, 20, 100]) for i in range(dof)]
    npts = rng.randrange(3, 14)
    if nonfinite_offset:
        # OFFSET accepts nan/inf (float() does); the trajectory loaded on top of it must still be refused or
        # kept finite and inside the limits (seeded change C20-r5m2)
        offs = ['0'] * dof
        offs[rng.randrange(dof)] = rng.choice(['nan', 'inf', '-inf', 'nan'])
        feed('OFFSET=%s,%s\r\n' % (sv, ','.join(offs)), rng.choice([0, 10]))
        npts = max(npts, 6)
    for pid in range(npts):
        coords = [repr(round(base[i] + step[i] * pid, 4)) for i in range(dof)]
        st = repr(start) if pid == 0 else '*'
        feed('PROGRAMTRACK=%s,%d,%d,%s,%s\r\n' % (sv, tid, pid, st, ','.join(coords)), rng.choice([0, 102, 205, 205]))
        if rng.random() < 0.5:
            feed('STATUS=%s\r\n' % sv, rng.choice([0, 10, 100]))
        if rng.random() < 0.3:
            refresh(rng.choice([10, 103, 205]))
    for _ in range(rng.randrange(0, 5) + (3 if nonfinite_offset else 0)):
        if rng.random() < 0.5:
            refresh(rng.choice([205, 1024, 5000]))
        else:
            feed('STATUS=%s\r\n' % sv, rng.choice([205, 1024, 3000]))
    return sv


DTS = [0, 0, 1, 10, 10, 103, 205, 512, 1024, 1024, 2048, 5119, 5120, 5121, 10240, 30000, 130000]


def gen_history(rng, rig, nops, malformed=0.05):
    """drive `rig` with a random history; returns the list of (line, replies)"""
    lim = limits(rig)
    ptstate = {'_focus': rng.choice(rig.names) if rng.random() < 0.75 else None}
    hist = []
    if rng.random() < 0.8:
        rig.refresh(0)           # what the update thread does right after construction
    for _ in range(nops):
        k = rng.random()
        dt = rng.choice(DTS)
        if k < 0.15:
            rig.refresh(dt)
            hist.append(('<refresh>', dt, None))
            continue
        if k > 0.96:
            pt_burst(rng, rig, lim, lambda d, t: hist.append((d, t, rig.feed(d, t))),
                     lambda t: (rig.refresh(t), hist.append(('<refresh>', t, None))))
            continue
        if k < 0.15 + malformed:
            data = ''.join(chr(rng.choice([13, 10, 61, 44, 32, 83, 84, 65, 85, rng.randrange(256)]))
                           for _ in range(rng.randrange(1, 10)))
            if rng.random() < 0.5:
                data += '\r\n'
            hist.append((data, dt, rig.feed(data, dt)))
            continue
        line = gen_command(rng, rig, lim, ptstate)
        tail = '\r\n'
        if rng.random() < 0.03:
            tail = rng.choice(['\n', '\r', '\r\r\n', '\n\r\n', ''])
        hist.append((line + tail, dt, rig.feed(line + tail, dt)))
    return hist
