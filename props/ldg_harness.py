"""C07 harness: drive the real System classes with recording / virtual-time factories.

* `VTimer` replaces `threading.Timer` in the simulator module: nothing waits for real; the harness
  fires the earliest pending timer explicitly (one callback = one atomic step).  A callback that
  joins a still-pending timer is parked (`WouldBlock`) and re-run once its target has finished.
* `RecThread` is a real `threading.Thread` that registers itself (update / positioning / command
  threads run for real with their short sleeps; `join` is the real join, with a safety timeout).
* `FakeSocket`, `FakeHTTPServer` record connect / sendall / close / serve_forever / shutdown.
Every created object gets an id = its creation index, which is what the Coq ledger calls `a_id`.
"""
import contextlib
import io
import sys
import threading
import types

ACK = '$server_shutdown%%%%%'
LONG_JOIN = 120.0         # a real join that takes longer than this is reported as a note (load), never as a failure
UNTOLD_JOIN = [3.0]       # join of a thread whose stop flag is NOT set: it has no reason to end


class WouldBlock(BaseException):
    """a callback joined an activity that has not finished yet"""

    def __init__(self, target):
        BaseException.__init__(self)
        self.target = target


class World:
    def __init__(self):
        self.now = 1700000000.0
        self.objs = []
        self.current = None          # VTimer whose callback is running
        self.foreign = []            # threads started behind the factories' back
        self.refuse_ports = set()
        self.inject_send_failure = False
        self.main_waits = []         # ids of pending timers joined from the main context
        self.hung_joins = []         # joins that can never return, for a deterministic reason
        self.slow_joins = []         # joins that timed out although the thread was told to stop (load)
        self.stop_flag = None        # callable: has the flag the instance's threads poll been set
        self.errors = []             # exceptions that ended a callback (the thread would have died)

    def register(self, o, kind):
        o.vid = len(self.objs)
        o.kind = kind
        self.objs.append(o)

    def time(self):
        return self.now

    # -- timers -----------------------------------------------------------------------------------
    def runnable(self):
        out = []
        for o in self.objs:
            if isinstance(o, VTimer):
                if o.state == 'pending':
                    out.append(o)
                elif o.state == 'blocked' and o.blocked_on.finished():
                    out.append(o)
        out.sort(key=lambda t: (t.deadline, t.vid))
        return out

    def fire(self, t):
        """run the callback of timer t; returns 'done' or 'blocked'"""
        assert self.current is None
        self.now = max(self.now, t.deadline)
        t.state = 'running'
        self.current = t
        try:
            t.function(*t.args, **t.kwargs)
        except WouldBlock as wb:
            t.state = 'blocked'
            t.blocked_on = wb.target
            return 'blocked'
        except Exception as ex:      # the timer thread dies with a traceback; nothing else happens
            self.errors.append((t.vid, type(ex).__name__))
        finally:
            self.current = None
        t.state = 'done'
        return 'done'

    def fire_next(self):
        r = self.runnable()
        if not r:
            return None
        return r[0], self.fire(r[0])


class VTimer:
    world = None

    def __init__(self, interval, function, args=None, kwargs=None):
        self.interval = interval
        self.function = function
        self.args = args if args is not None else []
        self.kwargs = kwargs if kwargs is not None else {}
        self.daemon = False
        self.state = 'new'           # new | pending | running | blocked | done
        self.precancelled = False
        self.deadline = None
        self.blocked_on = None
        self.name = 'VTimer'
        self.ident = None
        self.world.register(self, 'timer')

    def start(self):
        if self.state != 'new':
            raise RuntimeError('threads can only be started once')
        self.deadline = self.world.now + max(0.0, float(self.interval))
        self.state = 'done' if self.precancelled else 'pending'

    def cancel(self):
        if self.state == 'new':
            self.precancelled = True
        elif self.state == 'pending':
            self.state = 'done'
        # running / blocked: the callback is already executing; cancel() has no effect

    def is_alive(self):
        return self.state in ('pending', 'running', 'blocked')

    def finished(self):
        return self.state == 'done'

    def alive(self):
        return self.is_alive()

    def join(self, timeout=None):
        if self.state == 'new':
            raise RuntimeError('cannot join thread before it is started')
        if self.state == 'done':
            return
        w = self.world
        if w.current is self:
            raise RuntimeError('cannot join current thread')
        if w.current is not None:
            raise WouldBlock(self)
        # main context: the caller really waits until the timer has fired
        w.main_waits.append(self.vid)
        for _ in range(1000):
            if self.state == 'done':
                return
            if w.fire_next() is None:
                break
        raise RuntimeError('harness: join on a timer that never finishes')


class RecThread(threading.Thread):
    world = None

    def __init__(self, *a, **kw):
        threading.Thread.__init__(self, *a, **kw)
        self.world.register(self, 'thread')

    def alive(self):
        return self.is_alive()

    def is_started(self):
        return self._started.is_set()

    def finished(self):
        return not self.is_alive()

    def never_ends(self):
        """a deterministic reason why waiting for this thread would never return, or None"""
        target = getattr(self, '_target', None)
        srv = getattr(target, '__self__', None)
        if isinstance(srv, FakeHTTPServer):
            return None if srv._ev.is_set() else 'serve_forever was not shut down'
        return None

    def join(self, timeout=None):
        w = self.world
        if w.current is not None and self.is_alive():
            raise WouldBlock(self)
        if timeout is not None or not self.is_alive():
            threading.Thread.join(self, timeout)
            return
        reason = self.never_ends()
        if reason:
            w.hung_joins.append((self.vid, reason))      # do not wait for what cannot happen
            return
        told = w.stop_flag is None or bool(w.stop_flag())
        if not told:
            threading.Thread.join(self, UNTOLD_JOIN[0])
            if self.is_alive():
                w.hung_joins.append((self.vid, 'joined although the stop flag it polls is not set'))
                UNTOLD_JOIN[0] = 0.3
            return
        threading.Thread.join(self, LONG_JOIN)
        if self.is_alive():
            w.slow_joins.append(self.vid)


class FakeSocket:
    world = None

    def __init__(self, *a, **kw):
        self.closed = False
        self.connected = False
        self.sent = 0
        self.daemon = True
        self.world.register(self, 'socket')

    def connect(self, addr):
        if addr[1] in self.world.refuse_ports:
            raise ConnectionRefusedError(111, 'Connection refused')
        self.connected = True

    def sendall(self, data):
        if self.closed:
            raise OSError(9, 'Bad file descriptor')
        if not self.connected:
            raise BrokenPipeError(32, 'Broken pipe')
        if self.world.inject_send_failure:
            self.world.inject_send_failure = False
            raise ConnectionResetError(104, 'Connection reset by peer')
        self.sent += len(data)

    def close(self):
        self.closed = True

    def alive(self):
        return not self.closed


class FakeHTTPServer:
    world = None

    def __init__(self, address, handler):
        self.server_address = address
        self.closed = False
        self.daemon = True
        self._ev = threading.Event()
        self.world.register(self, 'socket')

    def serve_forever(self, poll_interval=0.5):
        self._ev.wait()

    def shutdown(self):
        self._ev.set()

    def server_close(self):
        self.closed = True

    def alive(self):
        return not self.closed


@contextlib.contextmanager
def patched(world, patches):
    """patches: list of (module, attribute name, replacement)"""
    for cls in (VTimer, RecThread, FakeSocket, FakeHTTPServer):
        cls.world = world
    saved = [(m, a, getattr(m, a)) for m, a, _ in patches]
    orig_start = threading.Thread.start

    def start(self):
        if not isinstance(self, RecThread):
            world.foreign.append(self)
        return orig_start(self)
    threading.Thread.start = start
    out = io.StringIO()
    old_stdout = sys.stdout
    sys.stdout = out
    try:
        for m, a, r in patches:
            setattr(m, a, r)
        yield
    finally:
        sys.stdout = old_stdout
        threading.Thread.start = orig_start
        for m, a, v in saved:
            setattr(m, a, v)


def _ns(module, **over):
    d = {k: getattr(module, k) for k in dir(module) if not k.startswith('__')}
    d.update(over)
    return types.SimpleNamespace(**d)


def threading_proxy():
    return _ns(threading, Timer=VTimer, Thread=RecThread)


def socket_proxy():
    import socket
    return _ns(socket, socket=FakeSocket)


def time_proxy(world):
    import time
    return _ns(time, time=world.time)


def auto_patches(world, modules, virtual_time=False):
    """replace whatever names the simulator modules use for Timer / Thread / threading / socket /
    HTTPServer (so a change of import style does not break the harness)"""
    import socket as real_socket
    import time as real_time
    out = []
    for m in modules:
        for name, val in list(vars(m).items()):
            if val is threading.Timer:
                out.append((m, name, VTimer))
            elif val is threading.Thread:
                out.append((m, name, RecThread))
            elif val is threading:
                out.append((m, name, threading_proxy()))
            elif val is real_socket:
                out.append((m, name, socket_proxy()))
            elif val is real_socket.socket:
                out.append((m, name, FakeSocket))
            elif isinstance(val, type) and val.__name__ == 'HTTPServer':
                out.append((m, name, FakeHTTPServer))
            elif val is real_time and virtual_time:
                out.append((m, name, time_proxy(world)))
    return out


def feed(system, text):
    """what ListenHandler._handle does with the bytes of one message"""
    for ch in text:
        try:
            system.parse(ch)
        except WouldBlock:
            raise
        except Exception:
            pass


def observe(world, slots, with_alive=True, force_alive=None):
    """(alive ids, blocking ids, [((owner, attr), [id])]).  force_alive(obj): objects whose liveness
    is a race in real time (daemon threads told to stop but not joined) count as alive, which is
    what the ledger says about them."""
    def is_alive(o):
        return o.alive() or (force_alive is not None and force_alive(o))
    alive = [o.vid for o in world.objs if is_alive(o)] if with_alive else None
    blocking = [o.vid for o in world.objs if is_alive(o) and o.kind != 'socket' and not o.daemon] \
        if with_alive else None
    so = []
    for owner, attr, obj in slots:
        vid = getattr(obj, 'vid', None)
        if obj is None:
            so.append(((owner, attr), []))
        elif vid is not None and vid < len(world.objs) and world.objs[vid] is obj:
            so.append(((owner, attr), [vid]))
        else:
            so.append(((owner, attr), [-1]))
    return alive, blocking, so
