"""C12 — actuator motion (simulators/active_surface/usd.py: calc_position, positioning commands,
soft_stop): correspondence of Model/UsdModel.v with the real USD on motion-heavy histories, and
the property-level oracle (the C12 theorems transcribed to Python over the real class)."""
from props import usd_common as UC

META = dict(
    id='C12',
    title='Actuator motion is bounded, monotone, exact on arrival and always terminates',
    design_ref='DESIGN.md section 7, C12',
    coq_target='Properties/C12.vo',
    coq_extra=['Corr/UsdCorr.vo'],
    technique='Coq proof (invariant + induction over arbitrary command/time-step histories of an '
              'integer model of USD.calc_position and the handlers) + in-Coq differential '
              'correspondence with the real USD objects under a virtual clock',
    level_text='Range, idle stillness, step bound and direction, exact arrival with running cleared '
               '(target = current position included), clamping for out-of-scale targets, stop and busy '
               'refusal are proved in Coq for every state satisfying the invariant, every displacement '
               'd >= 0 and every history of commands and time steps. The model is compared with the '
               'real USD class (full attribute snapshot after every event) on seeded histories with '
               'dyadic time steps on every run.',
    level_note='Trusted: Coq kernel + vm_compute; the harness (virtual clock, thread-less System); '
               'binary64 exactness of rate*dt for dt = k/1024 s (k < 2^16, rate < 2^24) which makes '
               'the model displacement equal to int(round(.)).',
    partial=None,
    rule='one case = one history (5..60 events) on a fresh USD: commands through the real unicast '
         'handlers and calc_position calls; non-trivial = distinct history in which the position '
         'changed at least once',
    trusted=['props/usd_common.py (virtual clock, NBQueue, snapshot)'],
    assumptions=['for elapsed times off the 1/1024 s grid the displacement passed to calc_position '
                 'is some integer d >= 0 (IEEE rounding of steps_per_second*elapsed); the theorems '
                 'hold for every such d',
                 'fixes/06-usd-arrival-at-current.diff applied (the reverse patch is caught as '
                 'class arrival_at_current)'],
)

QUERIES = (0x10, 0x12, 0x13, 0x14)


def make_histories(ctx, impl, n, profiles, on_step=None, tag='h'):
    cases = []
    rng = ctx.rng
    for _ in range(n):
        prof = rng.choice(profiles)
        idx, c0, ev, obs = UC.run_history(impl, rng, prof, rng.randrange(5, 60), on_step)
        cases.append((idx, c0, ev, obs))
        ctx.count('history_' + prof)
        ctx.count('events', len(ev))
        for e in ev:
            ctx.count('ev_tick' if e[0] == 'tick' else 'ev_' + UC.NAMES.get(e[1], 'unknown_code'))
        moved = any(obs[i][1]['current_position'] != obs[i - 1][1]['current_position']
                    for i in range(1, len(obs)))
        if moved:
            ctx.nontriv((tag, idx, c0, tuple(map(repr, ev))))
    return cases


def correspondence(ctx):
    with UC.implementation() as impl:
        cases = make_histories(ctx, impl, ctx.n(160, 2500), ['motion', 'motion', 'delayed', 'config'])
    terms = [UC.coq_case(*c) for c in cases]
    for t in terms[:2]:
        ctx.sample(t[:600])
    ctx.run_cases('usd_motion', 'From DS Require Import Model.UsdModel Spec.UsdSpec Corr.UsdCorr.',
                  'usd_case', 'ok', terms, show='show', shard=ctx.n(10, 40))
    line_correspondence(ctx, 'usd_line_motion', ctx.n(40, 600))


def line_correspondence(ctx, suite, n):
    """lines of 2..4 units: unicast, broadcast (stop above all) and time steps, snapshots of every
    unit after every event; model and specification are both folded in Coq"""
    rng = ctx.rng
    terms = []
    with UC.implementation() as impl:
        for _ in range(n):
            idxs, c0, ev, obs = UC.run_line_history(impl, rng, rng.randrange(5, 40))
            terms.append(UC.coq_line_case(idxs, c0, ev, obs))
            ctx.count('line_history')
            ctx.count('line_events', len(ev))
            ctx.count('line_broadcasts', sum(1 for e in ev if e[0] == 'bcast'))
            ctx.nontriv((suite, tuple(idxs), c0, tuple(map(repr, ev))))
    ctx.run_cases(suite, 'From DS Require Import Model.UsdModel Spec.UsdSpec Corr.UsdCorr.',
                  'line_case', 'lok', terms, show='lshow', shard=ctx.n(5, 20))


# ---------------------------------------------------------------------------
# property-level oracle: the theorems of Properties/C12.v over the real class

class MotionOracle:
    """follows one history on the real unit and checks every C12 statement that applies"""
    def __init__(self):
        self.track = None     # [target, remaining distance, arrived_at_step or None]
        self.stopped = None   # position held since soft_stop
        self.failures = []
        self.checked = 0

    def fail(self, klass, what, **kw):
        self.failures.append((klass, what, kw))

    def on_step(self, unit, e, o, before, after):
        pos0, pos1 = before['current_position'], after['current_position']
        self.checked += 1
        if o is not None and o[0] == 'H':
            self.fail('state_outside_protocol', 'after %r the unit holds a value outside the protocol\'s state '
                      'space: %s' % (list(e), o[1]))
            return
        if e[0] == 'tick' and o is not None and o[0] == 'E':
            # the positioning step itself raised: the positioning thread of the line is dead, motion never ends
            self.fail('positioning_raised', 'time step %d: %s' % (e[1], o[1]))
            return
        # range (C12_range)
        if not (UC.MINP <= pos1 <= UC.MAXP):
            self.fail('range', 'position %d outside the mechanical range' % pos1)
        if e[0] == 'cmd':
            code = e[1]
            acked = o == ('R', UC.ACK)
            # no reply: broadcast, or response delay 255 (whether the command was accepted is then
            # not observable from the reply)
            silent = o == ('S',)
            # commands never move the unit (C12_commands_do_not_move)
            is_reset = code == 0x01 and not e[3]
            if pos1 != pos0 and not (is_reset and pos1 == 0):
                self.fail('command_moved', 'command %#x changed the position %d -> %d' % (code, pos0, pos1))
            # busy refusal (C12_busy_refusal)
            well_formed = UC.NPARAMS.get(code) == len(e[3])
            if code in (0x30, 0x31, 0x32) and well_formed and before['running'] and \
                    (code == 0x32 or not before['delayed_execution']):
                if (o != ('R', UC.NAK) and not silent) or after != before:
                    self.fail('busy', 'positioning/rotate while running not refused unchanged')
            # tracking of an accepted positioning (C12_absolute/relative_accepted)
            if code not in QUERIES:
                self.track = None
            if code in (0x30, 0x31) and well_formed and acked and not before['delayed_execution'] \
                    and (before['velocity'] or before['cmd_position'] is not None):
                # known finding: 'running' lags one loop iteration behind the commands, so a
                # positioning is accepted although another motion command is pending
                self.fail('positioning_acked_while_motion_pending',
                          'positioning %#x acknowledged while velocity=%r cmd_position=%r is pending'
                          % (code, before['velocity'], before['cmd_position']))
            if code in (0x30, 0x31) and well_formed and acked and not before['delayed_execution'] \
                    and not before['velocity']:
                p = int.from_bytes(bytes(e[3]), 'big', signed=True)
                tgt = (before['reference_position'] if code == 0x30 else pos0) + p
                if after['cmd_position'] != tgt:
                    self.fail('target', 'acknowledged positioning did not set the target')
                elif UC.MINP <= tgt <= UC.MAXP:
                    self.track = [tgt, abs(tgt - pos0), None]
            if code == 0x11 and well_formed and (acked or silent):
                self.stopped = pos0
            elif code not in QUERIES:
                self.stopped = None
            return
        # ---- a time step ----
        k = e[1]
        active_v = bool(before['velocity'])
        active_p = before['cmd_position'] is not None
        if not active_v and not active_p:
            # C12_idle_still
            if pos1 != pos0 or after['running']:
                self.fail('idle_moved', 'no active command but position %d -> %d / running=%r'
                          % (pos0, pos1, after['running']))
        freq = abs(before['velocity']) if active_v else before['max_frequency']
        d = UC.rounded_displacement(freq, before['resolution'], k)
        # C12_step_bound(_grid)
        if abs(pos1 - pos0) > d:
            self.fail('step_bound', '|%d - %d| exceeds the rounded displacement %d' % (pos1, pos0, d))
        # direction
        if active_v:
            s = 1 if before['velocity'] > 0 else -1
            if s * (pos1 - pos0) < 0:
                self.fail('direction', 'moved against the velocity sign')
        elif active_p:
            tgt = before['cmd_position']
            s = (tgt > pos0) - (tgt < pos0)
            if s * (pos1 - pos0) < 0 or abs(tgt - pos1) > abs(tgt - pos0) or s * (tgt - pos1) < 0:
                self.fail('direction', 'moved away from / past the target %d: %d -> %d' % (tgt, pos0, pos1))
            if not (UC.MINP <= tgt <= UC.MAXP) and not after['running']:
                self.fail('out_of_scale', 'out-of-scale target but running cleared')
        # stop halts (C12_stop_halts)
        if self.stopped is not None:
            if pos1 != self.stopped or after['running']:
                self.fail('stop', 'moved or running after soft_stop: %d -> %d' % (self.stopped, pos1))
        # arrival (C12_arrival, C12_under_way, C12_target_equal_current)
        if self.track is not None:
            tgt, remaining, arrived = self.track
            if arrived is not None:
                # one (or more) iterations after the displacements covered the distance
                klass = 'arrival_at_current' if arrived == 'at_current' else 'arrival'
                if pos1 != tgt or after['running'] or after['cmd_position'] is not None:
                    self.fail(klass, 'after arrival at %d: position %d running=%r cmd_position=%r'
                              % (tgt, pos1, after['running'], after['cmd_position']))
                    self.track = None
            else:
                if remaining == 0:
                    # target equal to the position when commanded: any iteration completes it
                    if pos1 != tgt or after['running'] or after['cmd_position'] is not None:
                        self.fail('arrival_at_current',
                                  'target = current position %d but running=%r cmd_position=%r after a step'
                                  % (tgt, after['running'], after['cmd_position']))
                        self.track = None
                    else:
                        self.track[2] = 'at_current'
                elif d >= 1:
                    remaining -= d
                    if remaining <= 0:
                        if pos1 != tgt:
                            self.fail('arrival', 'displacements cover the distance but position %d != target %d'
                                      % (pos1, tgt))
                            self.track = None
                        else:
                            self.track[1] = 0
                            self.track[2] = 'moved'
                    else:
                        if abs(tgt - pos1) != remaining or not after['running']:
                            self.fail('under_way', 'distance to %d should be %d, is %d (running=%r)'
                                      % (tgt, remaining, abs(tgt - pos1), after['running']))
                            self.track = None
                        else:
                            self.track[1] = remaining


def check_events(impl, idx, clock0, events):
    """run a recorded history on the real unit under the oracle; returns the oracle"""
    orc = MotionOracle()
    unit = UC.Unit(impl, idx, clock0)
    before = unit.snapshot()
    for e in events:
        e = (e[0],) + tuple(e[1:])
        o = UC.apply_event(unit, e)
        try:
            after = unit.snapshot()
        except UC.HarnessError as ex:
            orc.on_step(unit, e, ('H', str(ex)), before, before)
            break
        orc.on_step(unit, e, o, before, after)
        before = after
        if o is not None and o[0] in ('B', 'E'):
            break
    return orc


def scenario(rng):
    """a deliberate positioning scenario: configure, command a target, step until done, command again"""
    ev = []
    start = rng.choice([0xFA, 0xFC])
    if rng.random() < 0.6:
        ev.append(('cmd', 0x26, start, [rng.randrange(0, 9)]))
    if rng.random() < 0.6:
        ev.append(('cmd', 0x21, start, UC.be_signed(rng.choice([20, 21, 100, 1000, 9999, 10000,
                                                                 rng.randrange(20, 10001)]), 2)))
    if rng.random() < 0.3:
        ev.append(('cmd', 0x23, start, UC.be_signed(rng.randrange(-5000, 5000), 4)))
    for _ in range(rng.randrange(1, 4)):
        r = rng.random()
        if r < 0.25:
            tgt = None       # the current position (filled by the driver below)
        elif r < 0.5:
            tgt = rng.choice([UC.MINP, UC.MAXP, UC.MAXP - 1, UC.MINP + 1])
        else:
            tgt = rng.randrange(-60000, 60000)
        ev.append(('goto', tgt, start, rng.random() < 0.3))
        for _ in range(rng.randrange(1, 12)):
            ev.append(('tick', rng.choice([0, 1, 1, 2, 3, 7, 10, 10, 11, 100, 1000, 5000])))
        if rng.random() < 0.3:
            ev.append(('cmd', 0x11, start, []))
            ev.append(('tick', rng.randrange(0, 50)))
            ev.append(('tick', rng.randrange(0, 50)))
    return ev


def run_scenario(impl, rng, orc_sink):
    idx = rng.randrange(32)
    clock0 = rng.randrange(1, 1 << 24)
    unit = UC.Unit(impl, idx, clock0)
    orc = MotionOracle()
    events = []
    before = unit.snapshot()
    for s in scenario(rng):
        if s[0] == 'goto':
            tgt = unit.u.current_position if s[1] is None else s[1]
            if s[3]:
                e = ('cmd', 0x31, s[2], UC.be_signed(UC.clip32(tgt - unit.u.current_position), 4))
            else:
                e = ('cmd', 0x30, s[2], UC.be_signed(UC.clip32(tgt - unit.u.reference_position), 4))
        else:
            e = s
        o = UC.apply_event(unit, e)
        after = unit.snapshot()
        events.append(e)
        orc.on_step(unit, e, o, before, after)
        before = after
    orc_sink(orc, idx, clock0, events)


class LineOracle:
    """one MotionOracle per unit of a line; a unicast command is an event of its unit only (and must
    leave the other units alone), a broadcast is an event of every unit"""
    def __init__(self):
        self.per_unit = None
        self.failures = []
        self.checked = 0

    def on_step(self, line, e, o, before, after):
        n = len(before)
        if self.per_unit is None:
            self.per_unit = [MotionOracle() for _ in range(n)]
        if o is not None and o[0] == 'H':
            self.per_unit[0].on_step(None, e, o, before[0], after[0])
            self.checked += 1
            return
        for j in range(n):
            orc = self.per_unit[j]
            if e[0] == 'tick':
                orc.on_step(None, e, o if (o is not None and o[0] == 'E') else None, before[j], after[j])
            elif e[0] == 'bcast':
                orc.on_step(None, ('cmd', e[1], e[2], e[3]), ('S',) if o == ('S',) else o, before[j], after[j])
            elif e[1] == j:
                orc.on_step(None, ('cmd', e[2], e[3], e[4]), o, before[j], after[j])
            elif after[j] != before[j]:
                orc.fail('other_unit_changed', 'a command addressed to unit %d changed unit %d' % (e[1], j))
        self.checked += n

    def collect(self):
        out = []
        for j, orc in enumerate(self.per_unit or []):
            out += [(k, 'unit %d: %s' % (j, w), kw) for k, w, kw in orc.failures]
        return out


def line_scenario(impl, rng):
    """several units set in motion, a broadcast stop, then time steps"""
    n = rng.choice([2, 3, 4])
    first = rng.randrange(0, 32 - n + 1)
    idxs = list(range(first, first + n))
    clock0 = rng.randrange(1, 1 << 24)
    line = UC.Line(impl, idxs, clock0)
    orc = LineOracle()
    events = []
    plan = []
    start = rng.choice([0xFA, 0xFC])
    for j in range(n):
        r = rng.random()
        if r < 0.4:
            plan.append(('uni', j, 0x35, start, UC.be_signed(rng.choice([-1, 1]) * rng.randrange(10, 100001), 3)))
        elif r < 0.7:
            plan.append(('uni', j, 0x30, start, UC.be_signed(rng.randrange(-2000000, 2000000), 4)))
        elif r < 0.85:
            plan.append(('uni', j, 0x32, start, [rng.choice([1, 255])]))
    rng.shuffle(plan)
    plan += [('tick', rng.randrange(1, 200)) for _ in range(rng.randrange(1, 4))]
    plan.append(('bcast', 0x11, rng.choice([0xFA, 0xFC]), []))
    plan += [('tick', rng.randrange(0, 200)) for _ in range(rng.randrange(2, 5))]
    before = line.snapshots()
    for e in plan:
        o = UC.apply_levent(line, e)
        after = line.snapshots()
        events.append(e)
        orc.on_step(line, e, o, before, after)
        before = after
    return orc, idxs, clock0, events


def oracle(ctx):
    rng = ctx.rng
    checked = 0
    reported = set()

    def sink(orc, idx, clock0, events):
        nonlocal checked
        checked += orc.checked
        for klass, what, kw in orc.failures:
            if klass in reported:
                continue
            reported.add(klass)
            ctx.fail(klass, what, dict(idx=idx, clock0=clock0, events=[list(e) for e in events], **kw))

    with UC.implementation() as impl:
        # the recorded witness of the repaired defect (target = current position), then scenarios
        f06 = [('cmd', 0x30, 0xFC, [0, 0, 0, 0]), ('tick', 10), ('tick', 10), ('cmd', 0x30, 0xFC, [0, 0, 3, 232]),
               ('tick', 10)]
        sink(check_events(impl, 1, 1024, f06), 1, 1024, f06)
        for _ in range(ctx.n(400, 8000)):
            run_scenario(impl, rng, sink)
        for _ in range(ctx.n(300, 6000)):
            orc = MotionOracle()
            idx, c0, ev, obs = UC.run_history(impl, rng, rng.choice(['motion', 'motion', 'delayed']),
                                              rng.randrange(5, 80), orc.on_step)
            sink(orc, idx, c0, ev)
        # lines of several units: broadcast stop scenarios and random line histories
        def line_sink(orc, idxs, clock0, events):
            nonlocal checked
            checked += orc.checked
            for klass, what, kw in orc.collect():
                if klass in reported:
                    continue
                reported.add(klass)
                ctx.fail(klass, what, dict(idxs=idxs, clock0=clock0, events=[list(e) for e in events], **kw))

        for _ in range(ctx.n(150, 3000)):
            line_sink(*line_scenario(impl, rng))
        for _ in range(ctx.n(100, 2000)):
            orc = LineOracle()
            idxs, c0, ev, obs = UC.run_line_history(impl, rng, rng.randrange(5, 50), orc.on_step)
            line_sink(orc, idxs, c0, ev)
    ctx.oracle_stats = dict(steps_checked=checked)
    ctx.evaluations += checked


def replay(ctx, obj):
    w = obj['witness']
    with UC.implementation() as impl:
        if 'idxs' in w:
            orc = LineOracle()
            UC.replay_line(impl, w['idxs'], w['clock0'], [tuple(e) for e in w['events']], orc.on_step)
            return any(k == obj.get('klass') for k, _, _ in orc.collect())
        orc = check_events(impl, w['idx'], w['clock0'], [tuple(e) for e in w['events']])
    return any(k == obj.get('klass') for k, _, _ in orc.failures)
