"""C01 — listening servers relay bytes and replies exactly, however the stream is split.

Correspondence of coq/Model/SrvHandler.v with the real ListenHandler / SendHandler of
simulators/server.py, and the property-level oracle (the stream specification transcribed to
Python, run against the real handler under random segmentations)."""
from props import srv_harness as H

META = dict(
    id='C01',
    title='Listening servers relay bytes and replies exactly, however the stream is split',
    design_ref='DESIGN.md section 7, C01',
    coq_target='Properties/C01.vo',
    coq_extra=['Corr/SrvCorr.vo'],
    technique='Coq proof (refinement of a stream specification by a line-by-line Gallina model of the '
              'request handlers, for every device behaviour, stream and segmentation) + in-Coq '
              'differential correspondence with the real handler classes on a fake socket',
    level_text='Proved in Coq for every byte stream, every partition into non-empty segments and every '
               'device (an arbitrary state machine giving the outcome of each parse and of each custom '
               'operation): the handler parses every byte once in order, sends exactly the non-empty '
               'latin-1 replies right after the byte that produced them, never resends a stale reply, '
               'invokes each `$name[:p,..]%%%%%` occurrence (characterised declaratively) exactly once '
               'with its parameters, ignores malformed/unknown commands, and no exception leaves the '
               'handler whatever the device and the socket do; UDP variant included.  The model is '
               'compared with the real ListenHandler/SendHandler (whole setup/handle/finish life '
               'cycle) on every run.',
    level_note='Trusted: Coq kernel + vm_compute; CPython str.split/startswith/endswith/slicing/'
               'encode as mirrored by Model/SrvHandler.v and validated by correspondence; the fakes '
               '(socket, system) of props/srv_harness.py.  Socket I/O, socketserver threading and real '
               'TCP segmentation are runtime (recv results are the quantified segments).',
    partial=None,
    rule='one case = one connection (greeting, device script, operation table, failing sends, recv '
         'events) run through the real handler; non-trivial = distinct connection that reaches a reply, '
         'a custom call or a refused command',
    trusted=['fake socket / fake system of props/srv_harness.py'],
    assumptions=['values returned by parse are builtins whose truth test does not raise',
                 'a custom command does not address the handler-used attributes parse/system_greet/'
                 'subscribe/unsubscribe/sampling_time of the system',
                 'exceptions raised by the device derive from Exception (not BaseException)',
                 'the theorems about the relay assume sendto succeeds (a failing send ends the '
                 'segment: modelled and compared, excluded from the relay theorems)'],
)


def gen_listen_cases(ctx, cases, n_streams):
    rng = ctx.rng
    for _ in range(n_streams):
        stream = H.gen_stream(rng)
        ops = H.gen_ops(rng)
        H.environment(rng)
        n = len(stream)
        outs = H.gen_outcomes(rng, n)
        greet = rng.choice([None] * 6 + ['hello\r\n', '', '\xe9'])
        if rng.random() < 0.01:
            greet = 'Ā'
        for segs in H.partitions(rng, stream, ctx.n(3, 5)):
            evs = list(segs)
            fails = []
            r = rng.random()
            if r < 0.06 and evs:
                evs.insert(rng.randrange(len(evs) + 1), None)       # recv raises IOError
            elif r < 0.10 and evs:
                evs.insert(rng.randrange(len(evs) + 1), b'')        # peer closed early
            elif r < 0.20:
                fails = sorted(set(rng.randrange(0, 6) for _ in range(rng.randrange(1, 3))))
            tr, cm, died = H.run_listen_tcp(greet, outs, ops, fails, evs)
            cases.append(H.case_listen_tcp(greet, outs, ops, fails, evs, tr, cm, died))
            kinds = set(e[0] for e in tr)
            ctx.count('tcp')
            for k in ('send', 'call', 'stop', 'sendfail', 'dies'):
                if k in kinds:
                    ctx.count('tcp_' + k)
            if kinds & {'send', 'call'}:
                ctx.nontriv(('tcp', stream, tuple(len(s) if s else -1 for s in evs), repr(outs)))
        # the same bytes as one UDP datagram (the handler appends a newline)
        if rng.random() < 0.5:
            outs_u = outs + [H.gen_outcome(rng)]
            fails = [rng.randrange(0, 4)] if rng.random() < 0.1 else []
            tr, cm, died = H.run_listen_udp(outs_u, ops, fails, stream)
            cases.append(H.case_listen_udp(outs_u, ops, fails, stream, tr, cm, died))
            ctx.count('udp')
            if set(e[0] for e in tr) & {'send', 'call'}:
                ctx.nontriv(('udp', stream, repr(outs_u)))


def gen_send_cases(ctx, cases, n):
    rng = ctx.rng
    for _ in range(n):
        ops = H.gen_ops(rng)
        H.environment(rng)
        rs = []
        for _ in range(rng.randrange(0, 6)):
            r = rng.random()
            if r < 0.25:
                rs.append(None)
            elif r < 0.65:
                rs.append(b'$' + H.gen_body(rng).encode('latin-1') + H.TAIL)
            elif r < 0.75:
                c = b'$' + H.gen_body(rng).encode('latin-1') + H.TAIL
                k = rng.randrange(1, len(c))
                rs += [c[:k], c[k:]]
            elif r < 0.97:
                rs.append(H.gen_stream(rng, 2))
            else:
                rs.append(b'')
        rs = [r for r in rs if r is None or not H.has_reserved(r)]
        qs = [rng.choice([None, None, b'status', b'\x00\xff', b'']) for _ in range(rng.randrange(0, 7))]
        first = None
        if rng.random() < 0.3:
            first = rng.choice([b'', b'x', b'$system_stop%%%%%', b'$system_foo:1%%%%%', b'$nosuch%%%%%'])
        fails = [rng.randrange(0, 4)] if rng.random() < 0.15 else []
        tr, died = H.run_send(first, ops, fails, rs, qs)
        cases.append(H.case_send(first, ops, fails, rs, qs, tr, died))
        ctx.count('sendhandler')
        if set(e[0] for e in tr) & {'send', 'call'}:
            ctx.nontriv(('send', repr(first), repr(rs), repr(qs)))


CORPUS = [
    # (stream, outcomes or None, segment lengths): minimised shapes of the confirmed defects and of
    # the mutants tried during development
    (b'$system_foo:a:b%%%%%xy', None, [22]),
    (b'ab', [('S', 'Ā'), ('T',)], [2]),
    (b'ab', [('S', 'Ā'), ('E', 'VE')], [1, 1]),
    (b'abc', [('S', 'ok'), ('E', 'VE'), ('E', 'KE')], [3]),
    (b'abc', [('S', 'ok'), ('E', 'VE'), ('E', 'KE')], [1, 2]),
    # seeded change r2m3: `logging.debug(ex.args[0])` dies on a bare `raise ValueError`
    (b'ab', [('E', 'VE0'), ('S', 'ok')], [2]),
    (b'abc', [('E', 'VEcls'), ('E', 'KE0'), ('S', 'ok')], [1, 2]),
    (b'ab', [('E', 'VEnoargs'), ('E', 'VEodd')], [2]),
    (b'$verr0%%%%%$exc0%%%%%a', None, [11, 11]),
    (b'$system_stop%%%%%z', None, [10, 8]),
    (b'$system_stop%%%%%z', None, [1] * 18),
    (b'q$a$system_stop%%%%%%%', None, [5, 9, 8]),
    (b'$echo:1,,x y%%%%%$echo:%%%%%$echo%%%%%', None, [39]),
    (b'$a%%%%b%%%%%%', None, [4, 9]),
]


def load_corpus():
    """CORPUS plus /verif/corpus/C01/*.json (stream hex, outcomes, segment lengths)"""
    import glob
    import json
    import os
    out = list(CORPUS)
    d = os.path.join(os.path.dirname(os.path.dirname(os.path.abspath(__file__))), 'corpus', 'C01')
    for f in sorted(glob.glob(os.path.join(d, '*.json'))):
        o = json.load(open(f))
        out.append((bytes.fromhex(o['stream']), [tuple(x) for x in o['outcomes']] if o.get('outcomes') else None,
                    list(o['segments'])))
    return out


def corpus_cases(ctx, cases):
    for stream, outs, seglens in load_corpus():
        outs = outs or [('F',)] * len(stream)
        ops = dict(H.OP_POOL)
        segs, i = [], 0
        for k in seglens:
            segs.append(stream[i:i + k])
            i += k
        tr, cm, died = H.run_listen_tcp(None, outs, ops, [], segs)
        cases.append(H.case_listen_tcp(None, outs, ops, [], segs, tr, cm, died))
        ctx.count('corpus')


def correspondence(ctx):
    cases = []
    corpus_cases(ctx, cases)
    gen_listen_cases(ctx, cases, ctx.n(500, 2500))
    gen_send_cases(ctx, cases, ctx.n(300, 2000))
    for c in cases[:2] + cases[len(cases) // 2:len(cases) // 2 + 2]:
        ctx.sample(c[:600])
    H.IO_SEED[0], H.STOP_EXC[0] = 0, None
    ctx.run_cases('server', 'From DS Require Import Model.SrvHandler Corr.SrvCorr.', 'scase', 'ok', cases,
                  show='show', shard=ctx.n(150, 400))


# ---------------------------------------------------------------------------
# property-level oracle on the implementation

def check_stream(stream, outs, ops, segs, stop_exc=None):
    """None if the real handler behaves as the property says on this segmentation, else
    (klass, what).  stop_exc: exception kind the fake Server.stop raises (it must be survived)"""
    H.IO_SEED[0], H.STOP_EXC[0] = 0, stop_exc
    expected = H.spec_trace(stream, outs, ops)
    tr, cm, died = H.run_listen_tcp(None, outs, ops, [], segs)
    if died is not None:
        name = tr[-1][2] if tr and tr[-1][0] == 'dies' else '?'
        return ('handler_dies', 'an exception (%s) left the handler and ended the connection' % name)
    if [e for e in tr if e[0] == 'parse'] != [e for e in expected if e[0] == 'parse']:
        return ('parse_sequence', 'the parser did not receive every byte exactly once in order')
    obs_calls = [e for e in tr if e[0] == 'call']
    exp_calls = [e for e in expected if e[0] == 'call']
    if not H.same_trace(obs_calls, exp_calls):
        return ('custom_command', 'custom commands invoked differ from the `$name[:p,..]%%%%%` '
                                  'occurrences of the stream')
    if not H.same_trace(tr, expected):
        return ('relay', 'transmitted replies / stop calls differ from the stream specification')
    return None


def io_failure_kills(stream, outs, ops, evs, fails, io_seed, stop_exc):
    H.IO_SEED[0], H.STOP_EXC[0] = io_seed, stop_exc
    tr, cm, died = H.run_listen_tcp(None, outs, ops, fails, evs)
    H.IO_SEED[0], H.STOP_EXC[0] = 0, None
    return died is not None


def shrink(stream, outs, ops, seglens, klass, stop_exc=None):
    """greedy: drop one byte (and its outcome) at a time, merge segments, while it still fails
    with the same class"""
    def segs_of(st, lens):
        segs, i = [], 0
        for k in lens:
            if k > 0:
                segs.append(st[i:i + k])
            i += k
        if i < len(st):
            segs.append(st[i:])
        return segs

    def fails(st, ou, lens):
        r = check_stream(st, ou, ops, segs_of(st, lens), stop_exc)
        return r is not None and r[0] == klass
    changed = True
    budget = 400
    while changed and budget > 0:
        changed = False
        for i in range(len(stream)):
            budget -= 1
            st = stream[:i] + stream[i + 1:]
            ou = outs[:i] + outs[i + 1:]
            # remove the byte from its segment
            lens, acc = list(seglens), 0
            for j, k in enumerate(lens):
                if acc + k > i:
                    lens[j] -= 1
                    break
                acc += k
            if fails(st, ou, lens):
                stream, outs, seglens = st, ou, [k for k in lens if k > 0]
                changed = True
                break
    if fails(stream, outs, [len(stream)]):
        seglens = [len(stream)]
    return stream, outs, seglens


def report(ctx, res, stream, outs, ops, segs, stop_exc=None):
    klass, what = res
    seglens = [len(s) for s in segs]
    try:
        stream, outs, seglens = shrink(stream, outs, ops, seglens, klass, stop_exc)
    except Exception:   # noqa  (shrinking is best effort)
        pass
    ctx.fail(klass, what, dict(stream=stream.hex(), stream_text=stream.decode('latin-1'),
                               segments=seglens, outcomes=[list(o) for o in outs],
                               ops={k: list(v) for k, v in ops.items()}, stop_exc=stop_exc))


def oracle(ctx):
    rng = ctx.rng
    checked = 0
    found = set()
    todo = []
    for stream, outs, seglens in load_corpus():
        segs, i = [], 0
        for k in seglens:
            segs.append(stream[i:i + k])
            i += k
        todo.append((stream, outs or [('F',)] * len(stream), dict(H.OP_POOL), [segs], None))
    for _ in range(ctx.n(700, 12000)):
        stream = H.gen_stream(rng, 6)
        stop_exc = rng.choice(sorted(H.EXC_TABLE)) if rng.random() < 0.12 else None
        todo.append((stream, H.gen_outcomes(rng, len(stream)), H.gen_ops(rng),
                     H.partitions(rng, stream, ctx.n(3, 6)), stop_exc))
    for stream, outs, ops, parts, stop_exc in todo:
        for segs in parts:
            checked += 1
            res = check_stream(stream, outs, ops, segs, stop_exc)
            if res is not None and res[0] not in found:
                found.add(res[0])
                report(ctx, res, stream, outs, ops, segs, stop_exc)
        # socket failures (any kind of OSError from sendto / recv): the handler may stop relaying
        # but no exception may leave it  (C01_no_death)
        if rng.random() < 0.3:
            checked += 1
            fails = sorted(set(rng.randrange(0, 5) for _ in range(rng.randrange(1, 3))))
            io_seed = rng.randrange(len(H.IO_ERRORS))
            evs = list(parts[-1])
            err_at = rng.randrange(len(evs) + 1) if rng.random() < 0.5 else None
            if err_at is not None:
                evs.insert(err_at, None)
            if io_failure_kills(stream, outs, ops, evs, fails, io_seed, stop_exc) and 'io' not in found:
                found.add('io')
                ctx.fail('handler_dies', 'an exception left the handler when the socket failed (sendto/recv '
                         'raising an OSError)',
                         dict(stream=stream.hex(), stream_text=stream.decode('latin-1'),
                              events=[None if e is None else len(e) for e in evs], fails=fails, io_seed=io_seed,
                              outcomes=[list(o) for o in outs], ops={k: list(v) for k, v in ops.items()},
                              stop_exc=stop_exc, io=True))
        # UDP: one datagram, newline appended
        if rng.random() < 0.3:
            checked += 1
            outs_u = outs + [('F',)]
            H.IO_SEED[0], H.STOP_EXC[0] = 0, stop_exc
            tr, cm, died = H.run_listen_udp(outs_u, ops, [], stream)
            if died is not None or not H.same_trace(tr, H.spec_trace(stream + b'\n', outs_u, ops)):
                if 'udp' not in found:
                    found.add('udp')
                    ctx.fail('udp', 'a datagram is not handled as the stream datagram+newline',
                             dict(stream=stream.hex(), outcomes=[list(o) for o in outs_u],
                                  ops={k: list(v) for k, v in ops.items()}, udp=True, stop_exc=stop_exc))
    stats = dict(checked=checked)
    if not ctx.quick():
        stats['loopback_connections'] = loopback(ctx, 150)
    H.IO_SEED[0], H.STOP_EXC[0] = 0, None
    ctx.oracle_stats = stats
    ctx.evaluations += checked


# ---------------------------------------------------------------------------
# thorough tier: a real Server (ThreadingTCPServer on an ephemeral loopback port) with a live,
# stateful device; the client cuts the stream into real TCP segments.  The expected byte stream
# received by the client is computed by the stream specification run against a second instance
# of the same device.

def make_loop_system():
    from simulators.common import ListeningSystem

    class LoopSys(ListeningSystem):
        """line echo parser with a configurable prefix (custom command set_prefix:p)"""

        def __init__(self):
            self.line = ''
            self.prefix = 'R'
            self.count = 0

        def parse(self, byte):
            if byte == 'v':
                raise ValueError('refused')
            if byte == 'k':
                raise KeyError('boom')
            if byte == 'V':
                raise ValueError          # bare, as the real parsers do
            if byte == 'K':
                raise KeyError
            if byte == '\x00':
                return False
            if byte == 'n':
                return None
            if byte == '\n':
                self.count += 1
                out, self.line = '%s%d:%s;' % (self.prefix, self.count, self.line), ''
                return out
            self.line += byte
            return True

        def set_prefix(self, p='R'):
            self.prefix = p
            return 'prefix=%s;' % p

        def counter(self):
            return 'count=%d;' % self.count

        def quiet(self):
            return None

        def broken(self):
            raise RuntimeError('broken')
    return LoopSys


def loop_expected(LoopSys, stream):
    """the stream specification against a live device: bytes the client must receive"""
    dev = LoopSys()
    out = b''
    for i in range(len(stream)):
        try:
            r = dev.parse(chr(stream[i]))
        except Exception:   # noqa
            r = None
        if isinstance(r, str) and not isinstance(r, bool) and r and H.encodable(r):
            out += r.encode('latin-1')
        body = H.command_at(stream, i)
        if body is not None:
            parts = body.split(':')
            if len(parts) <= 2:
                params = parts[1].split(',') if len(parts) == 2 and parts[1] else []
                try:
                    res = getattr(dev, parts[0])(*params)
                except Exception:   # noqa
                    res = None
                if isinstance(res, str) and H.encodable(res):
                    out += res.encode('latin-1')
    return out


def loopback(ctx, n):
    import socket
    import threading
    import time
    from socketserver import ThreadingTCPServer
    from simulators import server as S
    rng = ctx.rng
    LoopSys = make_loop_system()
    toks = [b'abc\n', b'hello world\n', b'v', b'k', b'V', b'K', b'\x00', b'n', b'$set_prefix:Q%%%%%', b'$counter%%%%%',
            b'$quiet%%%%%', b'$broken%%%%%', b'$nosuch:1,2%%%%%', b'$set_prefix:a:b%%%%%', b'$set_prefix%%%%%',
            b'$x$counter%%%%%', b'%%%%%', b'$counter%%%%', b'\n', b'xy', b'$counter:1%%%%%', b'\xe9\xff\n']
    done = 0
    for it in range(n):
        stream = b''.join(rng.choice(toks) for _ in range(rng.randrange(1, 8)))
        if H.has_reserved(stream) or b'system_stop' in stream:
            continue
        full = stream + b'$system_stop%%%%%'
        expected = loop_expected(LoopSys, full)
        cuts = sorted(set(rng.randrange(1, len(full)) for _ in range(rng.randrange(0, 6))))
        segs = [full[a:b] for a, b in zip([0] + cuts, cuts + [len(full)])]
        srv = thread = None
        saved = {k: S.ListenHandler.__dict__.get(k) for k in ('system', 'stop')}
        try:
            srv = S.Server(LoopSys, ThreadingTCPServer, {}, l_address=('127.0.0.1', 0))
            port = srv.servers[0].server_address[1]
            thread = threading.Thread(target=srv.serve_forever, daemon=True)
            thread.start()
            got = b''
            closed = False
            with socket.create_connection(('127.0.0.1', port), timeout=20) as c:
                c.setsockopt(socket.IPPROTO_TCP, socket.TCP_NODELAY, 1)
                for s in segs:
                    c.sendall(s)
                    time.sleep(0.002)
                c.settimeout(20)
                try:
                    while len(got) < len(expected):
                        d = c.recv(4096)
                        if not d:
                            closed = True
                            break
                        got += d
                except socket.timeout:
                    ctx.note('loopback: timeout waiting for the server (inconclusive, skipped)')
                    continue
            if got != expected:
                ctx.fail('loopback_relay', 'real TCP server: bytes received by the client differ from the '
                         'stream specification' + (' (connection closed by the server)' if closed else ''),
                         dict(loopback=True, stream=full.hex(), stream_text=full.decode('latin-1'),
                              segments=[len(s) for s in segs], got=got.hex(), expected=expected.hex()))
                return
            thread.join(30)
            if thread.is_alive():
                ctx.fail('loopback_stop', 'real TCP server: request loops still running 30 s after '
                         '$system_stop%%%%% was acknowledged',
                         dict(loopback=True, stream=full.hex(), segments=[len(s) for s in segs]))
                return
            done += 1
        except OSError as ex:
            ctx.note('loopback: %s (inconclusive, skipped)' % ex)
        finally:
            if srv is not None:
                try:
                    if thread is not None and thread.is_alive():
                        srv.stop()
                    for s in srv.servers:
                        s.server_close()
                except Exception:   # noqa
                    pass
            for k, v in saved.items():
                if v is None:
                    if k in S.ListenHandler.__dict__:
                        delattr(S.ListenHandler, k)
                else:
                    setattr(S.ListenHandler, k, v)
    ctx.evaluations += done
    return done


def replay(ctx, obj):
    w = obj['witness']
    if w.get('loopback'):
        class C:
            rng = ctx.rng
            evaluations = 0
            failed = False

            def note(self, s):
                pass

            def fail(self, *a):
                self.failed = True
        c = C()
        loopback(c, 60)
        return c.failed
    stream = bytes.fromhex(w['stream'])
    outs = [tuple(o) for o in w['outcomes']]
    ops = {k: tuple(v) for k, v in w['ops'].items()}
    if w.get('io'):
        evs, i = [], 0
        for k in w['events']:
            evs.append(None if k is None else stream[i:i + k])
            i += k or 0
        return io_failure_kills(stream, outs, ops, evs, w['fails'], w['io_seed'], w.get('stop_exc'))
    if w.get('udp'):
        H.IO_SEED[0], H.STOP_EXC[0] = 0, w.get('stop_exc')
        tr, cm, died = H.run_listen_udp(outs, ops, [], stream)
        return died is not None or not H.same_trace(tr, H.spec_trace(stream + b'\n', outs, ops))
    segs, i = [], 0
    for k in w['segments']:
        segs.append(stream[i:i + k])
        i += k
    return check_stream(stream, outs, ops, segs, w.get('stop_exc')) is not None
