"""C17 — program-track loads: correspondence of Model/AtrkModel.v with the real
simulators.acu PointingStatus (histories of load commands and status refreshes under a frozen
clock), and the property-level oracle (acceptance rule, atomic refusal, tracking state machine,
trajectory through the loaded points with the real scipy)."""
import datetime as _dt
import json
import math
import os
import struct

from vlib.core import zlit, blit, optlit

META = dict(
    id='C17',
    title='Program-track loads are validated atomically and the trajectory honours them',
    design_ref='DESIGN.md section 7, C17',
    coq_target='Properties/C17.vo',
    coq_extra=['Corr/AtrkCorr.vo'],
    technique='Coq proof (acceptance rule, atomic refusal, reachable-state invariant, tracking state '
              'machine over an executable model of _program_track_parameter_command/update_status) '
              '+ in-Coq differential correspondence with the real PointingStatus on load/refresh '
              'histories + implementation-level oracle with the real scipy spline',
    level_text='Acceptance (iff), atomic refusal, the invariant of reachable states and the state '
               'machine off/enabled/running/completed (ending on the last coordinates) are proved in '
               'Coq for every history of loads and refresh instants over a model that follows the '
               'order of side effects of the repaired code (fixes/14). The spline is a Section '
               'variable: "passes through the loaded points within 1 microdegree" is proved under '
               'the hypothesis that it interpolates, and that hypothesis is checked on the real '
               'scipy by the oracle on every run. Partial for that reason.',
    level_note='Trusted: Coq kernel + vm_compute; the harness (frozen datetime, synchronous command '
               'threads, independent splev evaluation, float.as_integer_ratio); CPython/scipy. '
               'Refresh and command threads are modelled as atomic steps.',
    partial='scipy splrep/splev (FITPACK) is not modelled: interpolation within 1 microdegree is a '
            'named hypothesis checked by the oracle only; preemption between the update thread and a '
            'command thread inside one call is not modelled',
    rule='one case = one history (3..14 operations: load commands with arbitrary header fields, '
         '0..60 entries, arbitrary time sequences; status refreshes at chosen virtual instants) on a '
         'fresh System; non-trivial = distinct history containing at least one accepted load',
    trusted=['scipy.interpolate.splrep/splev (spline hypothesis `interpolates`)',
             'the harness-side evaluation of mjd_to_date, int(round(1e6*x)) and '
             '(now-start).total_seconds()*1000 by the same Python builtins the code uses'],
    assumptions=['start_time + actPtTimeOffset is a representable datetime',
                 'an update_status call and a load command do not interleave inside one call'],
)

I32 = 2 ** 31
DT_MIN = _dt.datetime.min
US = _dt.timedelta(microseconds=1)


# ---------------------------------------------------------------------------
# encoding helpers (wire format written by hand so that any field value / bit pattern is possible)

def u16(v):
    return struct.pack('<H', v & 0xFFFF).decode('latin-1')


def u32(v):
    return struct.pack('<I', v & 0xFFFFFFFF).decode('latin-1')


def i32(v):
    return struct.pack('<i', v).decode('latin-1')


def f64(bits):
    return struct.pack('<Q', bits).decode('latin-1')


def bits_of(x):
    return struct.unpack('<Q', struct.pack('<d', x))[0]


def dbl(bits):
    return struct.unpack('<d', struct.pack('<Q', bits))[0]


def microdeg(x):
    """the value the code stores for a coordinate, None when the code's representability test fails"""
    try:
        if not abs(1000000 * x) <= I32 - 1:
            return None
        return int(round(1000000 * x))
    except (ValueError, OverflowError):
        return None


def token(dt):
    return None if dt is None else (dt - DT_MIN) // US


class Load:
    """one program-track parameter command (all fields free)"""

    def __init__(self, cnt, mode, start_bits, entries, param=61, interp=4, track=1, via_parse=False,
                 rates=(0.5, 0.5)):
        self.cnt, self.mode, self.start_bits = cnt, mode, start_bits
        self.entries = [tuple(e) for e in entries]      # (t, az_bits, el_bits)
        self.param, self.interp, self.track = param, interp, track
        self.via_parse = via_parse
        self.rates = rates

    def command(self):
        s = (u16(4) + u16(5) + u32(self.cnt) + u16(self.param) + u16(self.interp) + u16(self.track)
             + u16(self.mode) + u16(len(self.entries)) + f64(self.start_bits)
             + f64(bits_of(self.rates[0])) + f64(bits_of(self.rates[1])))
        for t, a, e in self.entries:
            s += i32(t) + f64(a) + f64(e)
        return s

    def to_json(self):
        return dict(op='load', cnt=self.cnt, mode=self.mode, start=self.start_bits, param=self.param,
                    interp=self.interp, track=self.track, via_parse=self.via_parse,
                    entries=[list(e) for e in self.entries])

    @staticmethod
    def from_json(o):
        return Load(o['cnt'], o['mode'], o['start'], o['entries'], o['param'], o['interp'], o['track'],
                    o.get('via_parse', False))


class Tick:
    """one status refresh at `us` microseconds after start_time + actPtTimeOffset (after an arbitrary
    fixed instant when no start time is stored)"""

    def __init__(self, us):
        self.us = us

    def to_json(self):
        return dict(op='tick', us=self.us)


# ---------------------------------------------------------------------------
# the world: a real System with its update thread stopped, a frozen clock, synchronous commands

class Clock:
    now = _dt.datetime(2026, 10, 1, 12, 0, 0)


class World:
    def __init__(self, offset_ms=0, tso_s=0):
        import simulators.acu as A
        import simulators.acu.pointing_status as P
        self.A, self.P = A, P
        P.datetime = _dt.datetime            # the update thread must see the real clock while it lives
        self.system = A.System()
        self.system.stop.value = True
        self.system.update_thread.join()
        real = _dt.datetime

        class Frozen(real):
            @classmethod
            def utcnow(cls):
                return Clock.now
        P.datetime = Frozen
        self.ps = self.system.PS
        self.az, self.el = self.system.AZ, self.system.EL
        if offset_ms:
            self.ps.actPtTimeOffset = offset_ms
        if tso_s:
            self.ps.time_source_offset = _dt.timedelta(seconds=tso_s)
        self.offset_ms, self.tso_s = offset_ms, tso_s
        self.msg_counter = 1000
        self.tck_rows = None            # rows the current tck was verified to be built from
        self.tck_ids = (None, None)
        self.raised = None
        Clock.now = _dt.datetime(2026, 10, 1, 12, 0, 0)

    def close(self):
        self.P.datetime = _dt.datetime

    # -- static description ----------------------------------------------------------
    def limits(self):
        r = lambda v: int(round(v * 1000000))
        return (r(self.az.min_pos), r(self.az.max_pos), r(self.el.min_pos), r(self.el.max_pos))

    def start_token(self, start_bits):
        """the datetime the code derives from the start-time field (None when it raises)"""
        from simulators import utils
        try:
            return token(utils.mjd_to_date(dbl(start_bits)) + self.ps.time_source_offset)
        except (ValueError, OverflowError):
            return None

    def start_room(self, start_bits):
        """microseconds from that start time to the last representable datetime"""
        tok = self.start_token(start_bits)
        return 0 if tok is None else token(_dt.datetime.max) - tok

    # -- operations --------------------------------------------------------------------
    def load(self, ld):
        """deliver the command; returns True when the command method raised"""
        cmd = ld.command()
        self.raised = None
        if ld.via_parse:
            self._send(cmd)
        else:
            try:
                self.ps._program_track_parameter_command(cmd, self.system.stop)
            except Exception as ex:   # noqa: a dying command thread
                self.raised = '%s: %s' % (type(ex).__name__, ex)
        self._track_tck()
        return self.raised is not None

    def _send(self, cmd):
        """through System.parse, byte by byte, with the command thread run synchronously"""
        A = self.A
        world = self

        class SyncThread:
            def __init__(self, target=None, args=()):
                self.target, self.args, self.daemon = target, args, True

            def start(self):
                try:
                    self.target(*self.args)
                except Exception as ex:   # noqa
                    world.raised = '%s: %s' % (type(ex).__name__, ex)

            def join(self, timeout=None):
                pass

            def is_alive(self):
                return False
        self.msg_counter += 1
        body = u32(self.msg_counter) + u32(1) + cmd
        msg = A.start_flag + u32(len(body) + 12) + body + A.end_flag
        saved = A.Thread
        A.Thread = SyncThread
        try:
            for ch in msg:
                self.system.parse(ch)
        finally:
            A.Thread = saved

    def _track_tck(self):
        """when the spline objects were replaced, verify with the real scipy that both were built
        from the table as stored now; remember those rows (compared with the model's tck)"""
        import numpy as np
        from scipy import interpolate
        ps = self.ps
        ids = (ps.az_tck, ps.el_tck)
        if ids[0] is self.tck_ids[0] and ids[1] is self.tck_ids[1]:
            return
        self.tck_ids = ids
        rows = self.rows()
        good = rows is not None and ids[0] is not None and ids[1] is not None
        if good:
            try:
                t = np.array(ps.relative_times)
                for tck, col in ((ids[0], ps.azimuth_positions), (ids[1], ps.elevation_positions)):
                    ref = interpolate.splrep(t, np.array(col))
                    good = good and tck[2] == ref[2] and np.array_equal(tck[0], ref[0]) \
                        and np.array_equal(tck[1], ref[1])
            except Exception:   # noqa
                good = False
        self.tck_rows = rows if good else [(-1, -1, -1)]

    def rows(self):
        ps = self.ps
        if not (len(ps.relative_times) == len(ps.azimuth_positions) == len(ps.elevation_positions)):
            return None
        return [(t, bits_of(a), bits_of(e)) for t, a, e in
                zip(ps.relative_times, ps.azimuth_positions, ps.elevation_positions)]

    def set_time(self, us):
        ps = self.ps
        if ps.start_time is None:
            Clock.now = _dt.datetime(2026, 10, 1, 12, 0, 0) + _dt.timedelta(microseconds=us)
        else:
            # actual_time() = utcnow + time_source_offset + time_offset
            try:
                Clock.now = (ps.start_time + _dt.timedelta(milliseconds=ps.actPtTimeOffset)
                             + _dt.timedelta(microseconds=us) - ps.time_source_offset - ps.time_offset)
            except OverflowError:        # a start time at the very end of the calendar: refresh at it
                Clock.now = (ps.start_time + _dt.timedelta(milliseconds=ps.actPtTimeOffset)
                             - ps.time_source_offset - ps.time_offset)

    def elapsed(self):
        """the double the code hands to bisect_left, computed the way the code computes it"""
        ps = self.ps
        if ps.start_time is None:
            return 0.0
        st = ps.start_time + _dt.timedelta(milliseconds=ps.actPtTimeOffset)
        return (ps.actual_time() - st).total_seconds() * 1000

    def spline_at(self, x):
        """independent evaluation of the stored splines: (az, el, fits)"""
        from scipy import interpolate
        ps = self.ps
        if ps.az_tck is None or ps.el_tck is None:
            return (0, 0, True)
        vals = []
        fits = True
        try:
            for tck in (ps.az_tck, ps.el_tck):
                p = int(round(1000000 * float(interpolate.splev(x, tck))))
                vals.append(p)
                for der in (1, 2):
                    d = int(round(1000000 * float(interpolate.splev(x, tck, der=der))))
                    fits = fits and -I32 <= d < I32
        except (ValueError, OverflowError):      # a non-finite spline value: the code raises, too
            return (0, 0, False)
        return (vals[0], vals[1], fits)

    def tick(self):
        try:
            self.ps.update_status()
            return False
        except Exception as ex:   # noqa
            self.raised = '%s: %s' % (type(ex).__name__, ex)
            return True

    # -- observation -----------------------------------------------------------------------
    def observe(self):
        ps, az, el = self.ps, self.az, self.el
        rows = self.rows()
        state = ps.ptState if (az.ptState == ps.ptState == el.ptState) else -1
        same_id = ps.pt_command_id == az.pt_command_id == el.pt_command_id
        return dict(
            rows=rows if rows is not None else [(-2, -2, -2)],
            tck=self.tck_rows, start=token(ps.start_time), lastc=ps.last_coordinates,
            state=state, len=ps.ptTableLength, act=ps.ptActTableIndex, end=ps.ptEndTableIndex,
            interp=ps.ptInterpolMode, cnt=ps.parameter_command_counter, cmd=ps.parameter_command,
            ans=ps.parameter_command_answer, id=ps.pt_command_id if same_id else -1,
            azb=az.p_Bahn, elb=el.p_Bahn, azn=az.next_pos, eln=el.next_pos)


# ---------------------------------------------------------------------------
# Coq terms

class Ids:
    """the distinct binary64 bit patterns (and start-time tokens) of one history, numbered in order
    of first appearance: the model uses them as identity tokens only, and small numbers keep the
    generated Coq files fast to parse"""

    def __init__(self):
        self.bits = {}
        self.toks = {}

    def b(self, bits):
        if bits < 0:
            return bits          # poison rows stay negative
        return self.bits.setdefault(bits, len(self.bits) + 1)

    def t(self, tok):
        if tok is None:
            return None
        return self.toks.setdefault(tok, len(self.toks) + 1)


def rows_lit(ids, rows):
    return '[' + '; '.join('(%s, %s, %s)' % (zlit(t), zlit(ids.b(a)), zlit(ids.b(e))) for t, a, e in rows) + ']'


def pair_lit(p):
    return '(%s, %s)' % (zlit(p[0]), zlit(p[1]))


def obs_lit(ids, o, with_tck):
    rl = lambda r: rows_lit(ids, r)
    return ('(Obs %s %s %s %s %s %s %s %s %s %s %s %s %s %s %s %s %s)' % (
        rl(o['rows']), optlit(o['tck'] if with_tck else None, rl), optlit(ids.t(o['start'])),
        optlit(o['lastc'], pair_lit),
        zlit(o['state']), zlit(o['len']), zlit(o['act']), zlit(o['end']), zlit(o['interp']),
        zlit(o['cnt']), zlit(o['cmd']), zlit(o['ans']), optlit(o['id']), zlit(o['azb']), zlit(o['elb']),
        optlit(o['azn']), optlit(o['eln'])))


def q_lit(x):
    n, d = x.as_integer_ratio()
    return '(mkQ %s %d%%positive)' % (zlit(n), d)


def sval_lit(s):
    return '(mkS %s %s %s)' % (zlit(s[0]), zlit(s[1]), blit(s[2]))


def load_lit(ids, world, ld, raised, o):
    es = '[' + '; '.join('mkE %s %s %s %s %s' % (zlit(t), zlit(ids.b(a)), optlit(microdeg(dbl(a))),
                                                 zlit(ids.b(e)), optlit(microdeg(dbl(e))))
                         for t, a, e in ld.entries) + ']'
    h = '(mkH %s %s %s %s %s %s %s)' % (zlit(ld.cnt), zlit(ld.param), zlit(ld.interp), zlit(ld.track),
                                        zlit(ld.mode), optlit(ids.t(world.start_token(ld.start_bits))),
                                        zlit(world.start_room(ld.start_bits)))
    return 'OLoad %s %s %s %s' % (h, es, blit(raised), obs_lit(ids, o, True))


# ---------------------------------------------------------------------------
# generators

GOOD_DELTAS = [1, 2, 5, 10, 100, 250, 1000, 2000, 60000]


def gen_coord(rng, lo, hi, wild=False):
    if wild:
        return rng.choice([float('nan'), float('inf'), -float('inf'), 1e300, -1e300, 2147.483647,
                           2147.4836475, 2147.483648, -2147.483647, -2147.483648, 2147.4836465,
                           3000.0, -2500.25, 1e-320, -0.0])
    r = rng.random()
    if r < 0.1:
        return float(rng.choice([lo, hi, lo - 1, hi + 1, 0, lo - 0.000001, hi + 0.000001]))
    if r < 0.2:
        return rng.uniform(lo - 60, hi + 60)
    return rng.uniform(lo, hi)


def smooth_track(rng, n, wild=False):
    """n coordinates pairs; mostly a slow drift inside the operating ranges"""
    out = []
    if rng.random() < 0.6:
        a, e = rng.uniform(-80, 440), rng.uniform(6, 89)
        va, ve = rng.uniform(-0.4, 0.4), rng.uniform(-0.2, 0.2)
        for i in range(n):
            out.append((a + va * i + rng.uniform(-0.01, 0.01), e + ve * i + rng.uniform(-0.01, 0.01)))
    else:
        for i in range(n):
            out.append((gen_coord(rng, -90, 450), gen_coord(rng, 5, 90)))
    if wild and n:
        k = rng.randrange(n)
        a, e = out[k]
        if rng.random() < 0.5:
            a = gen_coord(rng, -90, 450, True)
        else:
            e = gen_coord(rng, 5, 90, True)
        out[k] = (a, e)
    return [(bits_of(a), bits_of(e)) for a, e in out]


def times_valid(first, delta, n):
    return [first + delta * i for i in range(n)]


def gen_load(world, rng, cnt, starts, bias=None):
    """one load command; `kind` names what was generated (valid or the violated condition)"""
    ps = world.ps
    table = list(ps.relative_times)
    kinds = ['new_ok'] * 6 + ['append_ok'] * 7 + [
        'param', 'interp', 'track', 'mode', 'too_long', 'new_short', 'first_nonzero', 'decreasing',
        'unequal', 'duplicate', 'zero_times', 'append_wrong_start', 'append_gap', 'append_overlap',
        'bad_start', 'bad_coord', 'random_times', 'negative_times', 'append_zero', 'new_over_live',
        'append_from_zero', 'append_near_start', 'append_near_start', 'wrap_progression']
    kind = bias or rng.choice(kinds)
    mode = 2 if kind.startswith('append') else 1
    start = starts[0]
    param, interp, track = 61, 4, 1
    wild = False
    n = rng.choice([5, 5, 6, 7, 8, 10, 12, 20, 50]) if mode == 1 else rng.choice([0, 1, 1, 2, 3, 4, 5, 9, 50])
    delta = rng.choice(GOOD_DELTAS) if rng.random() < 0.8 else rng.randrange(1, 40000000)
    if mode == 2 and len(table) >= 2:
        delta = table[1] - table[0]
    first = 0 if mode == 1 else (table[-1] + delta if table else delta)
    if mode == 1 and rng.random() < 0.3:
        start = rng.choice(starts)          # a new table may move the start time
    if mode == 2 and ps.start_time is not None:
        start = world.last_start_bits
    times = None
    if kind == 'param':
        param = rng.choice([0, 60, 62, 50, 65535, 6100])
    elif kind == 'interp':
        interp = rng.choice([0, 1, 2, 3, 5, 65535])
    elif kind == 'track':
        track = rng.choice([0, 2, 3, 65535])
    elif kind == 'mode':
        mode = rng.choice([0, 3, 4, 65535])
    elif kind == 'too_long':
        n = rng.choice([51, 51, 52, 55, 60])
    elif kind == 'new_short':
        n = rng.choice([0, 1, 2, 3, 4, 4])
    elif kind == 'first_nonzero':
        first = rng.choice([1, -1, delta, 5, -delta])
    elif kind in ('decreasing', 'unequal', 'duplicate'):
        times = times_valid(first, delta, n)
        if n >= 2:
            k = rng.randrange(1, n)
            if kind == 'decreasing':
                times[k] = times[k - 1] - rng.choice([1, delta])
            elif kind == 'duplicate':
                times[k] = times[k - 1]
                if rng.random() < 0.5:       # [0, 0, d, 2d, ...]
                    times = [times[0]] + times[:-1]
            else:
                shift = rng.choice([1, -1, delta, 7])
                for j in range(k, n if rng.random() < 0.7 else k + 1):
                    times[j] += shift
    elif kind == 'zero_times':
        times = [first] * n
    elif kind == 'append_wrong_start':
        start = rng.choice([s for s in starts if s != start] or [bits_of(0.0)])
    elif kind == 'append_near_start':
        # a valid append but for a start time a few microseconds .. one millisecond off
        if ps.start_time is not None:
            from simulators import utils
            off = rng.choice([1, -1, 2, 400, -400, 999, -999, 1000, -1000, 1001, 5000, 0])
            try:
                start = bits_of(utils.mjd(ps.start_time - ps.time_source_offset
                                          + _dt.timedelta(microseconds=off)))
            except (ValueError, OverflowError):
                pass
    elif kind == 'append_gap':
        first += rng.choice([1, delta, -1 if delta > 1 else 1])
    elif kind == 'append_overlap':
        first = table[-1] if table else 0
        if rng.random() < 0.4 and table:
            first = table[0]
    elif kind == 'bad_start':
        start = bits_of(rng.choice([float('nan'), -1.0, float('inf'), -float('inf'), 1e9, 1e300, -0.5,
                                    2973483.9]))   # the last one: year 9999 + something
        if rng.random() < 0.5 and mode == 1:
            mode = rng.choice([1, 2])
    elif kind == 'bad_coord':
        wild = True
    elif kind == 'random_times':
        d = rng.choice([1, 2, 1000])
        times = [first + d * rng.randrange(0, 4) for _ in range(n)]
        if rng.random() < 0.5:
            times.sort()
        if rng.random() < 0.5 and times and mode == 1:
            times[0] = 0
    elif kind == 'negative_times':
        times = times_valid(first, delta, n)
        k = rng.randrange(n) if n else 0
        times = [(-abs(t) - (1 if i >= k else 0)) if i >= k else t for i, t in enumerate(times)]
        if rng.random() < 0.3:
            times = times_valid(-delta * (n - 1), delta, n)
    elif kind == 'wrap_progression':
        # equally spaced and increasing only if the INT32 field is misread as unsigned (or its sign bit dropped):
        # an arithmetic progression modulo 2^32 that crosses the sign bit (seeded change C17-r4m2)
        n = max(n, 5) if mode == 1 else max(n, 2)
        if rng.random() < 0.5:
            d = 1 << 29
        else:
            d = rng.randrange((1 << 31) // max(1, n - 1) + 1, (1 << 32) // n)
        u0 = 0 if mode == 1 else ((table[-1] + d) if table else d)
        times = []
        for i in range(n):
            u = (u0 + d * i) % (1 << 32)
            times.append(u - (1 << 32) if u >= (1 << 31) else u)
    elif kind == 'append_zero':
        n = 0
    elif kind == 'append_from_zero':      # an append that looks like a new table
        first, n = 0, rng.choice([4, 5, 8])
    if times is None:
        times = times_valid(first, delta, n)
    times = [max(-I32, min(I32 - 1, t)) for t in times]
    coords = smooth_track(rng, len(times), wild)
    via_parse = rng.random() < 0.25
    ld = Load(cnt, mode, start, [(t, a, e) for t, (a, e) in zip(times, coords)], param, interp, track,
              via_parse)
    return kind, ld


def gen_tick_us(world, rng):
    """a refresh instant (microseconds after the effective start), biased to the table's times"""
    ps = world.ps
    table = list(ps.relative_times)
    r = rng.random()
    if not table or r < 0.1:
        return rng.choice([-5000000, -1, 0, 1, 999, 1000, 1001, rng.randrange(-10 ** 7, 10 ** 8)])
    t = rng.choice(table + [table[0], table[-1], table[-1]])
    if r < 0.45:
        return t * 1000
    if r < 0.6:
        return t * 1000 + rng.choice([-1, 1])
    if r < 0.7:
        return table[-1] * 1000 + rng.choice([1, 1000, 10 ** 6])
    if r < 0.8:
        return rng.choice([-1, -1000000, -rng.randrange(1, 10 ** 7)])
    lo, hi = table[0] * 1000, table[-1] * 1000
    return rng.randrange(min(lo, 0), hi + 2) if hi + 2 > min(lo, 0) else lo


def start_pool(rng):
    """start-time fields (bits of MJD doubles): a few seconds around the frozen 'now'"""
    from simulators import utils
    base = _dt.datetime(2026, 10, 1, 12, 0, 0)
    out = []
    for s in (2, 30, 3600.5, -10):
        out.append(bits_of(utils.mjd(base + _dt.timedelta(seconds=s + rng.randrange(0, 1000) / 1000.0))))
    rng.shuffle(out)
    return out


def run_history(world, rng, nops, on_load=None, on_tick=None, script=None):
    """drive one history; yields nothing, calls the observers. Returns the list of executed ops."""
    ops = []
    starts = start_pool(rng)
    world.last_start_bits = starts[0]
    cnt = rng.randrange(1, 2 ** 32 - 100)
    for i in range(nops):
        ps = world.ps
        want_load = (i == 0) or rng.random() < (0.45 if ps.relative_times else 0.7)
        if want_load:
            cnt = (cnt + rng.choice([1, 1, 7, 2 ** 31])) % 2 ** 32
            bias = None
            if i == 0 and rng.random() < 0.7:
                bias = 'new_ok'
            kind, ld = gen_load(world, rng, cnt, starts, bias)
            stop = on_load(kind, ld)
            if ps.parameter_command_answer == 1 and ld.param == 61:
                world.last_start_bits = ld.start_bits
            ops.append(ld)
        else:
            tk = Tick(gen_tick_us(world, rng))
            stop = on_tick(tk)
            ops.append(tk)
        if stop:
            break
    return ops


# ---------------------------------------------------------------------------
# correspondence

def record_case(ctx, rng, nops, corpus_ops=None, cfg=None):
    offset_ms = cfg[0] if cfg else rng.choice([0, 0, 0, 1500, -700])
    tso_s = cfg[1] if cfg else rng.choice([0, 0, 0, 37])
    world = World(offset_ms, tso_s)
    terms = []
    accepted = [0]
    ids = Ids()
    try:
        lim = world.limits()
        az0, el0 = world.az.p_Bahn, world.el.p_Bahn

        def on_load(kind, ld):
            raised = world.load(ld)
            o = world.observe()
            terms.append(load_lit(ids, world, ld, raised, o))
            ctx.count('load:' + kind + (':accepted' if o['ans'] == 1 and not raised else ':refused'))
            if o['ans'] == 1:
                accepted[0] += 1
            return raised

        def on_tick(tk):
            world.set_time(tk.us)
            x = world.elapsed()
            sv0 = world.spline_at(0)
            sve = world.spline_at(x)
            before = world.ps.ptState
            tcks = (world.ps.az_tck, world.ps.el_tck)
            raised = world.tick()
            o = world.observe()
            if world.ps.az_tck is not tcks[0] or world.ps.el_tck is not tcks[1]:
                o['state'] = -3          # a refresh never replaces the splines: cannot match the model
            terms.append('OTick %s %s %s %s %s' % (q_lit(x), sval_lit(sv0), sval_lit(sve), blit(raised),
                                                   obs_lit(ids, o, False)))
            ctx.count('tick:%d->%d' % (before, o['state']))
            return raised
        if corpus_ops is None:
            ops = run_history(world, rng, nops, on_load, on_tick)
        else:
            ops = corpus_ops
            for op in ops:
                if (on_load('corpus', op) if isinstance(op, Load) else on_tick(op)):
                    break
    finally:
        world.close()
    term = 'mkC (mkL %s %s %s %s) %s %s [\n  %s]' % (
        zlit(lim[0]), zlit(lim[1]), zlit(lim[2]), zlit(lim[3]), zlit(az0), zlit(el0), ';\n  '.join(terms))
    if accepted[0]:
        ctx.nontriv(term)
    return term, dict(offset_ms=offset_ms, tso_s=tso_s, ops=[o.to_json() for o in ops])


def gen_cases(ctx):
    rng = ctx.rng
    cases = []
    for path, obj in corpus_items():
        r = __import__('random').Random(1)
        w = obj['witness']
        ops = [Load.from_json(o) if o['op'] == 'load' else Tick(o['us']) for o in w['ops']]
        term, _ = record_case(ctx, r, 0, ops, (w.get('offset_ms', 0), w.get('tso_s', 0)))
        cases.append(term)
    n = ctx.n(300, 3000)
    for k in range(n):
        term, _ = record_case(ctx, rng, rng.choice([3, 5, 8, 8, 11, 14]))
        cases.append(term)
    return cases


def correspondence(ctx):
    cases = gen_cases(ctx)
    ctx.sample(cases[len(cases) // 2][:1500])
    ctx.run_cases('track_histories', 'From DS Require Import Model.AtrkModel Corr.AtrkCorr.',
                  'tcase', 'ok', cases, show='show',
                  shard=ctx.n(10, 25))


def corpus_items():
    d = os.path.join(os.path.dirname(os.path.dirname(os.path.abspath(__file__))), 'corpus', 'C17')
    out = []
    if os.path.isdir(d):
        for f in sorted(os.listdir(d)):
            if f.endswith('.json'):
                out.append((os.path.join(d, f), json.load(open(os.path.join(d, f)))))
    return out


# ---------------------------------------------------------------------------
# property-level oracle on the implementation

def spec_acceptable(ps, world, ld):
    """the statement's acceptance rule, evaluated on the implementation's stored table.
    Returns (acceptable, feasible_reason): feasible_reason names the known class in which an
    acceptable load cannot be honoured (None when it can)."""
    times = [t for t, _, _ in ld.entries]
    n = len(times)
    table = list(ps.relative_times)
    if ld.interp != 4 or ld.track != 1 or n > 50:
        return False, None
    tok = world.start_token(ld.start_bits)
    if ld.mode == 1:
        whole = times
        if n < 5 or times[0] != 0:
            return False, None
    elif ld.mode == 2:
        if not table or tok is None or tok != token(ps.start_time):
            return False, None
        whole = table + times
    else:
        return False, None
    deltas = {b - a for a, b in zip(whole, whole[1:])}
    if len(deltas) > 1 or any(d <= 0 for d in deltas):
        return False, None
    if tok is None:
        return True, 'new_table_unrepresentable_start_time'
    if whole and whole[-1] * 1000 > world.start_room(ld.start_bits):
        return True, 'new_table_unrepresentable_start_time'      # the end of the track is not a date
    if any(microdeg(dbl(a)) is None or microdeg(dbl(e)) is None for _, a, e in ld.entries):
        return True, 'coordinate_not_int32_microdegrees'
    if len(whole) < 4:
        return True, 'append_leaves_fewer_than_4_points'
    return True, None


def snapshot(world):
    o = world.observe()
    ps = world.ps
    o['tck_ids'] = (id(ps.az_tck), id(ps.el_tck))
    o['end_time'] = ps.end_time
    for k in ('cnt', 'cmd', 'ans'):
        del o[k]
    return o


ALLOWED = {(0, 0), (0, 2), (2, 2), (2, 3), (2, 4), (3, 3), (3, 4), (3, 2), (4, 4), (4, 2)}


class Oracle:
    def __init__(self, ctx):
        self.ctx = ctx
        self.checked = 0
        self.points_checked = 0
        self.worst = 0

    def history(self, rng, nops, witness=None):
        """run one history with every check of the statement; returns the failures as
        (klass, what, detail) and the witness (json)"""
        fails = []
        offset_ms = witness['offset_ms'] if witness else rng.choice([0, 0, 0, 1500, -700])
        tso_s = witness['tso_s'] if witness else rng.choice([0, 0, 0, 37])
        world = World(offset_ms, tso_s)
        done = []
        try:
            ps = world.ps
            lim = world.limits()

            def bad(klass, what, **detail):
                fails.append((klass, what, detail))

            def on_load(kind, ld):
                self.checked += 1
                acc, why = spec_acceptable(ps, world, ld)
                before = snapshot(world)
                st0 = before['state']
                raised = world.load(ld)
                done.append(ld)
                after = snapshot(world)
                ans = ps.parameter_command_answer
                if raised:
                    bad('load_raises', 'the command thread dies: %s' % world.raised, kind=kind)
                    return True
                if ps.parameter_command_counter != ld.cnt or ps.parameter_command != ld.param:
                    bad('answer_not_for_this_command', 'counter/command not updated', kind=kind)
                if ld.param != 61:
                    if ans != 0 or before != after:
                        bad('not_a_load_changes_state', 'parameter id != 61 answered %d or changed state' % ans)
                    return False
                if ans not in (1, 5):
                    bad('answer_domain', 'answer %d' % ans, kind=kind)
                if ans == 1 and not acc:
                    bad('unacceptable_load_accepted', 'answer 1 for a load the statement refuses', kind=kind)
                if ans != 1 and acc:
                    bad(why or 'acceptable_load_refused',
                        'answer %d for a load the statement accepts' % ans, kind=kind)
                if ans != 1 and before != after:
                    diff = sorted(k for k in before if before[k] != after[k])
                    bad('refused_load_changes_state', 'refused load changed %s' % ','.join(diff), kind=kind)
                if ans == 1:
                    st1 = after['state']
                    want = 2 if (ld.mode == 1 or st0 != 3) else 3
                    if st1 != want:
                        bad('state_after_accept', 'tracking state %d after accepted load from %d' % (st1, st0))
                    rows = after['rows']
                    exp = ([] if ld.mode == 1 else before['rows']) + [tuple(e) for e in ld.entries]
                    if rows != exp:
                        bad('table_after_accept', 'stored table is not old ++ new')
                    if after['len'] != len(rows):
                        bad('table_length_after_accept', 'ptTableLength %d, table has %d' % (after['len'], len(rows)))
                    last = rows[-1]
                    if after['lastc'] != (microdeg(dbl(last[1])), microdeg(dbl(last[2]))):
                        bad('last_coordinates', 'last_coordinates are not the last loaded point')
                    if after['tck'] != rows:
                        bad('spline_not_from_table', 'az_tck/el_tck are not splrep of the stored table')
                return False

            def clampv(v, lo, hi):
                return max(min(v, hi + 1), lo - 1)

            def on_tick(tk):
                self.checked += 1
                world.set_time(tk.us)
                x = world.elapsed()
                before = snapshot(world)
                st0 = before['state']
                table = [r[0] for r in before['rows']]
                tck_rows = before['tck']
                fits = world.spline_at(x)[2]
                raised = world.tick()
                done.append(tk)
                if raised:
                    if st0 in (2, 3) and not fits:
                        bad('trajectory_rate_overflows_int32', 'update_status raises: %s' % world.raised)
                    else:
                        bad('refresh_raises', 'update_status raises: %s' % world.raised)
                    return True
                after = snapshot(world)
                st1 = after['state']
                if (st0, st1) not in ALLOWED:
                    bad('state_transition', 'tracking state %d -> %d' % (st0, st1))
                if st0 in (2, 3):
                    last_t = table[-1] if table else None
                    if last_t is None:
                        bad('enabled_without_table', 'state %d with an empty table' % st0)
                        return False
                    want = 2 if (st0 == 2 and x < 0) else (4 if x > last_t else 3)
                    if st1 != want:
                        bad('state_at_instant', 'state %d -> %d at elapsed %r (last point %d)'
                            % (st0, st1, x, last_t))
                    if st1 == 4:
                        lc = before['lastc']
                        if (after['azb'], after['elb']) != (clampv(lc[0], lim[0], lim[1]), clampv(lc[1], lim[2], lim[3])):
                            bad('end_on_last_coordinates', 'completed track does not end on the last coordinates')
                        if after['rows'] or after['len'] != 0:
                            bad('table_after_completion', 'table not emptied on completion')
                    if st1 == 3:
                        keep = [r for r in before['rows'] if not r[0] < x]
                        if after['rows'] != keep or after['len'] != len(keep):
                            bad('table_consumption', 'table after refresh is not the points at or after now')
                    if st1 == 2 and tck_rows and tck_rows[0][0] == 0:
                        # enabled, before the start: the trajectory waits on the first loaded point
                        for got, bits, lo, hi in ((after['azb'], tck_rows[0][1], lim[0], lim[1]),
                                                  (after['elb'], tck_rows[0][2], lim[2], lim[3])):
                            ud = microdeg(dbl(bits))
                            if lo <= ud <= hi and abs(got - ud) > 1:
                                bad('trajectory_before_start', 'p_Bahn %d while waiting on point %d' % (got, ud))
                    if st1 in (2, 3) and after['rows']:
                        head = after['rows'][0]
                        if (after['azn'], after['eln']) != (microdeg(dbl(head[1])), microdeg(dbl(head[2]))):
                            bad('next_position', 'next_pos of the axes is not the first remaining point')
                        # through the loaded points (those the spline was built from), +-1 microdegree
                        for (t, a, e) in (tck_rows or []):
                            if t == x:
                                self.points_checked += 1
                                for got, bits, lo, hi in ((after['azb'], a, lim[0], lim[1]),
                                                          (after['elb'], e, lim[2], lim[3])):
                                    ud = microdeg(dbl(bits))
                                    if lo <= ud <= hi:
                                        self.worst = max(self.worst, abs(got - ud))
                                        if abs(got - ud) > 1:
                                            bad('trajectory_misses_point',
                                                'p_Bahn %d at the time of loaded point %d' % (got, ud), t=t)
                elif st0 in (0, 4):
                    for k in ('rows', 'state', 'len', 'azb', 'elb'):
                        if before[k] != after[k]:
                            bad('idle_refresh_changes_state', 'refresh in state %d changed %s' % (st0, k))
                return False

            if witness:
                for o in witness['ops']:
                    if o['op'] == 'load':
                        stop = on_load('replay', Load.from_json(o))
                    else:
                        stop = on_tick(Tick(o['us']))
                    if stop or fails:
                        break
            else:
                self.scripted(world, rng, nops, on_load, on_tick, fails)
        finally:
            world.close()
        return fails, dict(offset_ms=offset_ms, tso_s=tso_s, ops=[o.to_json() for o in done])

    def scripted(self, world, rng, nops, on_load, on_tick, fails):
        """half of the histories are free (same generator as the correspondence); the other half
        follow a track to its end: before the start, at every loaded point, after the last"""
        if rng.random() < 0.5:
            run_history(world, rng, nops, lambda k, l: on_load(k, l) or bool(fails),
                        lambda t: on_tick(t) or bool(fails))
            return
        starts = start_pool(rng)
        world.last_start_bits = starts[0]
        cnt = rng.randrange(1, 2 ** 31)
        kind, ld = gen_load(world, rng, cnt, starts, 'new_ok')
        if on_load(kind, ld) or fails:
            return
        if rng.random() < 0.7 and on_tick(Tick(rng.choice([-1, -1000, -2500000]))):
            return
        visited = 0
        while world.ps.relative_times and not fails and visited < 120:
            table = list(world.ps.relative_times)
            r = rng.random()
            if r < 0.15:
                cnt += 1
                kind, ld = gen_load(world, rng, cnt, starts, rng.choice(
                    ['append_ok', 'append_ok', 'unequal', 'append_gap', 'bad_coord', 'new_short', 'decreasing']))
                if on_load(kind, ld):
                    return
                continue
            step = 1 if r < 0.8 else rng.randrange(1, len(table) + 1)
            t = table[min(step, len(table)) - 1] if world.ps.ptState == 3 else table[0]
            visited += 1
            if on_tick(Tick(t * 1000)):
                return
            if t == table[-1]:
                if on_tick(Tick(t * 1000 + rng.choice([1, 1000, 10 ** 6]))):
                    return
        if not fails and rng.random() < 0.5:
            on_tick(Tick(rng.randrange(0, 10 ** 9)))


def shrink(orc, witness, klass):
    """drop operations while the same class still fails"""
    ops = witness['ops']
    i = 0
    while i < len(ops) and len(ops) > 1:
        trial = dict(witness, ops=ops[:i] + ops[i + 1:])
        try:
            fails, done = orc.history(None, 0, trial)
        except Exception:   # noqa
            fails = []
        if any(f[0] == klass for f in fails):
            ops = trial['ops']
        else:
            i += 1
    return dict(witness, ops=ops)


def oracle(ctx):
    rng = ctx.rng
    orc = Oracle(ctx)
    seen = set()
    for path, obj in corpus_items():
        fails, w = orc.history(None, 0, obj['witness'])
        for klass, what, detail in fails[:1]:
            if klass not in seen:
                seen.add(klass)
                ctx.fail(klass, what, dict(w, detail=detail, corpus=os.path.basename(path)))
    for k in range(ctx.n(500, 6000)):
        fails, w = orc.history(rng, rng.choice([4, 6, 9, 12]))
        for klass, what, detail in fails[:1]:
            if klass in seen:
                continue
            seen.add(klass)
            w = shrink(orc, w, klass)
            ctx.fail(klass, what, dict(w, detail=detail))
    ctx.oracle_stats = dict(operations_checked=orc.checked, loaded_points_visited=orc.points_checked,
                            worst_distance_from_loaded_point_microdeg=orc.worst)
    ctx.evaluations += orc.checked


def replay(ctx, obj):
    w = obj['witness']
    orc = Oracle(ctx)
    fails, _ = orc.history(None, 0, w)
    for f in fails:
        print('  replay: %s — %s' % (f[0], f[1]))
    return any(f[0] == obj.get('klass') for f in fails)
