"""Shared harness of the active-surface LINE checks (tag Asl): C11, c03_as, c10_as, c04_as.

Drives the real simulators.active_surface.System deterministically (positioning thread stopped
right after construction, module-level `time` of the two modules replaced by a frozen clock with a
no-op sleep), spies on the real USD objects (class swap to a recording subclass), renders Coq case
terms for Corr/AslCorr.v."""
import contextlib
import types

from vlib.core import zlit, zlist, blit

FA, FC = 0xFA, 0xFC
ACK, NAK = 0x06, 0x15

# command code -> number of parameter bytes the handler accepts (harness-side knowledge used only
# to generate mostly-valid traffic; the model has its own table, the code has its own checks)
NPAR = {0x01: 0, 0x02: 0, 0x10: 0, 0x11: 0, 0x12: 0, 0x13: 0, 0x14: 0,
        0x20: 2, 0x21: 2, 0x22: 1, 0x23: 4, 0x25: 1, 0x26: 1, 0x27: 1, 0x28: 1, 0x29: 1,
        0x30: 4, 0x31: 4, 0x32: 1, 0x35: 3, 0x2A: 1, 0x2B: 1, 0x2C: 1, 0x2D: 2}
GETTERS = (0x10, 0x12, 0x13, 0x14)
CODES = sorted(NPAR)
UNKNOWN_CODES = [c for c in range(256) if c not in NPAR]


# ---------------------------------------------------------------------------------------------
# control of the implementation

_clock = [1000.0]     # the frozen clock of frozen_time(); advance() moves it (never runs by itself)


def advance(dt):
    _clock[0] += dt


@contextlib.contextmanager
def frozen_time():
    """replace `time` in active_surface/__init__.py and usd.py by a frozen clock; sleep is a no-op.
    `Thread` of the System module is replaced by a subclass that remembers its `args`, so that the
    harness knows which list of units the positioning loop really iterates."""
    import threading
    import simulators.active_surface as A
    import simulators.active_surface.usd as Um
    _clock[0] = 1000.0
    fake = types.SimpleNamespace(time=lambda: _clock[0], sleep=lambda s: None)

    class RecThread(threading.Thread):
        def __init__(self, *a, **k):
            self._asl_args = tuple(k.get('args') or ())
            super().__init__(*a, **k)
    saved = (A.time, Um.time, A.Thread)
    A.time = fake
    Um.time = fake
    A.Thread = RecThread
    try:
        yield
    finally:
        A.time, Um.time, A.Thread = saved


def make_line(lo, hi):
    """System(lo, hi) with the positioning thread stopped right after construction.
    Call inside frozen_time()."""
    from simulators.active_surface import System
    s = System(min_usd_index=lo, max_usd_index=hi)
    s.stop.value = True
    s.positioning_thread.join()
    # the units the positioning loop was given (it calls calc_position on each of them)
    lst = None
    for a in getattr(s.positioning_thread, '_asl_args', ()):
        if isinstance(a, list):
            lst = a
            break
    s._asl_loop_units = lst if lst is not None else s.drivers
    return s


def tick(system, elapsed):
    """one iteration of System._positioning on the list the thread was started with"""
    for u in system._asl_loop_units:
        u.calc_position(elapsed)


_spy_classes = {}


def spy_class():
    """subclass of the real USD whose 24 command methods record (code, args, ret, delay after)"""
    from simulators.active_surface.usd import USD
    from simulators.active_surface import System
    key = id(USD)
    if key in _spy_classes:
        return _spy_classes[key]

    def mk(orig, code):
        def wrapped(self, *a):
            try:
                r = orig(self, *a)
            except BaseException as ex:
                self._spy.append((code, a, ('raise', type(ex).__name__), self.delay_multiplier))
                raise
            self._spy.append((code, a, r, self.delay_multiplier))
            return r
        return wrapped
    body = {}
    for code, hname in System.functions.items():
        meth = hname[1:]
        body[meth] = mk(getattr(USD, meth), code)
    cls = type('SpyUSD', (USD,), body)
    _spy_classes[key] = cls
    return cls


def spy_on(system):
    cls = spy_class()
    system._asl_spied = list(system.drivers)
    for u in system.drivers:
        u.__class__ = cls
        u._spy = []


def logs_of(system):
    """call logs of the units `system.drivers` holds NOW (a unit the simulator created after
    spy_on has no log: [])"""
    return [list(getattr(u, '_spy', [])) for u in system.drivers]


def rebound(system):
    """True when the simulator replaced a spied unit / the driver list by other objects"""
    sp = getattr(system, '_asl_spied', None)
    return sp is not None and (len(sp) != len(system.drivers)
                               or any(a is not b for a, b in zip(sp, system.drivers)))


def snapshot(u):
    """every attribute of one USD (queue by content), hashable/comparable"""
    out = {}
    for k, v in vars(u).items():
        if k.startswith('_spy') or k.startswith('_asl'):
            continue
        if k == 'position_queue':
            v = tuple(v.queue)
        elif isinstance(v, list):
            v = tuple(v)
        out[k] = v
    return out


def snapshots(system):
    return [snapshot(u) for u in system.drivers]


def classify(system, b):
    """one call of parse, classified as ListenHandler._handle does"""
    try:
        r = system.parse(chr(b))
    except ValueError:
        return 'V'
    except Exception:      # noqa
        return 'E'
    if r is True:
        return 'T'
    if r is False:
        return 'F'
    if isinstance(r, str) and r:
        return [ord(c) for c in r]
    return 'B'


def feed(system, bs):
    return [classify(system, b) for b in bs]


def fstate_of(system):
    return ([ord(c) for c in system.msg], bool(system.msg_to_all), int(system.expected_bytes))


# ---------------------------------------------------------------------------------------------
# frames (independent of command_library)

def checksum(bs):
    return 255 - (sum(bs) % 256)


def frame(start, target, code, params, bad_checksum=0):
    """target: None = broadcast, else unit address 0..31"""
    n = len(params) + 1
    if target is None:
        body = [start, 0, n, code] + list(params)
    else:
        body = [start, ((n << 5) | target) & 0xFF, code] + list(params)
    return body + [(checksum(body) + bad_checksum) % 256]


def valid_params(rng, code):
    """parameter bytes of the right count, values biased to the interesting ones"""
    n = NPAR[code]

    def be(v, k):
        return list((v % (1 << (8 * k))).to_bytes(k, 'big'))
    if code in (0x20, 0x21):
        v = rng.choice([20, 10000, 19, 10001, 500, 0, -1, 32767, -32768, rng.randrange(20, 10001),
                        rng.randrange(-32768, 32768)])
        return be(v, 2)
    if code in (0x23, 0x30, 0x31):
        v = rng.choice([0, 1, -1, 2 ** 31 - 1, -2 ** 31, 21000 * 128, -21000 * 128,
                        rng.randrange(-3000000, 3000000), rng.randrange(-2 ** 31, 2 ** 31)])
        return be(v, 4)
    if code == 0x35:
        v = rng.choice([0, 1, 9, 10, -10, 100000, -100000, 100001, -100001, 2 ** 23 - 1, -2 ** 23,
                        rng.randrange(-100000, 100001), rng.randrange(-2 ** 23, 2 ** 23)])
        return be(v, 3)
    if code == 0x28:
        return [rng.choice([0, 5, 255, 254, 1, rng.randrange(256)])]
    if code == 0x26:
        return [rng.choice([0, 1, 7, 8, 15, 16, 255, rng.randrange(256)])]
    if code == 0x32:
        return [rng.choice([0, 1, 255, 127, 128, 129, rng.randrange(256)])]
    return [rng.randrange(256) if rng.random() < 0.7 else rng.choice([0, 1, 127, 128, 255]) for _ in range(n)]


def gen_config(rng):
    r = rng.random()
    if r < 0.15:
        return 1, 17
    if r < 0.25:
        return 0, 31
    if r < 0.40:
        lo = rng.randrange(32)
        return lo, lo                       # one unit
    if r < 0.70:
        lo = rng.randrange(0, 30)
        return lo, min(31, lo + rng.randrange(1, 4))
    lo = rng.randrange(32)
    return lo, rng.randrange(lo, 32)


def gen_target(rng, lo, hi):
    """(target, kind): broadcast / present / below / above"""
    r = rng.random()
    if r < 0.25:
        return None, 'bcast'
    below = list(range(0, lo))
    above = list(range(hi + 1, 32))
    if r < 0.45 and below:
        # biased to the addresses that negative indexing would map onto a unit
        n = hi - lo + 1
        near = [a for a in below if a - lo >= -n]
        return rng.choice(near if near and rng.random() < 0.7 else below), 'below'
    if r < 0.60 and above:
        return rng.choice([hi + 1, 31, rng.choice(above)]), 'above'
    return rng.randrange(lo, hi + 1), 'present'


def gen_message(rng, lo, hi, target=None, tkind=None, force_valid=False):
    """one frame and a tag describing it"""
    if tkind is None:
        target, tkind = gen_target(rng, lo, hi)
    start = rng.choice([FA, FC])
    r = rng.random()
    if force_valid or r < 0.70:
        code = rng.choice(CODES)
        return frame(start, target, code, valid_params(rng, code)), tkind + ':valid'
    if r < 0.82:
        code = rng.choice(CODES)
        n = rng.choice([k for k in range(7) if k != NPAR[code]])
        return frame(start, target, code, [rng.randrange(256) for _ in range(n)]), tkind + ':wrongcount'
    if r < 0.90:
        code = rng.choice(UNKNOWN_CODES)
        n = rng.randrange(0, 7)
        return frame(start, target, code, [rng.randrange(256) for _ in range(n)]), tkind + ':unknown'
    code = rng.choice(CODES)
    good = frame(start, target, code, valid_params(rng, code))
    # wrong checksum byte: special values, off by one, uncomplemented sum, random
    c = good[-1]
    bad = rng.choice([0, 0, 255, (c + 1) % 256, (c - 1) % 256, c ^ 0xFF, rng.randrange(256)])
    if bad == c:
        bad = (c + 7) % 256
    return good[:-1] + [bad], tkind + ':badchecksum'


def gen_garbage(rng):
    """malformed stream pieces: non-header noise, truncated frames, bad length nibbles,
    nested headers"""
    r = rng.random()
    if r < 0.2:
        return [rng.choice([b for b in range(256) if b not in (FA, FC)]) for _ in range(rng.randrange(1, 6))], 'noise'
    if r < 0.4:
        f = frame(rng.choice([FA, FC]), rng.choice([None, rng.randrange(32)]), rng.choice(CODES),
                  [rng.randrange(256) for _ in range(rng.randrange(0, 7))])
        return f[:rng.randrange(1, len(f))], 'truncated'
    if r < 0.55:
        return [rng.choice([FA, FC]), rng.randrange(1, 32)], 'zero-length-nibble'
    if r < 0.70:
        return [rng.choice([FA, FC]), 0, rng.choice([0, 8, 9, 255, rng.randrange(8, 256)])], 'bad-bcast-length'
    if r < 0.85:
        return [rng.choice([FA, FC]) for _ in range(rng.randrange(1, 5))], 'nested-headers'
    return [rng.randrange(256) for _ in range(rng.randrange(1, 14))], 'random'


POKES = dict(
    current_position=lambda rng: rng.choice([0, 1, -1, 2 ** 31 - 1, -2 ** 31, 2 ** 31, -2 ** 31 - 1,
                                             rng.randrange(-2688000, 2688001),
                                             rng.randrange(-2 ** 31, 2 ** 31)]),
    delay_multiplier=lambda rng: rng.choice([0, 5, 255, 254, 255, rng.randrange(256)]),
    running=lambda rng: rng.random() < 0.5,
    version=lambda rng: rng.choice([[1, 3], [0, 0], [240, 0], [241, 0], [-16], [-15], [1114097],
                                    [1114096], [2 ** 31], [2 ** 31 - 16], [-2 ** 31 - 16], [-2 ** 31 - 15], []]),
    driver_type=lambda rng: rng.choice([0x20, 0x21, 127, 128, -128, -129, 255, 0]),
    delayed_execution=lambda rng: rng.random() < 0.5,
    min_frequency=lambda rng: rng.randrange(20, 5000),
    max_frequency=lambda rng: rng.randrange(5000, 10001),
)
# pokes that keep the unit in a state the real USD can reach (used by the property oracles)
SOFT_POKES = ('current_position_inrange', 'delay_multiplier', 'running', 'delayed_execution',
              'min_frequency', 'max_frequency')


def gen_pokes(rng, n_units, soft=False, p=0.5):
    pokes = []
    if rng.random() > p:
        return pokes
    for _ in range(rng.randrange(1, 2 + 2 * n_units)):
        j = rng.randrange(n_units)
        if soft:
            name = rng.choice(SOFT_POKES)
            if name == 'current_position_inrange':
                pokes.append((j, 'current_position', rng.randrange(-2688000, 2688001)))
                continue
        else:
            name = rng.choice(sorted(POKES))
        pokes.append((j, name, POKES[name](rng)))
    return pokes


def apply_pokes(system, pokes):
    for j, name, val in pokes:
        setattr(system.drivers[j], name, list(val) if isinstance(val, list) else val)


# ---------------------------------------------------------------------------------------------
# Coq rendering

def arg_term(a):
    if a is None:
        return 'ANone'
    if isinstance(a, bool):
        raise ValueError('bool argument')
    if isinstance(a, int):
        return 'AInt %s' % zlit(a)
    if isinstance(a, (list, tuple)) and all(isinstance(x, int) for x in a):
        return 'AList %s' % zlist(a)
    raise ValueError('argument shape %r' % (a,))


def ret_term(r):
    if r is None:
        return 'RNone'
    if isinstance(r, bool):
        return 'RBool %s' % blit(r)
    if isinstance(r, int):
        return 'RInt %s' % zlit(r)
    if isinstance(r, str):
        return 'RStr %s' % zlist([ord(c) for c in r])
    if isinstance(r, (list, tuple)) and all(isinstance(x, int) and not isinstance(x, bool) for x in r):
        return 'RList %s' % zlist(r)
    raise ValueError('return shape %r' % (r,))


def call_term(code, args):
    return '(mkcall %s [%s])' % (zlit(code), '; '.join(arg_term(a) for a in args))


def outcome_term(o):
    if isinstance(o, list):
        return 'OReply %s' % zlist(o)
    return {'T': 'OTrue', 'F': 'OFalse', 'V': 'OValueError', 'E': 'OException', 'B': 'OBadRet'}[o]


def lcase_term(lo, units, bs, outs, fin):
    """units: list of (initial delay_multiplier, [(code, args, ret, dm_after), ...])"""
    us = []
    for dm0, log in units:
        obs = ['(%s, %s, %s)' % (call_term(c, a), ret_term(r), zlit(dm)) for c, a, r, dm in log]
        us.append('(%s, [%s])' % (zlit(dm0), '; '.join(obs)))
    return 'mkCase %s [%s] %s [%s] (%s, %s, %s)' % (
        zlit(lo), '; '.join(us), zlist(bs), '; '.join(outcome_term(o) for o in outs),
        zlist(fin[0]), blit(fin[1]), zlit(fin[2]))


class UsdRaised(Exception):
    pass


def run_history(lo, hi, pokes, bs):
    """run one history on a fresh real line; returns (Coq lcase term, outcomes, replies)
    where replies = [(frame bytes so far, reply)] is left to the caller.  Raises UsdRaised when a
    USD method itself raised (outside the line model)."""
    with frozen_time():
        s = make_line(lo, hi)
        apply_pokes(s, pokes)
        spy_on(s)
        dm0 = [u.delay_multiplier for u in s.drivers]
        spied = list(s.drivers)
        outs = feed(s, bs)
        fin = fstate_of(s)
        units = []
        # calls are those received by the units that were on the line when the history started
        # (if the simulator rebinds the list, the calls the model expects are simply missing:
        # a correspondence mismatch, not a crash)
        for j, u in enumerate(spied):
            for c, a, r, dm in u._spy:
                if isinstance(r, tuple) and len(r) == 2 and r[0] == 'raise':
                    raise UsdRaised(r[1])
            units.append((dm0[j], list(u._spy)))
    return lcase_term(lo, units, bs, outs, fin), outs, units


LINE_IMPORTS = 'From DS Require Import Base.Bits Model.Utils Model.AslLine Corr.AslCorr.'


# ---------------------------------------------------------------------------------------------
# generated tables (tie of the hand-written tables to the source, DESIGN.md section 5.1)

def gen_tables(ctx):
    """coq/Gen/AslTables.v: System.functions (code, handler name), the constants of the line, and
    the command byte every public encoder of command_library.py passes to _compose (by AST)."""
    import ast
    import os
    from vlib.core import COQ, REPO, GenError, write_if_changed
    from simulators.active_surface import System
    from simulators.active_surface.usd import USD
    funcs = list(System.functions.items())
    for code, hname in funcs:
        if not (isinstance(code, int) and isinstance(hname, str) and hname.startswith('_')):
            raise GenError('System.functions entry %r: %r' % (code, hname))
        if not callable(getattr(System, hname, None)):
            raise GenError('handler %s missing on System' % hname)
        if not callable(getattr(USD, hname[1:], None)):
            raise GenError('USD method %s missing' % hname[1:])
    consts = dict(ack=ord(System.byte_ack), nak=ord(System.byte_nak), switchall=ord(System.byte_switchall),
                  max_usd=System.max_usd_per_line)
    src = open(os.path.join(REPO, 'simulators/active_surface/command_library.py')).read()
    tree = ast.parse(src)
    encs = []
    for node in tree.body:
        if isinstance(node, ast.FunctionDef) and not node.name.startswith('_'):
            rets = [n for n in ast.walk(node) if isinstance(n, ast.Return)]
            if len(rets) != 1:
                raise GenError('encoder %s: %d return statements' % (node.name, len(rets)))
            call = rets[0].value
            if not (isinstance(call, ast.Call) and isinstance(call.func, ast.Name) and call.func.id == '_compose'
                    and len(call.args) in (3, 4) and isinstance(call.args[2], ast.Constant)
                    and isinstance(call.args[2].value, str) and len(call.args[2].value) == 1
                    and isinstance(call.args[0], ast.Name) and call.args[0].id == 'address_on_response'
                    and isinstance(call.args[1], ast.Name) and call.args[1].id == 'usd_index'):
                raise GenError('encoder %s: unrecognised return shape' % node.name)
            encs.append((node.name, ord(call.args[2].value)))
    starts = {}
    for node in tree.body:
        if isinstance(node, ast.Assign) and len(node.targets) == 1 and isinstance(node.targets[0], ast.Name) \
                and node.targets[0].id in ('byte_start_fa', 'byte_start_fc'):
            starts[node.targets[0].id] = ord(node.value.value)
    if sorted(starts) != ['byte_start_fa', 'byte_start_fc']:
        raise GenError('start bytes of command_library not found')

    def name(s):
        return zlist([ord(c) for c in s])
    lines = ['(* GENERATED by props/asl_lib.py from simulators/active_surface/{__init__,command_library}.py;',
             '   never edit, never commit *)',
             'From DS Require Import Base.Prelude.',
             'Definition gen_functions : list (Z * list Z) := [',
             ';\n'.join('  (%s, %s)' % (zlit(c), name(h)) for c, h in funcs), '].',
             'Definition gen_ack : Z := %s.' % zlit(consts['ack']),
             'Definition gen_nak : Z := %s.' % zlit(consts['nak']),
             'Definition gen_switchall : Z := %s.' % zlit(consts['switchall']),
             'Definition gen_max_usd_per_line : Z := %s.' % zlit(consts['max_usd']),
             'Definition gen_start_fa : Z := %s.' % zlit(starts['byte_start_fa']),
             'Definition gen_start_fc : Z := %s.' % zlit(starts['byte_start_fc']),
             'Definition gen_encoders : list (list Z * Z) := [',
             ';\n'.join('  (%s, %s)' % (name(n), zlit(c)) for n, c in encs), '].']
    write_if_changed(os.path.join(COQ, 'Gen', 'AslTables.v'), '\n'.join(lines) + '\n')
