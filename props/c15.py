"""C15 — antenna axes stay in range, never outrun the commanded rate, stop on demand.

Correspondence of coq/Model/AaxModel.v with the real simulators.acu.axis_status.MasterAxisStatus
objects (as constructed by simulators.acu.System, plus objects built with other constructor
arguments), and the property-level oracle on the implementation.

How the real command threads are driven (no real sleeping, no wall clock, no flaking):
the attribute `time` of the module simulators.acu.axis_status is replaced by a namespace whose
time() returns a *per-thread* virtual time and whose sleep() parks the calling thread on its own
Event until the harness resumes exactly that thread with a chosen elapsed time k/1024 s.  A command
handler runs in its own thread, exactly as System._parse_commands starts it
(`Thread(target=axis._mode_command, args=(command, stop))`); the harness waits for the per-thread
acknowledgement ("I am parked in sleep" / "I have returned") before it does anything else, so at
every instant exactly one thread runs: one loop iteration = one atomic step, deterministically.
"""
import threading
import types
from fractions import Fraction

from vlib.core import zlit, zlist, optlit

META = dict(
    id='C15',
    title='Antenna axes stay in range, never outrun the commanded rate, stop on demand',
    design_ref='DESIGN.md section 7, C15',
    coq_target='Properties/C15.vo',
    coq_extra=['Corr/AaxCorr.vo'],
    technique='Coq proof (invariants over all event histories of an integer model of '
              'MasterAxisStatus kinematics: _calc_position, _move / _program_track iterations, mode '
              'handlers, update_status) + in-Coq differential correspondence with the real axis objects '
              'whose command threads are stepped on a per-thread virtual clock',
    level_text='Range, moves-only-if-active-and-unstowed, per-iteration rate bound, no overshoot, exact '
               'arrival with executed answer and zero velocity, supersession within one iteration and '
               'limit/rate warning bits are proved in Coq for every history of accepted commands, loop '
               'iterations (any elapsed time k/1024 s, any interleaving of iterations of different '
               'command threads), status updates and pointing feeds; the model is compared with the '
               'real objects after every event of seeded histories on every run. '
               'Partial: one loop iteration / one handler prelude is taken as atomic; the link between '
               'the float expression int(round(abs(rate)*dt)) and the integer displacement is exact on '
               'the dyadic grid dt = k/1024 s only (theorems hold for every displacement >= 0).',
    level_note='Trusted: Coq kernel + vm_compute; the harness (virtual clock, per-thread stepping, '
               'float->int conversion of command parameters with the same Python expression '
               'int(round(x*1000000))); CPython float multiplication being exact on the dyadic grid.',
    partial='iteration atomicity and the float link for non-dyadic dt are assumptions; supersession '
            '(positioning and tracking threads, over whole histories) is proved for commands whose counter '
            'differs from the running command\'s counter (a stop that reuses the counter does not stop: '
            'known finding same_counter); a second program_track keeps the first one\'s rate (known '
            'finding track_rate_stale)',
    rule='one case = one axis object + a history of 10..60 events (accepted mode commands, loop '
         'iterations of chosen command threads with chosen elapsed time, update_status, pointing feeds, '
         'offsets), observation compared after every event; non-trivial = distinct history in which the '
         'position changed at least once',
    trusted=['harness: per-thread virtual clock replacing simulators.acu.axis_status.time'],
    assumptions=['one loop iteration of _move/_program_track and the part of a handler before its loop '
                 'execute atomically (no preemption inside)',
                 'elapsed times are k/1024 s with 0 <= k < 2^20 (then abs(rate)*dt is exact in binary64); '
                 'for other dt the displacement is some integer d >= 0 and the theorems apply to d',
                 'time.time() is monotone (dt >= 0)',
                 'float(p_Ist)/1000000 in stow_pos  <->  p_Ist is one of int(round(s*1000000)) (true for '
                 'the shipped stow position 90.0)'],
)

WAIT = 60.0     # seconds; a harness wait that long means the harness is broken, never the code


# ---------------------------------------------------------------------------
# virtual clock and thread stepping

class Stop:
    value = False


class _Handle:
    def __init__(self):
        self.parked = threading.Event()
        self.go = threading.Event()
        self.dt = 0.0
        self.done = False
        self.exc = None
        self.th = None


class VClock:
    def __init__(self):
        self.loc = threading.local()

    def time(self):
        return getattr(self.loc, 't', 0.0)

    def sleep(self, _seconds):
        h = getattr(self.loc, 'handle', None)
        if h is None:           # not one of our threads: never block, never sleep
            return
        h.parked.set()
        if not h.go.wait(WAIT * 20):
            raise SystemExit
        h.go.clear()
        self.loc.t = self.time() + h.dt


_clock = None


def install_clock():
    """replace simulators.acu.axis_status.time (module attribute) by the virtual clock"""
    global _clock
    import simulators.acu.axis_status as AS
    if _clock is None or getattr(AS.time, 'vclock', None) is not _clock:
        _clock = VClock()
        AS.time = types.SimpleNamespace(time=_clock.time, sleep=_clock.sleep, vclock=_clock)
    return AS


def spawn(fn, *args):
    h = _Handle()

    def run():
        _clock.loc.handle = h
        _clock.loc.t = 0.0
        try:
            fn(*args)
        except BaseException as ex:   # noqa  (recorded, compared, reported)
            h.exc = ex
        finally:
            h.done = True
            h.parked.set()
    h.th = threading.Thread(target=run, daemon=True)
    h.th.start()
    if not h.parked.wait(WAIT):
        raise RuntimeError('harness: command thread neither parked nor returned')
    h.parked.clear()
    if h.done:
        h.th.join(WAIT)
    return h


def resume(h, k):
    if h.done:
        return
    h.dt = k / 1024.0
    h.go.set()
    if not h.parked.wait(WAIT):
        raise RuntimeError('harness: command thread neither parked nor returned')
    h.parked.clear()
    if h.done:
        h.th.join(WAIT)


def ir(x):
    return int(round(x))


# ---------------------------------------------------------------------------
# one real axis under harness control

class Rig:
    MODES = dict(inactive=1, active=2, abs=3, rel=4, slew=5, stop=7, track=8, interlock=14, reset=15,
                 stow=50, unstow=51, drive=52)

    def __init__(self, axis, axis_id=1):
        from simulators import utils
        self.U = utils
        self.a = axis
        self.axis_id = axis_id
        self.stop = Stop()
        self.handles = []          # one per accepted command, index = mover id
        self.lo = ir(axis.min_pos * 1000000)
        self.hi = ir(axis.max_pos * 1000000)
        self.vmax = ir(axis.max_velocity * 1000000)
        self.stows = [ir(s * 1000000) for s in (axis.stow_pos or [])]
        self.n_motors = len(axis.motor_status)
        self.p0 = axis.p_Ist
        self.exceptions = []

    def cfg_term(self):
        return '(mkCfg %s %s %s %s)' % (zlit(self.lo), zlit(self.hi), zlit(self.vmax), zlist(self.stows))

    # -- operations; each returns the Coq event term or None when the command was not accepted
    def frame(self, cnt, mode, p1, p2):
        U = self.U
        return (U.uint_to_string(1, 2) + U.uint_to_string(self.axis_id, 2) + U.uint_to_string(cnt, 4)
                + U.uint_to_string(mode, 2) + U.real_to_string(float(p1), 2) + U.real_to_string(float(p2), 2))

    def command(self, cnt, name, p1=0.0, p2=0.0):
        mode = self.MODES[name]
        a = self.a
        h = spawn(a._mode_command, self.frame(cnt, mode, p1, p2), self.stop)
        if h.exc is not None:
            self.exceptions.append((name, repr(h.exc)))
        if a.received_mode_command_answer != 9 or a.received_mode_command_counter != cnt:
            return None
        self.handles.append(h)
        if name == 'abs':
            t = 'CAbs %s %s' % (zlit(ir(p1 * 1000000)), zlit(ir(p2 * 1000000)))
        elif name == 'rel':
            t = 'CRel %s %s' % (zlit(ir(p1 * 1000000)), zlit(ir(p2 * 1000000)))
        elif name == 'slew':
            t = 'CSlew %s' % zlit(ir(p2 * 1000000 * p1))
        elif name == 'track':
            t = 'CTrack %s' % zlit(ir(p2 * 1000000))
        elif name == 'drive':
            t = 'CDriveStow %s %s' % (zlit(int(p1)), zlit(ir(p2 * 1000000)))
        else:
            t = dict(inactive='CInactive', active='CActive', stop='CStop', interlock='CInterlock',
                     reset='CReset', stow='CStow', unstow='CUnstow')[name]
        return 'ECmd %s (%s); ETick %d 0' % (zlit(cnt), t, len(self.handles) - 1)

    def tick(self, mid, k):
        if 0 <= mid < len(self.handles):
            h = self.handles[mid]
            resume(h, k)
            if h.exc is not None and not getattr(h, 'reported', False):
                h.reported = True
                self.exceptions.append(('tick', repr(h.exc)))
        return 'ETick %s %s' % (zlit(mid), zlit(k))

    def update(self):
        self.a.update_status()
        return 'EUpdate'

    def feed(self, nxt, pt, bahn):
        self.a.next_pos = nxt
        self.a.ptState = pt
        self.a.p_Bahn = bahn
        return 'EFeed %s %s %s' % (optlit(nxt), zlit(pt), zlit(bahn))

    def offset(self, cnt, relative, deg):
        U = self.U
        cmd = (U.uint_to_string(2, 2) + U.uint_to_string(self.axis_id, 2) + U.uint_to_string(cnt, 4)
               + U.uint_to_string(12 if relative else 11, 2) + U.real_to_string(float(deg), 2)
               + U.real_to_string(0.0, 2))
        try:
            self.a._parameter_command(cmd, self.stop)
        except Exception:       # the command thread dies (int32 overflow in the setter)
            pass
        return '%s %s' % ('EOffRel' if relative else 'EOffAbs', zlit(ir(deg * 1000000)))

    def live(self):
        return [i for i, h in enumerate(self.handles) if not h.done]

    def observe(self):
        a = self.a
        cur = a.curr_mode_counter
        br = a.brakes_open
        if br == [True] * self.n_motors + [False] * (16 - self.n_motors):
            b = 1
        elif br == [False] * 16:
            b = 0
        else:
            b = 2
        return [a.p_Ist, a.v_Ist, a.p_Soll, a.v_Soll, a.p_Bahn, a.p_Offset, a.axis_state,
                a.axis_trajectory_state, int(a.stowed), b, int(cur is not None), cur or 0,
                a.executed_mode_command_counter, a.executed_mode_command, a.executed_mode_command_answer,
                int(a.program_track_active), int(a.stowPosOk), int(a.Pre_Limit_Dn), int(a.Fin_Limit_Dn),
                int(a.Pre_Limit_Up), int(a.Fin_Limit_Up), int(a.Rate_Limit)] + self.live()

    def close(self):
        """let every parked thread leave its loop (stop.value) — nothing is observed afterwards"""
        self.stop.value = True
        for h in self.handles:
            resume(h, 0)


def system_config():
    """constructor arguments of AZ and EL as simulators.acu.System builds them"""
    import simulators.acu as A
    s = A.System()
    s.stop.value = True
    s.update_thread.join()
    out = []
    for ax_id, ax in ((1, s.AZ), (2, s.EL)):
        out.append(dict(axis_id=ax_id, n_motors=len(ax.motor_status),
                        max_rates=(ax.max_velocity, ax.max_acceleration),
                        op_range=(ax.min_pos, ax.max_pos), start_pos=ax.p_Ist / 1000000.0,
                        stow_pos=ax.stow_pos))
    return s, out


def make_axis(AS, conf, start=None):
    return AS.MasterAxisStatus(n_motors=conf['n_motors'], max_rates=conf['max_rates'],
                               op_range=conf['op_range'],
                               start_pos=conf['start_pos'] if start is None else start,
                               stow_pos=conf['stow_pos'])


EXTRA_CONFIGS = [
    dict(axis_id=1, n_motors=2, max_rates=(1.0, 0.5), op_range=(-2, 3), start_pos=0.5, stow_pos=None),
    dict(axis_id=2, n_motors=3, max_rates=(0.25, 0.1), op_range=(0, 1), start_pos=1, stow_pos=[1, 0.5]),
    dict(axis_id=1, n_motors=1, max_rates=(0.85, 0.4), op_range=(-0.001, 0.002), start_pos=0.0,
         stow_pos=None),
]


# ---------------------------------------------------------------------------
# seeded histories

class Script:
    """seeded history on one rig; records (event term, observation) for the correspondence and the
    concrete operations (JSON-able) for the oracle's witnesses.  mode 'soup': anything goes;
    mode 'drive': keeps the newest positioning thread running until it arrives (so that arrivals,
    interruptions in mid-motion and relative presets after an interrupted motion are frequent)."""

    def __init__(self, rng, rig, monitor=None, mode='soup'):
        self.rng = rng
        self.r = rig
        self.mon = monitor
        self.mode = mode
        self.cnt = rng.randrange(1, 1000)
        self.used = []
        self.hist = []
        self.ops = []
        self.moved = False
        self.kinds = []

    def next_counter(self):
        rng = self.rng
        if self.used and rng.random() < 0.04:
            return rng.choice(self.used)          # reused counter (model follows the code there too)
        self.cnt += rng.choice([1, 1, 1, 2, 7, 1000])
        self.used.append(self.cnt)
        return self.cnt

    def do(self, op):
        """execute one concrete operation on the rig (through the monitor when there is one)"""
        self.ops.append(op)
        term = apply_op(self.r, op, self.mon)
        if term is None:
            return
        before = self.hist[-1][1][0] if self.hist else self.r.p0
        o = self.r.observe()
        if o[0] != before:
            self.moved = True
        self.hist.append((term, o))

    def rate(self, vmax_deg, allow_over=True):
        rng = self.rng
        x = rng.random()
        if x < 0.55:
            r = rng.uniform(0.05, 1.0) * vmax_deg
        elif x < 0.7:
            r = vmax_deg
        elif x < 0.8:
            r = -rng.uniform(0.05, 1.0) * vmax_deg
        elif x < 0.85:
            r = 0.0
        elif x < 0.93:
            r = round(rng.uniform(0.01, 1.0) * vmax_deg, rng.choice([1, 2, 3, 6]))
        else:
            r = vmax_deg * (rng.choice([1.000001, 1.5, 2.0]) if allow_over else 1.0)
        return r

    def pos(self):
        rng, r = self.rng, self.r
        lo, hi = r.a.min_pos, r.a.max_pos
        p = r.a.p_Ist / 1000000.0
        x = rng.random()
        if x < 0.35:
            return min(hi, max(lo, p + rng.uniform(-1, 1) * rng.choice([0.001, 0.05, 1.0, 5.0])))
        if x < 0.6:
            return rng.uniform(lo, hi)
        if x < 0.7:
            return rng.choice([lo, hi])
        if x < 0.8:
            return round(rng.uniform(lo, hi), rng.choice([0, 1, 3, 6]))
        if x < 0.9:
            return p
        return rng.choice([lo - 0.000001, hi + 0.000001, lo - 1, hi + 5])    # refused by validation

    def tick_size(self):
        rng = self.rng
        return rng.choice([0, 1, 2, 10, 33, 100, 256, 512, 1024, 1024, 3000, 10240, 65536,
                           rng.randrange(0, 5000), rng.randrange(0, 1 << 19)])

    def step(self):
        rng, r = self.rng, self.r
        a = r.a
        vdeg = a.max_velocity
        live = r.live()
        x = rng.random()
        if a.axis_state != 3 and x < 0.6:
            kind = 'tick' if live and rng.random() < 0.5 else 'active'
        elif a.stowed and x < 0.4:
            kind = 'tick' if live and rng.random() < 0.5 else 'unstow'
        elif live and x < (0.8 if self.mode == 'drive' else 0.6):
            kind = 'tick'
        else:
            kind = rng.choice(
                ['update'] * 6 + ['feed'] * 8 + ['offset'] * 3 + ['abs'] * 14 + ['rel'] * 12 + ['slew'] * 7
                + ['stop'] * 6 + ['track'] * 10 + ['drive'] * 5 + ['stow'] * 3 + ['unstow'] * 3
                + ['inactive'] * 3 + ['active'] * 2 + ['interlock', 'reset'] + ['tick'] * 3)
        self.kinds.append(kind)
        if kind == 'tick':
            ids = live or [0]
            if self.mode == 'drive' and live:
                mid = live[-1] if rng.random() < 0.8 else rng.choice(live)
                k = rng.choice([256, 1024, 4096, 65536, 1 << 18, self.tick_size()])
            else:
                mid = rng.choice(ids) if rng.random() < 0.93 else rng.randrange(0, max(1, len(r.handles) + 1))
                k = self.tick_size()
            self.do(['tick', mid, k])
        elif kind == 'update':
            self.do(['update'])
        elif kind == 'feed':
            p = a.p_Ist
            nxt = rng.choice([None, 0, p, p + rng.randrange(-2000000, 2000000), rng.randrange(r.lo, r.hi + 1),
                              r.hi + rng.randrange(-3, 4), r.lo + rng.randrange(-3, 4)])
            bahn = rng.choice([p, p + rng.randrange(-1500000, 1500000), rng.randrange(r.lo - 5, r.hi + 6)])
            self.do(['feed', nxt, rng.choice([0, 2, 2, 3, 3, 4]), bahn])
        elif kind == 'offset':
            deg = rng.choice([0.0, 0.001, -0.25, 1.5, rng.uniform(-3, 3), 3000.0])
            self.do(['offset', self.next_counter(), rng.random() < 0.5, deg])
        elif kind == 'abs':
            self.do(['cmd', self.next_counter(), 'abs', self.pos(), self.rate(vdeg)])
        elif kind == 'rel':
            tgt = self.pos()
            self.do(['cmd', self.next_counter(), 'rel', tgt - a.p_Ist / 1000000.0,
                     self.rate(vdeg, allow_over=False)])
        elif kind == 'slew':
            pct = rng.choice([1.0, -1.0, 0.5, -0.3, 0.0, rng.uniform(-1, 1), 1.5])
            self.do(['cmd', self.next_counter(), 'slew', pct, self.rate(vdeg)])
        elif kind == 'track':
            self.do(['cmd', self.next_counter(), 'track', 0.0, self.rate(vdeg)])
        elif kind == 'drive':
            idx = rng.choice([0, 0, 0, 1, 0.7, 5]) if r.stows else rng.choice([0, 3])
            self.do(['cmd', self.next_counter(), 'drive', idx, self.rate(vdeg * 0.5)])
        else:
            self.do(['cmd', self.next_counter(), kind, 0.0, 0.0])

    def run(self, n):
        try:
            for _ in range(n):
                self.step()
                if self.mon is not None and self.mon.failures:
                    break
        finally:
            self.r.close()


def apply_op(rig, op, mon=None):
    """one concrete operation ['cmd', cnt, name, p1, p2] | ['tick', id, k] | ['update'] |
    ['feed', next, ptState, p_Bahn] | ['offset', cnt, relative, deg]; returns the model event term"""
    if mon is not None:
        mon.before(op)
    kind = op[0]
    if kind == 'cmd':
        term = rig.command(op[1], op[2], op[3], op[4])
    elif kind == 'tick':
        term = rig.tick(op[1], op[2])
    elif kind == 'update':
        term = rig.update()
    elif kind == 'feed':
        term = rig.feed(op[1], op[2], op[3])
    elif kind == 'offset':
        term = rig.offset(op[1], op[2], op[3])
    else:
        raise ValueError(op)
    if mon is not None:
        mon.after(op, term is not None)
    return term


def case_term(rig, o0, hist):
    return '(%s, %s, %s, [%s])' % (
        rig.cfg_term(), zlit(rig.p0), zlist(o0),
        ';\n  '.join('([%s], %s)' % (t, zlist(o)) for t, o in hist))


def correspondence(ctx):
    AS = install_clock()
    system, confs = system_config()
    rng = ctx.rng
    cases = []
    ncase = ctx.n(120, 2500)
    exceptions = []
    for i in range(ncase):
        if i == 0:
            axis, conf = system.AZ, confs[0]
        elif i == 1:
            axis, conf = system.EL, confs[1]
        else:
            conf = confs[i % 2] if rng.random() < 0.6 else rng.choice(EXTRA_CONFIGS)
            lo, hi = conf['op_range']
            start = None
            if rng.random() < 0.5:
                start = rng.choice([lo, hi, round(rng.uniform(lo, hi), 3)] + list(conf['stow_pos'] or []))
            axis = make_axis(AS, conf, start)
        axis.update_status()           # System.__init__ runs the subsystem updates once
        rig = Rig(axis, conf['axis_id'])
        sc = Script(rng, rig)
        o0 = rig.observe()
        sc.run(rng.choice([10, 20, 40, 60]))
        cases.append(case_term(rig, o0, sc.hist))
        for k in sc.kinds:
            ctx.count(k)
        ctx.count('events', len(sc.hist))
        if sc.moved:
            ctx.nontriv(('hist', cases[-1]))
        exceptions += rig.exceptions
    ctx.sample(cases[0][:600])
    if exceptions:
        ctx.note('command threads that raised: %d (first: %s)' % (len(exceptions), exceptions[0]))
    ctx.run_cases('axis', 'From DS Require Import Model.AaxModel Corr.AaxCorr.', 'aax_case', 'ok', cases,
                  show='show', shard=ctx.n(8, 40))


# ---------------------------------------------------------------------------
# property-level oracle on the implementation: the theorem statements transcribed to Python, checked
# by a monitor that watches every operation applied to the real axis object

def half_even(fr):
    return int(round(fr))        # Fraction.__round__ is round-half-even, like round(float)


class Monitor:
    MOVE = ('abs', 'rel', 'slew', 'drive')
    HARD = ('stop', 'abs', 'rel', 'slew', 'drive')      # leave the trajectory state != tracking

    def __init__(self, rig):
        self.r = rig
        self.m = {}             # mover id -> dict
        self.failures = []      # (klass, what, detail)
        self.pre = None
        self.nexc = 0
        self.stats = {}
        self.uses = {}          # counter -> number of accepted superseding commands that carried it

    def stat(self, k):
        self.stats[k] = self.stats.get(k, 0) + 1

    def bad(self, klass, what, **detail):
        self.failures.append((klass, what, detail))

    def sup_class(self):
        """a motion that survives a stop / newer command: known finding when the counter that is current
        in the implementation was carried by more than one command (counter reuse), else a violation"""
        return 'same_counter' if self.uses.get(self.r.a.curr_mode_counter, 0) > 1 else 'supersession'

    def snap(self):
        a = self.r.a
        return dict(p=a.p_Ist, v=a.v_Ist, active=a.axis_state == 3, stowed=bool(a.stowed), pt=a.ptState,
                    pta=bool(a.program_track_active), live=set(self.r.live()),
                    ex=(a.executed_mode_command_counter, a.executed_mode_command,
                        a.executed_mode_command_answer))

    def before(self, op):
        self.pre = self.snap()

    def after(self, op, accepted):
        r, a, pre = self.r, self.r.a, self.pre
        post = self.snap()
        for name, exc in r.exceptions[self.nexc:]:
            if 'ZeroDivisionError' in exc:
                self.bad('track_zero_dt', 'program_track thread died dividing by a zero elapsed time', exc=exc)
            else:
                self.bad('thread_exception', 'a command thread raised', exc=exc, at=name)
        self.nexc = len(r.exceptions)
        if not r.lo <= post['p'] <= r.hi:
            self.bad('range', 'encoder position outside the operating range', p=post['p'], lo=r.lo, hi=r.hi)
        kind = op[0]
        if kind == 'tick':
            self.after_tick(op[1], op[2], pre, post)
            return
        if post['p'] != pre['p']:
            self.bad('moved_without_iteration', 'position changed by an operation that is not a loop iteration',
                     op=op)
        if kind != 'cmd' and post['ex'] != pre['ex']:
            self.bad('executed_triple_wrong', 'executed-command triple changed by an operation that is neither a '
                     'command nor a loop iteration', op=op, before=list(pre['ex']), after=list(post['ex']))
        if kind == 'update':
            p, v = post['p'], post['v']
            got = [int(a.Pre_Limit_Dn), int(a.Fin_Limit_Dn), int(a.Pre_Limit_Up), int(a.Fin_Limit_Up),
                   int(a.Rate_Limit)]
            want = [int(p == r.lo), 0, int(p == r.hi), 0, int(abs(v) > r.vmax)]
            if got != want:
                self.bad('bits', 'limit / rate warning bits disagree with position / velocity',
                         p=p, v=v, got=got, want=want)
            if abs(v) > r.vmax:
                self.bad('velocity', 'reported velocity exceeds the axis maximum', v=v)
            self.stat('update')
        elif kind == 'cmd':
            if not accepted:
                if post != pre:
                    self.bad('refused_changed_state', 'a refused command changed the motion state', op=op)
                return
            self.after_cmd(op, pre, post)

    def after_cmd(self, op, pre, post):
        r, a = self.r, self.r.a
        _, cnt, name, p1, p2 = op
        mid = len(r.handles) - 1
        if post['ex'][:2] != (cnt, Rig.MODES[name]) or post['ex'][2] not in (1, 2):
            self.bad('executed_triple_wrong', 'after an accepted command the executed triple does not name it',
                     op=op, executed=list(post['ex']))
        has_stow = bool(r.stows)
        superseding = name in ('stop', 'abs', 'rel', 'slew', 'track') or \
            (has_stow and name in ('stow', 'unstow', 'drive'))
        hard = name in ('stop', 'abs', 'rel', 'slew') or (has_stow and name == 'drive')
        if superseding:
            self.uses[cnt] = self.uses.get(cnt, 0) + 1
            for m in self.m.values():
                if m['kind'] in self.MOVE or hard:
                    m['superseded'] = True
        if name == 'track':
            live_tracks = [m for i, m in self.m.items() if m['kind'] == 'track' and i in pre['live']]
            if pre['pta'] and live_tracks:
                for m in live_tracks:
                    m['newest_rate'] = abs(ir(p2 * 1000000))
                    if not m.get('superseded'):
                        m['cnt'] = cnt
            else:
                self.m[mid] = dict(kind='track', cnt=cnt, rate=abs(ir(p2 * 1000000)),
                                   newest_rate=abs(ir(p2 * 1000000)))
                self.stat('cmd_track')
                self.after_tick(mid, 0, pre, post, first=True)
        elif name in self.MOVE and (name != 'drive' or has_stow):
            rate = ir(p2 * 1000000 * p1) if name == 'slew' else ir(p2 * 1000000)
            if name == 'abs':
                tgt = ir(p1 * 1000000)
            elif name == 'rel':
                tgt = pre['p'] + ir(p1 * 1000000)      # relative to the position validation looked at
            elif name == 'slew':
                tgt = r.hi if rate > 0 else r.lo if rate < 0 else pre['p']
            else:
                tgt = r.stows[int(p1)]
            m = dict(kind=name, cnt=cnt, mode=Rig.MODES[name], tgt=tgt, rate=rate)
            self.m[mid] = m
            if not r.lo <= tgt <= r.hi:
                self.bad('target_out_of_range', 'accepted positioning command has its target outside the range',
                         op=op, target=tgt)
            elif a.p_Soll != tgt:
                self.bad('rel_target' if name == 'rel' else 'target',
                         'commanded position p_Soll is not the target the command was validated for',
                         op=op, p_Soll=a.p_Soll, expected=tgt, p_Ist=pre['p'])
            self.stat('cmd_' + name)
            # the handler has already run its first loop iteration (elapsed time 0)
            self.after_tick(mid, 0, pre, post, first=True)

    def after_tick(self, mid, k, pre, post, first=False):
        r, a = self.r, self.r.a
        m = self.m.get(mid)
        dp = post['p'] - pre['p']
        if m is None or not (first or mid in pre['live']):
            if dp != 0 or post['v'] != pre['v']:
                self.bad('moved_without_iteration', 'position / velocity changed though no such thread is alive',
                         id=mid)
            return
        if dp != 0 and not (pre['active'] and not pre['stowed']):
            self.bad('moved_while_gated', 'position changed while the axis was inactive or stowed',
                     dp=dp, active=pre['active'], stowed=pre['stowed'])
        done = mid not in post['live']
        if post['ex'] != pre['ex'] and not first:
            own = m['kind'] in self.MOVE and not m.get('superseded') and done and \
                post['ex'] == (m['cnt'], m['mode'], 1)
            if not own:
                if m.get('superseded') or m['kind'] == 'track':
                    klass = self.sup_class() if m.get('superseded') else 'executed_triple_overwritten'
                    if klass == 'supersession':
                        klass = 'executed_triple_overwritten'
                    self.bad(klass, 'a command thread that had been superseded by a newer command (or the '
                             'tracking thread) overwrote the executed-command triple when it woke up',
                             id=mid, thread_counter=m['cnt'], before=list(pre['ex']), after=list(post['ex']))
                else:
                    self.bad('executed_triple_wrong', 'executed-command triple written with a wrong value',
                             id=mid, before=list(pre['ex']), after=list(post['ex']))
        kfr = Fraction(k, 1024)
        if m['kind'] == 'track':
            if m.get('superseded'):
                if not (done and dp == 0 and post['v'] == 0 and not post['pta']):
                    self.bad(self.sup_class(), 'tracking not ended within one iteration after a stop / newer motion command',
                             id=mid, done=done, dp=dp, v=post['v'])
                self.stat('track_superseded')
                return
            if pre['pt'] == 2:
                if abs(dp) > m['newest_rate'] * kfr + 1:
                    if abs(dp) <= m['rate'] * kfr + 1:
                        self.bad('track_rate_stale', 'axis outruns the rate of the newest program_track command '
                                 '(the thread keeps the first command\'s rate)', dp=dp, k=k,
                                 newest=m['newest_rate'], first=m['rate'])
                    else:
                        self.bad('rate', 'axis outruns the commanded rate while positioning on a track',
                                 dp=dp, k=k, rate=m['rate'])
            elif abs(dp) > r.vmax * kfr + 1:
                self.bad('rate', 'axis outruns its maximum rate while tracking', dp=dp, k=k, vmax=r.vmax)
            if abs(post['v']) > r.vmax:
                self.bad('velocity', 'reported velocity exceeds the axis maximum', v=post['v'])
            if dp:
                self.stat('track_moved_pt%d' % pre['pt'])
            return
        # positioning thread
        R = abs(m['rate'])
        if abs(dp) > R * kfr + 1:
            self.bad('rate', 'axis outruns the commanded rate', dp=dp, k=k, rate=m['rate'])
        tgt = m['tgt']
        d0, d1 = abs(tgt - pre['p']), abs(tgt - post['p'])
        if d1 > d0:
            self.bad('overshoot', 'axis moved away from / beyond its target', before=d0, after=d1)
        if m.get('superseded'):
            if not (done and dp == 0 and post['v'] == 0):
                self.bad(self.sup_class(), 'motion not ended within one iteration after a stop / newer motion command',
                         id=mid, done=done, dp=dp, v=post['v'], counter=m['cnt'])
            self.stat('superseded')
            return
        if not r.lo <= tgt <= r.hi:
            return
        if pre['active'] and not pre['stowed']:
            d = half_even(R * kfr)
            if d1 != max(0, d0 - d):
                self.bad('progress', 'remaining distance did not shrink by the displacement of the iteration',
                         before=d0, after=d1, displacement=d)
            if d1 == 0:
                ex = (a.executed_mode_command_counter, a.executed_mode_command, a.executed_mode_command_answer)
                if not (done and post['v'] == 0 and ex == (m['cnt'], m['mode'], 1)
                        and (m['kind'] != 'drive' or a.stowed)):
                    self.bad('arrival', 'target reached but not reported executed with zero velocity',
                             done=done, v=post['v'], executed=list(ex), want=[m['cnt'], m['mode'], 1])
                self.stat('arrived')
            else:
                if done or post['v'] != m['rate']:
                    self.bad('arrival', 'thread ended / wrong velocity before the target was reached',
                             done=done, v=post['v'], remaining=d1)
                self.stat('moved' if dp else 'idle')
        else:
            if dp != 0 or post['v'] != 0:
                self.bad('moved_while_gated', 'inactive / stowed axis moved or reports a velocity',
                         dp=dp, v=post['v'])
            self.stat('gated')


def run_ops(AS, conf, start, ops):
    """replay a concrete operation list on a fresh axis under the monitor; returns the failures"""
    axis = make_axis(AS, conf, start)
    axis.update_status()
    rig = Rig(axis, conf['axis_id'])
    mon = Monitor(rig)
    try:
        for op in ops:
            apply_op(rig, op, mon)
            if mon.failures:
                break
    finally:
        rig.close()
    return mon


# ---------------------------------------------------------------------------
# integration: the same operations entering through System.parse (framing, _parse_commands, _get_method,
# Thread(target=method, args=(command, self.stop)))

class HarnessThread:
    """stands in for threading.Thread inside simulators.acu: start() runs the target under the harness
    until it parks in the virtual sleep or returns; the status-update loop is never started (the harness
    calls the subsystem updates itself)"""
    registry = []

    def __init__(self, target=None, args=(), **_kw):
        self.target, self.args = target, args
        self.daemon = True
        self.h = None

    def start(self):
        if getattr(self.target, '__name__', '') == '_update_loop':
            return
        self.h = spawn(self.target, *self.args)
        HarnessThread.registry.append(self.h)

    def is_alive(self):
        return self.h is not None and not self.h.done

    def join(self, timeout=None):
        while self.h is not None and not self.h.done:
            resume(self.h, 0)


class SystemRig(Rig):
    def __init__(self, system, name):
        Rig.__init__(self, getattr(system, name), dict(AZ=1, EL=2)[name])
        self.system = system
        self.stop = system.stop
        self.msg_counter = 100

    def command(self, cnt, name, p1=0.0, p2=0.0):
        import simulators.acu as A
        U = self.U
        body = self.frame(cnt, self.MODES[name], p1, p2)
        self.msg_counter += 1
        msg = (A.start_flag + U.uint_to_string(16 + len(body) + 4, 4) + U.uint_to_string(self.msg_counter, 4)
               + U.int_to_string(1, 4) + body + A.end_flag)
        n0 = len(HarnessThread.registry)
        for ch in msg:
            self.system.parse(ch)
        new = HarnessThread.registry[n0:]
        a = self.a
        if len(new) != 1 or a.received_mode_command_answer != 9 or a.received_mode_command_counter != cnt:
            return None
        self.handles.append(new[0])
        if new[0].exc is not None:
            self.exceptions.append((name, repr(new[0].exc)))
        return 'accepted'


def integration(ctx, report):
    import simulators.acu as A
    real_thread = A.Thread
    A.Thread = HarnessThread
    HarnessThread.registry = []
    n = 0
    try:
        system = A.System()
        scenarios = [
            ('AZ', [['cmd', 1, 'active', 0.0, 0.0], ['cmd', 2, 'abs', 181.0, 0.5], ['tick', 1, 1024],
                    ['cmd', 3, 'rel', -0.25, 0.85], ['tick', 1, 256], ['tick', 2, 256], ['tick', 2, 1024], ['update'],
                    ['cmd', 4, 'slew', -1.0, 0.85], ['tick', 3, 2048], ['cmd', 5, 'stop', 0.0, 0.0],
                    ['tick', 3, 256], ['update']]),
            ('EL', [['cmd', 1, 'unstow', 0.0, 0.0], ['cmd', 2, 'active', 0.0, 0.0], ['cmd', 3, 'abs', 88.0, 0.5],
                    ['tick', 2, 2048], ['tick', 2, 4096], ['update'], ['cmd', 4, 'drive', 0.0, 0.25],
                    ['tick', 3, 4096], ['tick', 3, 8192], ['update']]),
        ]
        for name, ops in scenarios:
            rig = SystemRig(system, name)
            mon = Monitor(rig)
            for op in ops:
                t = apply_op(rig, op, mon)
                n += 1
                if op[0] == 'cmd' and t is None:
                    mon.bad('integration_not_accepted',
                            'a valid command sent through System.parse was not executed on its axis', op=op)
                if mon.failures:
                    break
            other = system.EL if name == 'AZ' else system.AZ
            if name == 'AZ' and (other.p_Ist != 90000000 or other.axis_state != 0):
                mon.bad('integration_wrong_axis', 'a command for one axis changed the other', axis=name)
            report(mon, dict(system=name), None, ops, 'integration:' + name)
        system.stop.value = True
        for h in HarnessThread.registry:
            resume(h, 0)
    finally:
        A.Thread = real_thread
    return n


def corpus(confs):
    """directed regression histories (each caught a defect or a seeded mutant once)"""
    az, el = confs[0], confs[1]
    act = ['cmd', 1, 'active', 0.0, 0.0]
    return [
        # relative preset after an interrupted preset: validation and execution must agree (fixes/15a)
        ('rel_after_interrupted_abs', az, None,
         [act, ['cmd', 2, 'abs', 440.0, 0.85], ['tick', 1, 10240], ['cmd', 3, 'stop', 0.0, 0.0], ['tick', 1, 10],
          ['cmd', 4, 'rel', 20.0, 0.5], ['tick', 3, 1024], ['tick', 3, 65536], ['update']]),
        ('rel_after_interrupted_slew', az, None,
         [act, ['cmd', 2, 'slew', -1.0, 0.5], ['tick', 1, 2048], ['cmd', 3, 'rel', -1.0, 0.25],
          ['tick', 1, 5], ['tick', 2, 1024], ['tick', 2, 4096]]),
        # program_track received while the pointing subsystem is already tracking (fixes/15b)
        ('track_first_iteration_pt3', az, None,
         [act, ['feed', 185000000, 3, 181000000], ['cmd', 2, 'track', 0.0, 0.5], ['tick', 1, 1024],
          ['cmd', 3, 'stop', 0.0, 0.0], ['tick', 1, 100]]),
        # known findings
        ('stop_with_same_counter', az, None,
         [act, ['cmd', 5, 'abs', 181.0, 0.5], ['tick', 1, 256], ['cmd', 5, 'stop', 0.0, 0.0], ['tick', 1, 256]]),
        ('second_program_track_lower_rate', az, None,
         [act, ['cmd', 2, 'track', 0.0, 0.5], ['feed', 185000000, 2, 185000000],
          ['cmd', 3, 'track', 0.0, 0.1], ['tick', 1, 1024]]),
        # plain arrivals at the limits, drive to stow, supersession by a newer preset
        ('slew_to_upper_limit', el, 89.5,
         [['cmd', 1, 'unstow', 0.0, 0.0], ['cmd', 2, 'active', 0.0, 0.0], ['cmd', 3, 'slew', 1.0, 0.5],
          ['tick', 2, 512], ['tick', 2, 1024], ['update'], ['cmd', 4, 'slew', -1.0, 0.25], ['tick', 3, 1 << 19],
          ['update']]),
        ('drive_to_stow', el, 45.0,
         [['cmd', 2, 'active', 0.0, 0.0], ['cmd', 3, 'drive', 0.0, 0.25], ['tick', 1, 1 << 17], ['tick', 1, 1 << 17],
          ['update'], ['cmd', 4, 'abs', 50.0, 0.1], ['tick', 2, 1024]]),
        ('deactivated_in_mid_motion', az, None,
         [act, ['cmd', 2, 'abs', 182.0, 0.5], ['tick', 1, 1024], ['cmd', 3, 'inactive', 0.0, 0.0], ['tick', 1, 1024],
          ['tick', 1, 512], ['cmd', 4, 'active', 0.0, 0.0], ['tick', 1, 1024], ['tick', 1, 4096]]),
        ('stowed_in_mid_motion', el, 89.0,
         [['cmd', 2, 'active', 0.0, 0.0], ['cmd', 3, 'drive', 0.0, 0.25], ['tick', 1, 1024],
          ['cmd', 4, 'abs', 80.0, 0.5], ['tick', 1, 1], ['tick', 2, 1024], ['cmd', 5, 'inactive', 0.0, 0.0],
          ['tick', 2, 1024], ['update']]),
        ('newer_preset_supersedes', az, None,
         [act, ['cmd', 2, 'abs', 200.0, 0.85], ['tick', 1, 4096], ['cmd', 3, 'abs', 170.0, 0.3],
          ['tick', 2, 1024], ['tick', 1, 1024], ['tick', 2, 1 << 17]]),
    ]


def oracle(ctx):
    AS = install_clock()
    system, confs = system_config()
    rng = ctx.rng
    stats = {}
    checked = 0

    def report(mon, conf, start, ops, origin):
        for klass, what, detail in mon.failures[:1]:
            ctx.fail(klass, what, dict(origin=origin, conf=conf, start=start, ops=ops, detail=detail))

    def absorb(mon):
        for k, v in mon.stats.items():
            stats[k] = stats.get(k, 0) + v

    for name, conf, start, ops in corpus(confs):
        mon = run_ops(AS, conf, start, ops)
        absorb(mon)
        checked += len(ops)
        report(mon, conf, start, ops, 'corpus:' + name)
    for i in range(ctx.n(150, 3000)):
        conf = confs[i % 2] if rng.random() < 0.7 else rng.choice(EXTRA_CONFIGS)
        lo, hi = conf['op_range']
        start = None
        if rng.random() < 0.5:
            start = rng.choice([lo, hi, round(rng.uniform(lo, hi), 3)] + list(conf['stow_pos'] or []))
        axis = make_axis(AS, conf, start)
        axis.update_status()
        rig = Rig(axis, conf['axis_id'])
        mon = Monitor(rig)
        sc = Script(rng, rig, monitor=mon, mode='drive' if rng.random() < 0.7 else 'soup')
        sc.run(rng.choice([15, 30, 60]))
        absorb(mon)
        checked += len(sc.ops)
        report(mon, conf, start, sc.ops, 'seeded')
    checked += integration(ctx, report)
    ctx.oracle_stats = dict(operations=checked, **stats)
    ctx.evaluations += checked


def replay(ctx, obj):
    """re-execute the recorded operation list; True when the recorded class still fails"""
    AS = install_clock()
    w = obj['witness']
    if 'system' in w['conf']:
        hits = []
        integration(ctx, lambda mon, *_a: hits.extend(mon.failures))
        return any(f[0] == obj.get('klass') for f in hits)
    mon = run_ops(AS, w['conf'], w['start'], w['ops'])
    return any(f[0] == obj.get('klass') for f in mon.failures)
