"""C15 — antenna axes stay in range, never outrun the commanded rate, stop on demand.

Correspondence of coq/Model/AaxModel.v with the real simulators.acu.axis_status.MasterAxisStatus
objects (as constructed by simulators.acu.System, plus objects built with other constructor
arguments), and the property-level oracle on the implementation.

How the real command threads are driven (no real sleeping, no wall clock, no flaking):
the attribute `time` of the module simulators.acu.axis_status is replaced by a namespace whose
time() returns a *per-thread* virtual time and whose sleep() parks the calling thread on its own
Event until the harness resumes exactly that thread with a chosen elapsed time k/1024 s.  A command
handler runs in its own thread, exactly as System._parse_commands starts it
(`Thread(target=axis._mode_command, args=(command, stop))`); the harness waits for the per-thread
acknowledgement ("I am parked in sleep" / "I have returned") before it does anything else, so at
every instant exactly one thread runs: one loop iteration = one atomic step, deterministically.
"""
import threading
import types
from fractions import Fraction

from vlib.core import zlit, zlist, optlit

META = dict(
    id='C15',
    title='Antenna axes stay in range, never outrun the commanded rate, stop on demand',
    design_ref='DESIGN.md section 7, C15',
    coq_target='Properties/C15.vo',
    coq_extra=['Corr/AaxCorr.vo'],
    technique='Coq proof (invariants over all event histories of an integer model of '
              'MasterAxisStatus kinematics: _calc_position, _move / _program_track iterations, mode '
              'handlers, update_status) + in-Coq differential correspondence with the real axis objects '
              'whose command threads are stepped on a per-thread virtual clock',
    level_text='Range, moves-only-if-active-and-unstowed, per-iteration rate bound, no overshoot, exact '
               'arrival with executed answer and zero velocity, supersession within one iteration and '
               'limit/rate warning bits are proved in Coq for every history of accepted commands, loop '
               'iterations (any elapsed time k/1024 s, any interleaving of iterations of different '
               'command threads), status updates and pointing feeds; the model is compared with the '
               'real objects after every event of seeded histories on every run. '
               'Partial: one loop iteration / one handler prelude is taken as atomic; the link between '
               'the float expression int(round(abs(rate)*dt)) and the integer displacement is exact on '
               'the dyadic grid dt = k/1024 s only (theorems hold for every displacement >= 0).',
    level_note='Trusted: Coq kernel + vm_compute; the harness (virtual clock, per-thread stepping, '
               'float->int conversion of command parameters with the same Python expression '
               'int(round(x*1000000))); CPython float multiplication being exact on the dyadic grid.',
    partial='iteration atomicity and the float link for non-dyadic dt are assumptions; supersession is '
            'proved for commands whose counter differs from the running command\'s counter (a stop that '
            'reuses the counter does not stop: known finding same_counter); a second program_track '
            'keeps the first one\'s rate (known finding track_rate_stale)',
    rule='one case = one axis object + a history of 10..60 events (accepted mode commands, loop '
         'iterations of chosen command threads with chosen elapsed time, update_status, pointing feeds, '
         'offsets), observation compared after every event; non-trivial = distinct history in which the '
         'position changed at least once',
    trusted=['harness: per-thread virtual clock replacing simulators.acu.axis_status.time'],
    assumptions=['one loop iteration of _move/_program_track and the part of a handler before its loop '
                 'execute atomically (no preemption inside)',
                 'elapsed times are k/1024 s with 0 <= k < 2^20 (then abs(rate)*dt is exact in binary64); '
                 'for other dt the displacement is some integer d >= 0 and the theorems apply to d',
                 'time.time() is monotone (dt >= 0)',
                 'float(p_Ist)/1000000 in stow_pos  <->  p_Ist is one of int(round(s*1000000)) (true for '
                 'the shipped stow position 90.0)'],
)

WAIT = 60.0     # seconds; a harness wait that long means the harness is broken, never the code


# ---------------------------------------------------------------------------
# virtual clock and thread stepping

class Stop:
    value = False


class _Handle:
    def __init__(self):
        self.parked = threading.Event()
        self.go = threading.Event()
        self.dt = 0.0
        self.done = False
        self.exc = None
        self.th = None


class VClock:
    def __init__(self):
        self.loc = threading.local()

    def time(self):
        return getattr(self.loc, 't', 0.0)

    def sleep(self, _seconds):
        h = getattr(self.loc, 'handle', None)
        if h is None:           # not one of our threads: never block, never sleep
            return
        h.parked.set()
        if not h.go.wait(WAIT * 20):
            raise SystemExit
        h.go.clear()
        self.loc.t = self.time() + h.dt


_clock = None


def install_clock():
    """replace simulators.acu.axis_status.time (module attribute) by the virtual clock"""
    global _clock
    import simulators.acu.axis_status as AS
    if _clock is None or getattr(AS.time, 'vclock', None) is not _clock:
        _clock = VClock()
        AS.time = types.SimpleNamespace(time=_clock.time, sleep=_clock.sleep, vclock=_clock)
    return AS


def spawn(fn, *args):
    h = _Handle()

    def run():
        _clock.loc.handle = h
        _clock.loc.t = 0.0
        try:
            fn(*args)
        except BaseException as ex:   # noqa  (recorded, compared, reported)
            h.exc = ex
        finally:
            h.done = True
            h.parked.set()
    h.th = threading.Thread(target=run, daemon=True)
    h.th.start()
    if not h.parked.wait(WAIT):
        raise RuntimeError('harness: command thread neither parked nor returned')
    h.parked.clear()
    if h.done:
        h.th.join(WAIT)
    return h


def resume(h, k):
    if h.done:
        return
    h.dt = k / 1024.0
    h.go.set()
    if not h.parked.wait(WAIT):
        raise RuntimeError('harness: command thread neither parked nor returned')
    h.parked.clear()
    if h.done:
        h.th.join(WAIT)


def ir(x):
    return int(round(x))


# ---------------------------------------------------------------------------
# one real axis under harness control

class Rig:
    MODES = dict(inactive=1, active=2, abs=3, rel=4, slew=5, stop=7, track=8, interlock=14, reset=15,
                 stow=50, unstow=51, drive=52)

    def __init__(self, axis, axis_id=1):
        from simulators import utils
        self.U = utils
        self.a = axis
        self.axis_id = axis_id
        self.stop = Stop()
        self.handles = []          # one per accepted command, index = mover id
        self.lo = ir(axis.min_pos * 1000000)
        self.hi = ir(axis.max_pos * 1000000)
        self.vmax = ir(axis.max_velocity * 1000000)
        self.stows = [ir(s * 1000000) for s in (axis.stow_pos or [])]
        self.n_motors = len(axis.motor_status)
        self.p0 = axis.p_Ist
        self.exceptions = []

    def cfg_term(self):
        return '(mkCfg %s %s %s %s)' % (zlit(self.lo), zlit(self.hi), zlit(self.vmax), zlist(self.stows))

    # -- operations; each returns the Coq event term or None when the command was not accepted
    def frame(self, cnt, mode, p1, p2):
        U = self.U
        return (U.uint_to_string(1, 2) + U.uint_to_string(self.axis_id, 2) + U.uint_to_string(cnt, 4)
                + U.uint_to_string(mode, 2) + U.real_to_string(float(p1), 2) + U.real_to_string(float(p2), 2))

    def command(self, cnt, name, p1=0.0, p2=0.0):
        mode = self.MODES[name]
        a = self.a
        h = spawn(a._mode_command, self.frame(cnt, mode, p1, p2), self.stop)
        if h.exc is not None:
            self.exceptions.append((name, repr(h.exc)))
        if a.received_mode_command_answer != 9 or a.received_mode_command_counter != cnt:
            return None
        self.handles.append(h)
        if name == 'abs':
            t = 'CAbs %s %s' % (zlit(ir(p1 * 1000000)), zlit(ir(p2 * 1000000)))
        elif name == 'rel':
            t = 'CRel %s %s' % (zlit(ir(p1 * 1000000)), zlit(ir(p2 * 1000000)))
        elif name == 'slew':
            t = 'CSlew %s' % zlit(ir(p2 * 1000000 * p1))
        elif name == 'track':
            t = 'CTrack %s' % zlit(ir(p2 * 1000000))
        elif name == 'drive':
            t = 'CDriveStow %s %s' % (zlit(int(p1)), zlit(ir(p2 * 1000000)))
        else:
            t = dict(inactive='CInactive', active='CActive', stop='CStop', interlock='CInterlock',
                     reset='CReset', stow='CStow', unstow='CUnstow')[name]
        return 'ECmd %s (%s); ETick %d 0' % (zlit(cnt), t, len(self.handles) - 1)

    def tick(self, mid, k):
        if 0 <= mid < len(self.handles):
            h = self.handles[mid]
            resume(h, k)
            if h.exc is not None and not getattr(h, 'reported', False):
                h.reported = True
                self.exceptions.append(('tick', repr(h.exc)))
        return 'ETick %s %s' % (zlit(mid), zlit(k))

    def update(self):
        self.a.update_status()
        return 'EUpdate'

    def feed(self, nxt, pt, bahn):
        self.a.next_pos = nxt
        self.a.ptState = pt
        self.a.p_Bahn = bahn
        return 'EFeed %s %s %s' % (optlit(nxt), zlit(pt), zlit(bahn))

    def offset(self, cnt, relative, deg):
        U = self.U
        cmd = (U.uint_to_string(2, 2) + U.uint_to_string(self.axis_id, 2) + U.uint_to_string(cnt, 4)
               + U.uint_to_string(12 if relative else 11, 2) + U.real_to_string(float(deg), 2)
               + U.real_to_string(0.0, 2))
        try:
            self.a._parameter_command(cmd, self.stop)
        except Exception:       # the command thread dies (int32 overflow in the setter)
            pass
        return '%s %s' % ('EOffRel' if relative else 'EOffAbs', zlit(ir(deg * 1000000)))

    def live(self):
        return [i for i, h in enumerate(self.handles) if not h.done]

    def observe(self):
        a = self.a
        cur = a.curr_mode_counter
        br = a.brakes_open
        if br == [True] * self.n_motors + [False] * (16 - self.n_motors):
            b = 1
        elif br == [False] * 16:
            b = 0
        else:
            b = 2
        return [a.p_Ist, a.v_Ist, a.p_Soll, a.v_Soll, a.p_Bahn, a.p_Offset, a.axis_state,
                a.axis_trajectory_state, int(a.stowed), b, int(cur is not None), cur or 0,
                a.executed_mode_command_counter, a.executed_mode_command, a.executed_mode_command_answer,
                int(a.program_track_active), int(a.stowPosOk), int(a.Pre_Limit_Dn), int(a.Fin_Limit_Dn),
                int(a.Pre_Limit_Up), int(a.Fin_Limit_Up), int(a.Rate_Limit)] + self.live()

    def close(self):
        """let every parked thread leave its loop (stop.value) — nothing is observed afterwards"""
        self.stop.value = True
        for h in self.handles:
            resume(h, 0)


def system_config():
    """constructor arguments of AZ and EL as simulators.acu.System builds them"""
    import simulators.acu as A
    s = A.System()
    s.stop.value = True
    s.update_thread.join()
    out = []
    for ax_id, ax in ((1, s.AZ), (2, s.EL)):
        out.append(dict(axis_id=ax_id, n_motors=len(ax.motor_status),
                        max_rates=(ax.max_velocity, ax.max_acceleration),
                        op_range=(ax.min_pos, ax.max_pos), start_pos=ax.p_Ist / 1000000.0,
                        stow_pos=ax.stow_pos))
    return s, out


def make_axis(AS, conf, start=None):
    return AS.MasterAxisStatus(n_motors=conf['n_motors'], max_rates=conf['max_rates'],
                               op_range=conf['op_range'],
                               start_pos=conf['start_pos'] if start is None else start,
                               stow_pos=conf['stow_pos'])


EXTRA_CONFIGS = [
    dict(axis_id=1, n_motors=2, max_rates=(1.0, 0.5), op_range=(-2, 3), start_pos=0.5, stow_pos=None),
    dict(axis_id=2, n_motors=3, max_rates=(0.25, 0.1), op_range=(0, 1), start_pos=1, stow_pos=[1, 0.5]),
    dict(axis_id=1, n_motors=1, max_rates=(0.85, 0.4), op_range=(-0.001, 0.002), start_pos=0.0,
         stow_pos=None),
]


# ---------------------------------------------------------------------------
# seeded histories

class Script:
    """random history on one rig; records (event term, observation)"""

    def __init__(self, rng, rig):
        self.rng = rng
        self.r = rig
        self.cnt = rng.randrange(1, 1000)
        self.used = []
        self.hist = []
        self.moved = False
        self.kinds = []

    def next_counter(self):
        rng = self.rng
        if self.used and rng.random() < 0.04:
            return rng.choice(self.used)          # reused counter (model follows the code there too)
        self.cnt += rng.choice([1, 1, 1, 2, 7, 1000])
        self.used.append(self.cnt)
        return self.cnt

    def record(self, term):
        if term is None:
            return
        before = self.hist[-1][1][0] if self.hist else self.r.p0
        o = self.r.observe()
        if o[0] != before:
            self.moved = True
        self.hist.append((term, o))

    def rate(self, vmax_deg, allow_over=True):
        rng = self.rng
        x = rng.random()
        if x < 0.55:
            r = rng.uniform(0.05, 1.0) * vmax_deg
        elif x < 0.7:
            r = vmax_deg
        elif x < 0.8:
            r = -rng.uniform(0.05, 1.0) * vmax_deg
        elif x < 0.85:
            r = 0.0
        elif x < 0.93:
            r = round(rng.uniform(0.01, 1.0) * vmax_deg, rng.choice([1, 2, 3, 6]))
        else:
            r = vmax_deg * (rng.choice([1.000001, 1.5, 2.0]) if allow_over else 1.0)
        return r

    def pos(self):
        rng, r = self.rng, self.r
        lo, hi = r.a.min_pos, r.a.max_pos
        p = r.a.p_Ist / 1000000.0
        x = rng.random()
        if x < 0.35:
            return min(hi, max(lo, p + rng.uniform(-1, 1) * rng.choice([0.001, 0.05, 1.0, 5.0])))
        if x < 0.6:
            return rng.uniform(lo, hi)
        if x < 0.7:
            return rng.choice([lo, hi])
        if x < 0.8:
            return round(rng.uniform(lo, hi), rng.choice([0, 1, 3, 6]))
        if x < 0.9:
            return p
        return rng.choice([lo - 0.000001, hi + 0.000001, lo - 1, hi + 5])    # refused by validation

    def step(self):
        rng, r = self.rng, self.r
        a = r.a
        vdeg = a.max_velocity
        live = r.live()
        x = rng.random()
        if a.axis_state != 3 and x < 0.6:
            kind = 'active'
        elif a.stowed and x < 0.4:
            kind = 'unstow'
        elif live and x < 0.6:
            kind = 'tick'
        else:
            kind = rng.choice(
                ['update'] * 6 + ['feed'] * 8 + ['offset'] * 3 + ['abs'] * 14 + ['rel'] * 12 + ['slew'] * 7
                + ['stop'] * 6 + ['track'] * 10 + ['drive'] * 5 + ['stow'] * 3 + ['unstow'] * 3
                + ['inactive'] * 3 + ['active'] * 2 + ['interlock', 'reset'] + ['tick'] * 3)
        self.kinds.append(kind)
        if kind == 'tick':
            ids = live or [0]
            mid = rng.choice(ids) if rng.random() < 0.93 else rng.randrange(0, max(1, len(r.handles) + 1))
            k = rng.choice([0, 1, 2, 10, 33, 100, 256, 512, 1024, 1024, 3000, 10240, 65536,
                            rng.randrange(0, 5000), rng.randrange(0, 1 << 19)])
            self.record(r.tick(mid, k))
        elif kind == 'update':
            self.record(r.update())
        elif kind == 'feed':
            p = a.p_Ist
            nxt = rng.choice([None, 0, p, p + rng.randrange(-2000000, 2000000), rng.randrange(r.lo, r.hi + 1),
                              r.hi + rng.randrange(-3, 4), r.lo + rng.randrange(-3, 4)])
            bahn = rng.choice([p, p + rng.randrange(-1500000, 1500000), rng.randrange(r.lo - 5, r.hi + 6)])
            self.record(r.feed(nxt, rng.choice([0, 2, 2, 3, 3, 4]), bahn))
        elif kind == 'offset':
            deg = rng.choice([0.0, 0.001, -0.25, 1.5, rng.uniform(-3, 3), 3000.0])
            self.record(r.offset(self.next_counter(), rng.random() < 0.5, deg))
        elif kind == 'abs':
            self.record(r.command(self.next_counter(), 'abs', self.pos(), self.rate(vdeg)))
        elif kind == 'rel':
            tgt = self.pos()
            self.record(r.command(self.next_counter(), 'rel', tgt - a.p_Ist / 1000000.0,
                                  self.rate(vdeg, allow_over=False)))
        elif kind == 'slew':
            pct = rng.choice([1.0, -1.0, 0.5, -0.3, 0.0, rng.uniform(-1, 1), 1.5])
            self.record(r.command(self.next_counter(), 'slew', pct, self.rate(vdeg)))
        elif kind == 'track':
            self.record(r.command(self.next_counter(), 'track', 0.0, self.rate(vdeg)))
        elif kind == 'drive':
            idx = rng.choice([0, 0, 0, 1, 0.7, 5]) if r.stows else rng.choice([0, 3])
            self.record(r.command(self.next_counter(), 'drive', idx, self.rate(vdeg * 0.5)))
        else:
            self.record(r.command(self.next_counter(), kind))

    def run(self, n):
        for _ in range(n):
            self.step()
        self.r.close()


def case_term(rig, o0, hist):
    return '(%s, %s, %s, [%s])' % (
        rig.cfg_term(), zlit(rig.p0), zlist(o0),
        ';\n  '.join('([%s], %s)' % (t, zlist(o)) for t, o in hist))


def correspondence(ctx):
    AS = install_clock()
    system, confs = system_config()
    rng = ctx.rng
    cases = []
    ncase = ctx.n(120, 2500)
    exceptions = []
    for i in range(ncase):
        if i == 0:
            axis, conf = system.AZ, confs[0]
        elif i == 1:
            axis, conf = system.EL, confs[1]
        else:
            conf = confs[i % 2] if rng.random() < 0.6 else rng.choice(EXTRA_CONFIGS)
            lo, hi = conf['op_range']
            start = None
            if rng.random() < 0.5:
                start = rng.choice([lo, hi, round(rng.uniform(lo, hi), 3)] + list(conf['stow_pos'] or []))
            axis = make_axis(AS, conf, start)
        axis.update_status()           # System.__init__ runs the subsystem updates once
        rig = Rig(axis, conf['axis_id'])
        o0 = None
        sc = Script(rng, rig)
        o0 = rig.observe()
        sc.run(rng.choice([10, 20, 40, 60]))
        cases.append(case_term(rig, o0, sc.hist))
        for k in sc.kinds:
            ctx.count(k)
        ctx.count('events', len(sc.hist))
        if sc.moved:
            ctx.nontriv(('hist', cases[-1]))
        exceptions += rig.exceptions
    ctx.sample(cases[0][:600])
    if exceptions:
        ctx.note('command threads that raised: %d (first: %s)' % (len(exceptions), exceptions[0]))
    ctx.run_cases('axis', 'From DS Require Import Model.AaxModel Corr.AaxCorr.', 'aax_case', 'ok', cases,
                  show='show', shard=ctx.n(8, 40))


def oracle(ctx):
    pass


def replay(ctx, obj):
    oracle(ctx)
    return any(f['klass'] == obj.get('klass') for f in ctx.failures)
