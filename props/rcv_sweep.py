"""oracle-only + case-generation sweep of C18 and the receiver parts over many seeds on /repo HEAD"""
import importlib, json, os, sys, time, traceback
sys.path.insert(0, '/verif')
os.environ.setdefault('PYTHONHASHSEED', '0')
os.makedirs('/verif/.work/acsdata', exist_ok=True)
os.environ.setdefault('ACSDATA', '/verif/.work/acsdata')
from vlib import core
core.use_repo()
known = set((k['property'], k['klass']) for k in core.load_known())
tier = sys.argv[1]; lo = int(sys.argv[2]); hi = int(sys.argv[3])
targets = [('C18', 'props.c18', None), ('C02', 'props.c02', 'props.parts.c02_receiver'), ('C03', 'props.c03', 'props.parts.c03_receiver'),
           ('C04', 'props.c04', 'props.parts.c04_receiver'), ('C05', 'props.c05', 'props.parts.c05_receiver')]
bad = []
stats = {}
t0 = time.time()
for seed in range(lo, hi):
    for pid, modname, partname in targets:
        mod = importlib.import_module(modname)
        part = importlib.import_module(partname) if partname else None
        ctx = core.Ctx(mod, tier, seed, [part] if part else [])
        gencount = []
        def fake_run_cases(suite, imports, ctype, okfun, cases, **kw):
            for c in cases:
                assert isinstance(c, str) and c
            gencount.append((suite, len(cases)))
            return []
        ctx.run_cases = fake_run_cases
        m = part or mod
        for phase in ('oracle', 'correspondence'):
            try:
                getattr(m, phase)(ctx)
            except Exception:
                bad.append(dict(seed=seed, prop=pid, phase=phase, crash=traceback.format_exc()[-1200:]))
        for f in ctx.failures:
            if (pid, f['klass']) not in known:
                bad.append(dict(seed=seed, prop=pid, klass=f['klass'], what=f['what'], witness=f['witness']))
            stats[(pid, f['klass'])] = stats.get((pid, f['klass']), 0) + 1
        stats[(pid, 'evals')] = stats.get((pid, 'evals'), 0) + ctx.evaluations
        for s_, n in gencount:
            stats[(pid, 'gen:' + s_)] = stats.get((pid, 'gen:' + s_), 0) + n
out = '/tmp/rcv_sweep_%s_%d_%d.json' % (tier, lo, hi)
json.dump(dict(bad=bad, stats={'%s/%s' % k: v for k, v in stats.items()}, wall=time.time() - t0), open(out, 'w'), default=repr)
print(tier, lo, hi, 'unlisted failures/crashes:', len(bad), 'wall %.0fs' % (time.time() - t0))
for b in bad[:5]:
    print({k: (v if k != 'witness' else '...') for k, v in b.items()})
